package main

// Linear forms over SSA symbols, used by the cursor/bounds engine (E2) and the range engine (E3).

import (
	"fmt"
	"go/types"
	"math"
	"sort"
	"strings"

	"golang.org/x/tools/go/ssa"
)

// sym is an opaque integer quantity: the value of an int-typed SSA value ('v')
// or the length of a slice/string-typed SSA value ('l').
type sym struct {
	v    any // ssa.Value, or resKey (result placeholder of a summarised function)
	kind byte
}

// resKey names result #k of fn in a function summary.
type resKey struct {
	fn *ssa.Function
	k  int
}

// lin is c + sum(coef * sym). Immutable by convention.
type lin struct {
	c int64
	t map[sym]int64
}

func linConst(c int64) lin { return lin{c: c} }
func linSym(s sym) lin     { return lin{t: map[sym]int64{s: 1}} }

func (a lin) add(b lin) lin {
	r := lin{c: a.c + b.c, t: map[sym]int64{}}
	for s, k := range a.t {
		r.t[s] = k
	}
	for s, k := range b.t {
		r.t[s] += k
		if r.t[s] == 0 {
			delete(r.t, s)
		}
	}
	return r
}

func (a lin) scale(k int64) lin {
	if k == 0 {
		return lin{}
	}
	r := lin{c: a.c * k, t: map[sym]int64{}}
	for s, c := range a.t {
		r.t[s] = c * k
	}
	return r
}

func (a lin) sub(b lin) lin { return a.add(b.scale(-1)) }

func (a lin) isConst() bool { return len(a.t) == 0 }

func (a lin) equal(b lin) bool {
	d := a.sub(b)
	return d.isConst() && d.c == 0
}

func symName(s sym) string {
	n := "?"
	switch x := s.v.(type) {
	case resKey:
		n = fmt.Sprintf("result#%d", x.k)
	case *ssa.Parameter:
		n = x.Name()
	case *ssa.Call:
		n = x.Name() + ":" + shortCallee(x.Common())
	case ssa.Value:
		n = x.Name()
	}
	if s.kind == 'l' {
		return "len(" + n + ")"
	}
	return n
}

func (a lin) String() string {
	var parts []string
	var keys []sym
	for s := range a.t {
		keys = append(keys, s)
	}
	sort.Slice(keys, func(i, j int) bool { return symName(keys[i]) < symName(keys[j]) })
	for _, s := range keys {
		k := a.t[s]
		switch k {
		case 1:
			parts = append(parts, "+"+symName(s))
		case -1:
			parts = append(parts, "-"+symName(s))
		default:
			parts = append(parts, fmt.Sprintf("%+d*%s", k, symName(s)))
		}
	}
	if a.c != 0 || len(parts) == 0 {
		parts = append(parts, fmt.Sprintf("%+d", a.c))
	}
	return strings.TrimPrefix(strings.Join(parts, " "), "+")
}

// key is a canonical string for set membership (pointer-based, stable within a run).
func (a lin) key() string {
	var parts []string
	for s, k := range a.t {
		parts = append(parts, fmt.Sprintf("%p%c*%d", s.v, s.kind, k))
	}
	sort.Strings(parts)
	return fmt.Sprintf("%d|%s", a.c, strings.Join(parts, ","))
}

// typeRange gives the value range of an integer type.
func typeRange(t types.Type) (lo, hi int64, ok bool) {
	b, isB := t.Underlying().(*types.Basic)
	if !isB {
		return 0, 0, false
	}
	switch b.Kind() {
	case types.Uint8:
		return 0, 255, true
	case types.Uint16:
		return 0, 65535, true
	case types.Uint32:
		return 0, math.MaxUint32, true
	case types.Uint, types.Uint64, types.Uintptr:
		return 0, math.MaxInt64, true // upper bound clipped to int64 (values >= 2^63 are not modelled)
	case types.Int8:
		return -128, 127, true
	case types.Int16:
		return -32768, 32767, true
	case types.Int32:
		return math.MinInt32, math.MaxInt32, true
	case types.Int, types.Int64, types.UntypedInt:
		return math.MinInt64, math.MaxInt64, true
	}
	return 0, 0, false
}

// symBounds: static bounds of a symbol (independent of path facts).
func symBounds(s sym) (lo, hi int64) {
	lo, hi = math.MinInt64, math.MaxInt64
	if s.kind == 'l' {
		return 0, math.MaxInt64
	}
	switch x := s.v.(type) {
	case resKey:
		if l, h, ok := typeRange(x.fn.Signature.Results().At(x.k).Type()); ok {
			lo, hi = l, h
		}
	case ssa.Value:
		if l, h, ok := typeRange(x.Type()); ok {
			lo, hi = l, h
		}
	}
	return
}

func satAdd(a, b int64) int64 {
	if a == math.MaxInt64 || b == math.MaxInt64 {
		if a == math.MinInt64 || b == math.MinInt64 {
			return 0
		}
		return math.MaxInt64
	}
	if a == math.MinInt64 || b == math.MinInt64 {
		return math.MinInt64
	}
	r := a + b
	if (a > 0 && b > 0 && r < 0) || r > math.MaxInt64/2 {
		return math.MaxInt64
	}
	if (a < 0 && b < 0 && r > 0) || r < math.MinInt64/2 {
		return math.MinInt64
	}
	return r
}

func satMul(a, k int64) int64 {
	if k == 0 || a == 0 {
		return 0
	}
	if a == math.MaxInt64 || a == math.MinInt64 {
		if (a > 0) == (k > 0) {
			return math.MaxInt64
		}
		return math.MinInt64
	}
	r := a * k
	if r/k != a || r > math.MaxInt64/2 {
		if (a > 0) == (k > 0) {
			return math.MaxInt64
		}
		return math.MinInt64
	}
	if r < math.MinInt64/2 {
		return math.MinInt64
	}
	return r
}

// bounds of a linear form from the static bounds of its symbols, tightened by
// single-symbol facts (lo/hi maps).
func (a lin) bounds(lo, hi map[sym]int64) (int64, int64) {
	l, h := a.c, a.c
	for s, k := range a.t {
		sl, sh := symBounds(s)
		if v, ok := lo[s]; ok && v > sl {
			sl = v
		}
		if v, ok := hi[s]; ok && v < sh {
			sh = v
		}
		if k > 0 {
			l = satAdd(l, satMul(sl, k))
			h = satAdd(h, satMul(sh, k))
		} else {
			l = satAdd(l, satMul(sh, k))
			h = satAdd(h, satMul(sl, k))
		}
	}
	return l, h
}

// factSet is a set of linear inequalities "form >= 0".
type factSet map[string]lin

func (f factSet) clone() factSet {
	r := make(factSet, len(f))
	for k, v := range f {
		r[k] = v
	}
	return r
}

func (f factSet) addGE(a lin) {
	if a.isConst() {
		return
	}
	f[a.key()] = a
}

func (f factSet) intersect(g factSet) factSet {
	r := factSet{}
	for k, v := range f {
		if _, ok := g[k]; ok {
			r[k] = v
		}
	}
	return r
}

func (f factSet) same(g factSet) bool {
	if len(f) != len(g) {
		return false
	}
	for k := range f {
		if _, ok := g[k]; !ok {
			return false
		}
	}
	return true
}

// singleBounds extracts per-symbol bounds from facts of the form  k*s + c >= 0.
func (f factSet) singleBounds() (lo, hi map[sym]int64) {
	lo, hi = map[sym]int64{}, map[sym]int64{}
	for _, a := range f {
		if len(a.t) != 1 {
			continue
		}
		for s, k := range a.t {
			if k == 1 { // s >= -c
				if v, ok := lo[s]; !ok || -a.c > v {
					lo[s] = -a.c
				}
			} else if k == -1 { // s <= c
				if v, ok := hi[s]; !ok || a.c < v {
					hi[s] = a.c
				}
			}
		}
	}
	return
}

// proveGE tries to establish e >= 0 from facts: e = sum of up to 3 facts (unit
// coefficients, also 2x for one fact) + a remainder that is non-negative by the
// (fact-tightened) bounds of its symbols. No solver.
func proveGE(e lin, facts factSet) bool {
	lo, hi := facts.singleBounds()
	nonneg := func(r lin) bool {
		l, _ := r.bounds(lo, hi)
		return l >= 0
	}
	if nonneg(e) {
		return true
	}
	// candidate facts: those sharing a symbol with e (or with another candidate)
	var fs []lin
	for _, a := range facts {
		fs = append(fs, a)
	}
	sort.Slice(fs, func(i, j int) bool { return fs[i].key() < fs[j].key() })
	if len(fs) > 60 {
		fs = fs[:60]
	}
	for i := range fs {
		r1 := e.sub(fs[i])
		if nonneg(r1) {
			return true
		}
	}
	for i := range fs {
		r1 := e.sub(fs[i])
		for j := i; j < len(fs); j++ {
			r2 := r1.sub(fs[j])
			if nonneg(r2) {
				return true
			}
		}
	}
	if len(fs) <= 24 {
		for i := range fs {
			r1 := e.sub(fs[i])
			for j := i; j < len(fs); j++ {
				r2 := r1.sub(fs[j])
				for k := j; k < len(fs); k++ {
					if nonneg(r2.sub(fs[k])) {
						return true
					}
				}
			}
		}
	}
	return false
}
