package main

// C20 — Host and virtual-host pattern matching is total and is glob matching.

import (
	"fmt"
	"go/token"

	"golang.org/x/tools/go/ssa"
)

func init() { register("C20", checkC20) }

func checkC20(c *Ctx) {
	P := c.P
	c.Rule("C20.R1", "totality: every index into pattern / input in glob.Glob is in bounds for every pair of strings, and no abort is reachable (E2 + E4)")
	c.Rule("C20.R2", "termination shape: no path around a loop of glob.Glob leaves every loop variable unchanged (an iteration that changes nothing can repeat forever); each loop variable only moves forward except for the backtrack assignment to a strictly advanced mark (E1 on the SSA loop)")
	c.Rule("C20.R3", "the matcher is what is consulted: MatchHostPattern and VirtualHosts.Match call glob.Glob(pattern, input) in that argument order; Match returns the first element whose call is true, in slice order; MatchHost merges a host block iff one of its patterns matched, once per block, in configuration order (E1 + E4)")
	c.Decides("panic-freedom and a necessary condition of termination of the matcher; that the consumers ask the matcher the right question in the right order; that lookups are independent of each other (fresh result, configuration not written, appends on the copy clipped)")
	c.NotDecided("that Glob returns true exactly for instances of the pattern (a functional statement over all string pairs; the missing backtracking of the pinned matcher was found by reading, not by this check — DESIGN §4 F6)")

	g := P.Func("pkg/glob", "Glob")
	if g == nil {
		c.Undecided("C20.R1", "pkg/glob.Glob", "function not found")
		return
	}
	boundsRuleFns(c, "C20.R1", []*ssa.Function{g})
	abortReach(c, "C20.R1", []*ssa.Function{g}, map[string]bool{"pkg/glob": true}, map[string]string{})

	// ---- R2
	c.Analysed(FuncName(g))
	nLoops := 0
	for _, h := range g.Blocks {
		// loop header: has a predecessor it dominates
		isHeader := false
		for _, pr := range h.Preds {
			if h.Dominates(pr) {
				isHeader = true
			}
		}
		if !isHeader {
			continue
		}
		var phis []*ssa.Phi
		for _, ins := range h.Instrs {
			if p, ok := ins.(*ssa.Phi); ok {
				phis = append(phis, p)
			}
		}
		// range-over-slice loops (the Option loop) terminate by construction
		isRange := len(phis) > 0
		for _, p := range phis {
			if !isIntType(p.Type()) {
				isRange = false
				continue
			}
			for _, e := range p.Edges {
				if n, ok := constInt(e); ok && n == -1 {
					continue
				}
				if bo, ok := e.(*ssa.BinOp); ok && bo.Op == token.ADD && bo.X == ssa.Value(p) {
					if n, ok := constInt(bo.Y); ok && n == 1 {
						continue
					}
				}
				isRange = false
			}
		}
		if isRange {
			continue
		}
		nLoops++
		cons := fmt.Sprintf("%s#loop@b%d", FuncName(g), h.Index)
		// enumerate paths header -> ... -> header inside the loop
		bad := ""
		var badPath []*ssa.BasicBlock
		npaths := 0
		var walk func(b *ssa.BasicBlock, path []*ssa.BasicBlock)
		walk = func(b *ssa.BasicBlock, path []*ssa.BasicBlock) {
			if npaths > 5000 || bad != "" {
				return
			}
			for _, s := range b.Succs {
				if s == h {
					npaths++
					full := append(append([]*ssa.BasicBlock{}, path...), b)
					// which header phis change on this path?
					pred := b
					idx := -1
					for i, pb := range h.Preds {
						if pb == pred {
							idx = i
						}
					}
					changed, sideEffect := false, false
					for _, p := range phis {
						v := p.Edges[idx]
						// resolve inner phis along the path
						v = resolveAlong(v, full)
						// progress: some integer loop variable is strictly advanced (v = v + c, c > 0) on this path
						if bo, ok := v.(*ssa.BinOp); ok && bo.Op == token.ADD && isIntType(p.Type()) {
							if n, isC := constInt(bo.Y); isC && n > 0 {
								// self-increment of a loop variable (i++, j++, mark++)
								if resolveAlong(bo.X, full) == ssa.Value(p) {
									changed = true
								}
							}
						}
						// backward moves: only phi + positive constant, another loop variable (+const), are forward
						if bo, ok := v.(*ssa.BinOp); ok && bo.Op == token.SUB {
							if _, isC := constInt(bo.Y); isC && resolveAlong(bo.X, full) == ssa.Value(p) {
								bad = "a loop variable is decremented on a path around the loop"
								badPath = full
							}
						}
					}
					for _, pb := range full {
						for _, ins := range pb.Instrs {
							switch ins.(type) {
							case *ssa.Store, *ssa.Call, *ssa.MapUpdate, *ssa.Send:
								if !isLogCall(ins) {
									if call, ok := ins.(*ssa.Call); ok {
										if _, isB := call.Call.Value.(*ssa.Builtin); isB {
											continue
										}
									}
									sideEffect = true
								}
							}
						}
					}
					if !changed && !sideEffect && bad == "" {
						bad = "a path around the loop changes no loop variable: if taken once it is taken forever (matching does not terminate)"
						badPath = full
					}
					continue
				}
				if !h.Dominates(s) {
					continue // leaves the loop
				}
				onPath := false
				for _, pb := range path {
					if pb == s {
						onPath = true
					}
				}
				if onPath || s == b {
					continue // inner cycle: judged at its own header
				}
				walk(s, append(path, b))
			}
		}
		walk(h, nil)
		if bad != "" {
			var tr []string
			for _, pb := range badPath {
				tr = append(tr, fmt.Sprintf("block %d (%s)", pb.Index, P.InstrPos(pb.Instrs[len(pb.Instrs)-1])))
			}
			c.Fail("C20.R2", cons, P.InstrPos(h.Instrs[len(h.Instrs)-1]), bad, tr...)
		} else {
			c.OK("C20.R2", cons, P.InstrPos(h.Instrs[len(h.Instrs)-1]), fmt.Sprintf("%d path(s) around the loop, each changes a loop variable, none moves one backwards", npaths))
		}
	}
	c.Floor("C20.R2", "loops of Glob under the progress rule", nLoops, 1)

	// ---- R3
	globID := hopID("pkg/glob", "", "Glob")
	if f := P.Func("config", "MatchHostPattern"); f == nil {
		// no wrapper: MatchHost must consult glob.Glob itself (checked below: the latest Glob call before a merge was true and asked about the requested host)
		okDirect := false
		if mh := P.Func("config", "(*ClientConfig).MatchHost"); mh != nil && len(callSitesIn(mh, false, globID)) > 0 {
			okDirect = true
		}
		if okDirect {
			c.OK("C20.R3", "config.MatchHostPattern#delegates", "-", "no wrapper: MatchHost calls glob.Glob directly")
		} else {
			c.Undecided("C20.R3", "config.MatchHostPattern", "neither MatchHostPattern nor a direct glob.Glob call in MatchHost was found")
		}
	} else {
		// every return hands back the result of glob.Glob(pattern, input), unchanged
		okv := true
		nRet := 0
		isGlobCall := func(v ssa.Value) bool {
			call, ok := v.(*ssa.Call)
			if !ok || calleeID(call) != globID {
				return false
			}
			a := call.Call.Args
			return len(a) >= 2 && paramIndex(f, a[0]) == 0 && paramIndex(f, a[1]) == 1
		}
		var fromGlob func(v ssa.Value, depth int) bool
		fromGlob = func(v ssa.Value, depth int) bool {
			if isGlobCall(v) {
				return true
			}
			if phi, ok := v.(*ssa.Phi); ok && depth < 4 {
				for _, e := range phi.Edges {
					if !fromGlob(e, depth+1) {
						return false
					}
				}
				return len(phi.Edges) > 0
			}
			if src := loadSource(v); src != nil && src != v && depth < 4 {
				return fromGlob(src, depth+1)
			}
			return false
		}
		for _, b := range f.Blocks {
			if r, ok := b.Instrs[len(b.Instrs)-1].(*ssa.Return); ok {
				nRet++
				if len(r.Results) != 1 || !fromGlob(r.Results[0], 0) {
					okv = false
				}
			}
		}
		okv = okv && nRet > 0
		c.Check(okv, "C20.R3", FuncName(f)+"#delegates", P.Pos(f.Pos()), "every return is glob.Glob(pattern, input)", "MatchHostPattern answers on some path without the result of glob.Glob(pattern, input) (arguments in that order): on that path host blocks are not selected by glob matching")
	}
	if f := P.Func("hopserver", "VirtualHosts.Match"); f == nil {
		c.Undecided("C20.R3", "hopserver.VirtualHosts.Match", "function not found")
	} else {
		c.Analysed(FuncName(f))
		fPattern := P.Field("hopserver", "VirtualHost", "Pattern")
		fs := newFailSet()
		nonNil := 0
		ok := walkAllOpts(c, "C20.R3", f, PathOpts{MaxVisits: 4}, func(p *Path) {
			r := p.Returns()
			if r == nil || len(r.Results) != 1 {
				return
			}
			last := len(p.Blocks) - 1
			rv := p.Resolve(r.Results[0], last)
			if isNilConst(rv) {
				// nil only after every element was tried: the loop ran out (no true call on the path)
				for _, pc := range callsOnPath(p) {
					if calleeID(pc.call) == globID {
						if v, known := boolAfter(p, pc.call, pc.at); known && v {
							fs.add("first-match", "Match returns nil although a pattern matched", p.Exit(), p)
						}
					}
				}
				return
			}
			nonNil++
			ia, isIA := rv.(*ssa.IndexAddr)
			if !isIA || paramIndex(f, ia.X) != 0 {
				fs.add("first-match", "Match returns something other than an element of the list", p.Exit(), p)
				return
			}
			// the last Glob call on the path: true, on that element's pattern, with (pattern, name)
			var lastCall *ssa.Call
			lastAt := 0
			trues := 0
			for _, pc := range callsOnPath(p) {
				if calleeID(pc.call) == globID {
					lastCall, lastAt = pc.call, pc.at
					if v, known := boolAfter(p, pc.call, pc.at); known && v {
						trues++
					}
				}
			}
			if lastCall == nil {
				fs.add("first-match", "Match returns an element without asking the matcher", p.Exit(), p)
				return
			}
			a := lastCall.Call.Args
			v, known := boolAfter(p, lastCall, lastAt)
			sameElem := false
			if len(a) >= 2 && endsInField(a[0], fPattern, false) {
				if ia2 := innerIndexAddr(a[0]); ia2 != nil && paramIndex(f, ia2.X) == 0 && p.Resolve(ia2.Index, lastAt) == p.Resolve(ia.Index, last) {
					sameElem = true
				}
			}
			if !(known && v) || trues != 1 {
				fs.add("first-match", "Match returns an element whose pattern was not found to match, or after an earlier element already matched", p.Exit(), p)
			}
			if !sameElem {
				fs.add("first-match", "the element returned is not the element whose pattern was tested", p.Exit(), p)
			}
			if len(a) < 2 || paramIndex(f, a[1]) != 1 {
				fs.add("arg-order", "Glob is not called as Glob(vhost.Pattern, name)", lastCall, p)
			}
		})
		if ok {
			fs.report(c, "C20.R3", FuncName(f), []string{"first-match", "arg-order"}, P.Pos(f.Pos()), fmt.Sprintf("%d non-nil returning paths", nonNil))
			c.Floor("C20.R3", "non-nil returning paths of VirtualHosts.Match", nonNil, 1)
		}
		// slice order: the index is the range counter starting at 0 stepping +1 (rotated: phi(-1)+1)
		okOrder := false
		eachInstr(f, func(ins ssa.Instruction) {
			if phi, ok := ins.(*ssa.Phi); ok && isIntType(phi.Type()) {
				init, step := int64(99), int64(0)
				for _, e := range phi.Edges {
					if n, ok := constInt(e); ok {
						init = n
					} else if b, ok := e.(*ssa.BinOp); ok && b.Op == token.ADD {
						if n, ok := constInt(b.Y); ok {
							step = n
						}
					}
				}
				if (init == -1 || init == 0) && step == 1 {
					okOrder = true
				}
			}
		})
		c.Check(okOrder, "C20.R3", FuncName(f)+"#order", P.Pos(f.Pos()), "elements tried in slice order", "VirtualHosts.Match does not try the virtual hosts in list order (index from 0 stepping by 1)")
	}
	if f := P.Func("config", "(*ClientConfig).MatchHost"); f == nil {
		c.Undecided("C20.R3", "config.(*ClientConfig).MatchHost", "function not found")
	} else {
		c.Analysed(FuncName(f))
		mhp := hopID("config", "", "MatchHostPattern")
		merge := hopID("config", "HostConfigOptional", "MergeWith")
		nMerge := 0
		// path-based, helpers inlined: (a) the latest pattern test before a merge was found true and asked about
		// the requested host; (b) between two merges the path re-enters the outermost loop around the merge site
		// (one merge per host block)
		mergeSites := map[ssa.Instruction]bool{}
		for _, cs := range callSitesIn(f, false, merge) {
			mergeSites[cs.(ssa.Instruction)] = true
			nMerge++
		}
		outerHeader := func(blk *ssa.BasicBlock) *ssa.BasicBlock {
			var outer *ssa.BasicBlock
			for _, h := range f.Blocks {
				isH := false
				for _, pr := range h.Preds {
					if h.Dominates(pr) {
						isH = true
					}
				}
				if isH && h.Dominates(blk) && blockReaches(blk, h) && (outer == nil || h.Dominates(outer)) {
					outer = h
				}
			}
			return outer
		}
		fsm := newFailSet()
		seenMerge := 0
		okWalk := walkAllOpts(c, "C20.R3", f, PathOpts{MaxVisits: 2, EmitTruncated: true}, func(p *Path) {
			var lastMatch *ssa.Call
			lastMatchAt := -1
			lastMergeAt := -1
			p.ForEach(func(i int, ins ssa.Instruction) bool {
				call, ok := ins.(*ssa.Call)
				if !ok {
					return true
				}
				id := calleeID(call)
				if id == mhp || id == globID {
					lastMatch, lastMatchAt = call, i
					return true
				}
				if !mergeSites[ins] {
					return true
				}
				seenMerge++
				okv := false
				if lastMatch != nil {
					if v, known := boolAfter(p, lastMatch, lastMatchAt); known && v {
						a := lastMatch.Call.Args
						if len(a) >= 2 && paramIndex(f, p.Resolve(a[1], lastMatchAt)) == 1 {
							okv = true
						}
					}
				}
				if !okv {
					fsm.add("merge-iff-match", "a host block is merged without one of its patterns having matched the requested host", ins, p)
				}
				if lastMergeAt >= 0 {
					h := outerHeader(ins.Block())
					passed := false
					for j := lastMergeAt + 1; j <= i; j++ {
						if h != nil && p.Blocks[j] == h && p.startsBlock(j) {
							passed = true
						}
					}
					if !passed {
						fsm.add("merge-once", "a host block can be merged more than once for one request (no break after the first matching pattern)", ins, p)
					}
				}
				lastMergeAt = i
				return true
			})
		})
		if okWalk {
			if seenMerge == 0 && nMerge > 0 {
				c.Undecided("C20.R3", FuncName(f)+"#merge-iff-match", "no MergeWith call on any enumerated path")
			} else {
				fsm.report(c, "C20.R3", FuncName(f), []string{"merge-iff-match", "merge-once"}, P.Pos(f.Pos()), "merge only after a true MatchHostPattern(pattern, inputHost); one merge per host block")
			}
		}
		c.Floor("C20.R3", "MergeWith sites in MatchHost", nMerge, 1)
	}
	c20R4(c)
}

// resolveAlong resolves phis of blocks on the path (other than the first) by the path's edges.
func resolveAlong(v ssa.Value, path []*ssa.BasicBlock) ssa.Value {
	for k := 0; k < 16; k++ {
		phi, ok := v.(*ssa.Phi)
		if !ok {
			return v
		}
		idx := -1
		for i := len(path) - 1; i >= 1; i-- {
			if path[i] == phi.Block() {
				for j, pb := range phi.Block().Preds {
					if pb == path[i-1] {
						idx = j
					}
				}
				break
			}
		}
		if idx < 0 {
			return v
		}
		v = phi.Edges[idx]
	}
	return v
}

// innerIndexAddr finds the &x[i] under a chain of loads / field selections.
func innerIndexAddr(v ssa.Value) *ssa.IndexAddr {
	for k := 0; k < 16; k++ {
		switch x := strip(v).(type) {
		case *ssa.IndexAddr:
			return x
		case *ssa.UnOp:
			v = x.X
		case *ssa.FieldAddr:
			v = x.X
		case *ssa.Field:
			v = x.X
		default:
			return nil
		}
	}
	return nil
}
