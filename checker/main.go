package main

// hopverif — repository-specific static analysis deciding structural necessary
// conditions of properties C01..C20 of hop-go. See /verif/DESIGN.md.

import (
	"encoding/json"
	"flag"
	"fmt"
	"os"
	"path/filepath"
	"runtime/debug"
	"sort"
	"strings"
)

type propCheck struct {
	id  string
	run func(c *Ctx)
}

var registry = map[string]func(c *Ctx){}

var debugCmds = map[string]func(args []string) int{}

func register(id string, f func(c *Ctx)) { registry[id] = f }

func verifDir() string {
	if d := os.Getenv("VERIF_DIR"); d != "" {
		return d
	}
	exe, err := os.Executable()
	if err == nil {
		d := filepath.Dir(filepath.Dir(exe))
		if _, err := os.Stat(filepath.Join(d, "MANIFEST.json")); err == nil {
			return d
		}
	}
	return "/verif"
}

func main() {
	if len(os.Args) < 2 {
		usage()
	}
	switch os.Args[1] {
	case "check":
		os.Exit(cmdCheck(os.Args[2:]))
	case "explain":
		os.Exit(cmdExplain(os.Args[2:]))
	case "debug":
		if f := debugCmds[os.Args[2]]; f != nil {
			os.Exit(f(os.Args[3:]))
		}
		usage()
	case "list":
		var ids []string
		for id := range registry {
			ids = append(ids, id)
		}
		sort.Strings(ids)
		fmt.Println(strings.Join(ids, " "))
	default:
		usage()
	}
}

func usage() {
	fmt.Fprintln(os.Stderr, "usage: hopverif check --prop Cxx[,Cyy|all] --tier quick|thorough [--repo /repo]\n       hopverif explain <report.json>")
	os.Exit(2)
}

func cmdCheck(args []string) int {
	fs := flag.NewFlagSet("check", flag.ExitOnError)
	prop := fs.String("prop", "", "property id(s), comma separated, or 'all'")
	tier := fs.String("tier", "quick", "quick|thorough")
	repo := fs.String("repo", "/repo", "repository root")
	out := fs.String("out", "", "override verif dir for evidence/reports (testing)")
	ov := fs.String("overlay", "", "comma separated orig=replacement file pairs (in-memory mutants; testing/self-validation)")
	fs.Parse(args)
	var overlay map[string][]byte
	if *ov != "" {
		overlay = map[string][]byte{}
		for _, pair := range strings.Split(*ov, ",") {
			kv := strings.SplitN(pair, "=", 2)
			if len(kv) != 2 {
				fmt.Fprintln(os.Stderr, "bad --overlay")
				return 2
			}
			b, err := os.ReadFile(kv[1])
			if err != nil {
				fmt.Fprintln(os.Stderr, err)
				return 2
			}
			overlay[kv[0]] = b
		}
	}
	if t := os.Getenv("VERIF_TIER"); t != "" && *tier == "" {
		*tier = t
	}
	var ids []string
	if *prop == "all" {
		for id := range registry {
			ids = append(ids, id)
		}
		sort.Strings(ids)
	} else {
		ids = strings.Split(*prop, ",")
	}
	vd := verifDir()
	if *out != "" {
		vd = *out
	}
	tagSets := []string{""}
	if *tier == "thorough" {
		tierThorough = true
		// the default build, the debug build, the build without the amd64 assembly
		// (generic Keccak paths), and the other supported OS family
		tagSets = []string{"", "debug", "GOARCH=arm64", "GOOS=darwin,GOARCH=arm64,CGO_ENABLED=0"}
	}
	worst := 0
	progs := map[string]*Program{}
	for _, tags := range tagSets {
		p, err := Load(*repo, tags, overlay)
		if err != nil {
			fmt.Printf("UNDECIDED load error (tags=%q): %v\n", tags, err)
			return 2
		}
		progs[tags] = p
		fmt.Printf("loaded %s tags=%q: %d module packages, %d packages in closure\n", *repo, tags, len(p.Roots), len(p.All))
	}
	for _, id := range ids {
		f := registry[id]
		if f == nil {
			fmt.Printf("UNDECIDED property=%s: no check registered\n", id)
			worst = max(worst, 2)
			continue
		}
		var sv map[string]interface{}
		if *tier == "thorough" {
			sv = selfValidate(id, *repo, vd, overlay != nil)
		}
		code := runOne(id, *tier, vd, tagSets, progs, f, sv)
		worst = maxCode(worst, code)
	}
	return worst
}

// maxCode: 1 (violation) dominates 2 (undecided) dominates 0.
func maxCode(a, b int) int {
	if a == 1 || b == 1 {
		return 1
	}
	if a == 2 || b == 2 {
		return 2
	}
	return 0
}

func runOne(id, tier, vd string, tagSets []string, progs map[string]*Program, f func(c *Ctx), sv map[string]interface{}) (code int) {
	// The default tag set is evaluated last so that its evidence is the one kept;
	// obligations of the other tag sets are merged in with a prefix.
	var merged *Ctx
	for i := len(tagSets) - 1; i >= 0; i-- {
		tags := tagSets[i]
		c := NewCtx(id, tier, vd, progs[tags])
		func() {
			defer func() {
				if r := recover(); r != nil {
					c.Undecided(id, "analyser-panic", fmt.Sprintf("%v\n%s", r, debug.Stack()))
				}
			}()
			f(c)
		}()
		if merged == nil {
			merged = c
			if tags != "" {
				for k := range c.Obs {
					c.Obs[k].Construct = c.Obs[k].Construct + " [tags=" + tags + "]"
				}
			}
		} else {
			// c is a later (closer to default) tag set: keep c as primary, append earlier ones
			prev := merged
			merged = c
			for _, o := range prev.Obs {
				if o.Verdict != vOK {
					merged.Obs = append(merged.Obs, o)
				}
			}
			merged.extra["other_tag_sets"] = map[string]interface{}{"tags": tagSets[1:], "obligations": len(prev.Obs)}
		}
	}
	if sv != nil {
		merged.extra["self_validation"] = sv
	}
	if tier == "thorough" {
		merged.extra["configurations"] = tagSets
		merged.extra["path_bounds"] = "every path enumeration unrolls loops once more than the quick tier and may visit 20x as many paths"
	}
	return merged.Finish()
}

func cmdExplain(args []string) int {
	if len(args) < 1 {
		usage()
	}
	b, err := os.ReadFile(args[0])
	if err != nil {
		fmt.Fprintln(os.Stderr, err)
		return 2
	}
	var rep struct {
		Property   string `json:"property"`
		Tier       string `json:"tier"`
		Repo       string `json:"repo"`
		Violations []Ob   `json:"violations"`
	}
	if err := json.Unmarshal(b, &rep); err != nil {
		fmt.Fprintln(os.Stderr, err)
		return 2
	}
	fmt.Printf("report for %s (%s tier) on %s: %d violation(s)\n", rep.Property, rep.Tier, rep.Repo, len(rep.Violations))
	for _, o := range rep.Violations {
		fmt.Printf("- %s %s at %s\n    %s\n", o.Rule, o.Construct, o.Site, o.Detail)
		for _, s := range o.Path {
			fmt.Printf("    via %s\n", s)
		}
	}
	fmt.Printf("re-evaluating %s on the current tree:\n", rep.Property)
	return cmdCheck([]string{"--prop", rep.Property, "--tier", rep.Tier, "--repo", rep.Repo, "--out", os.TempDir()})
}

func init() {
	debugCmds["bounds"] = func(args []string) int {
		// hopverif debug bounds <repo> <rel pkg> <func>...
		p, err := Load(args[0], "", nil)
		if err != nil {
			fmt.Println(err)
			return 2
		}
		eng := newBoundsEngine(p)
		for _, fnName := range args[2:] {
			fn := p.Func(args[1], fnName)
			if fn == nil {
				fmt.Println("not found", fnName)
				continue
			}
			s := eng.summary(fn)
			fmt.Printf("== %s proven=%d\n", FuncName(fn), s.proven)
			for _, r := range s.requires {
				fmt.Printf("  requires %s : %s >= 0   (%s)\n", r.what, r.e, p.InstrPos(r.ins))
			}
			for _, r := range s.unproven {
				fmt.Printf("  UNPROVEN %s : %s >= 0   (%s)\n", r.what, r.e, p.InstrPos(r.ins))
			}
			for _, f := range s.ensuresAl {
				fmt.Printf("  always  %s >= 0\n", f)
			}
			for _, f := range s.ensuresOK {
				fmt.Printf("  success %s >= 0\n", f)
			}
		}
		return 0
	}
}

func init() {
	debugCmds["fieldwrites"] = func(args []string) int {
		p, err := Load(args[0], "", nil)
		if err != nil {
			fmt.Println(err)
			return 2
		}
		f := p.Field(args[1], args[2], args[3])
		fmt.Println("field", f)
		for _, w := range p.FieldWrites(f, args[1]) {
			fmt.Printf("%s %s %s val=%v (%T)\n", FuncName(w.Fn), w.Kind, p.InstrPos(w.Instr), w.Val, w.Val)
		}
		return 0
	}
}
