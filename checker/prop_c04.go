package main

// C04 — Certificate verification accepts exactly the valid chains.

import (
	"fmt"
	"go/token"
	"go/types"
	"strings"

	"golang.org/x/tools/go/ssa"
)

func init() { register("C04", checkC04) }

type c04ctx struct {
	c                                  *Ctx
	fType, fIssued, fExp, fParent, fFP *types.Var
	fRaw, fSig, fPub, fCerts           *types.Var
	oPI, oName, oTime                  *types.Var
	leafC, interC, rootC               int64
}

func checkC04(c *Ctx) {
	P := c.P
	c.Rule("C04.R1", "VerifyLeaf accepts only valid chains: on every success path the leaf is of type Leaf, matches the requested name unless none is given, lies in [IssuedAt, ExpiresAt) at the verification time; its parent is the presented intermediate whose fingerprint it names, or the stored certificate under that fingerprint; that is of type Intermediate and valid at that time; the root comes from the store only, is of type Root and valid; both VerifyParent calls returned nil (E1 decision table with a total order on time values)")
	c.Rule("C04.R2", "VerifyLeaf rejects only invalid chains: the branch that leads to each failing return is the complement of one R1 obligation (a stricter or unrelated test would reject a valid chain)")
	c.Rule("C04.R3", "VerifyParent accepts only (Leaf,Intermediate), (Intermediate,Root), (Root,Root with zero parent), requires child.Parent == parent.Fingerprint for non-roots and a true VerifySignature(parent.PublicKey, child.raw[:len-64], &child.Signature); raw and Fingerprint are written only while parsing / issuing (E1 + E4)")
	c.Rule("C04.R4", "MatchesName returns true only for a Leaf with one name block whose Label and Type both equal the requested ones; Name.IsZero is true only for the nil-label, type-0 value; authkeys.VerifyLeaf requires the format check and key membership (E1)")
	c.Rule("C04.R5", "issuance is consistent with verification: issue requires the parent's key and fingerprint, parent.IssuedAt <= issuedAt < parent.ExpiresAt, clamps the expiry to the parent's, signs exactly the serialisation without its signature; IssueLeafAt requires an Intermediate parent, IssueIntermediate a Root (E1)")
	c.Decides("the accept/reject decision structure of chain verification in both directions, the signed range, and that what issuance produces satisfies what verification demands")
	c.NotDecided("Ed25519 and SHA-3 themselves; single-bit sensitivity (follows from signature and fingerprint covering all of raw, given the primitives); encoding round-trip (C18)")
	x := &c04ctx{c: c,
		fType: P.Field("certs", "Certificate", "Type"), fIssued: P.Field("certs", "Certificate", "IssuedAt"), fExp: P.Field("certs", "Certificate", "ExpiresAt"),
		fParent: P.Field("certs", "Certificate", "Parent"), fFP: P.Field("certs", "Certificate", "Fingerprint"), fRaw: P.Field("certs", "Certificate", "raw"),
		fSig: P.Field("certs", "Certificate", "Signature"), fPub: P.Field("certs", "Certificate", "PublicKey"), fCerts: P.Field("certs", "Store", "certs"),
		oPI: P.Field("certs", "VerifyOptions", "PresentedIntermediate"), oName: P.Field("certs", "VerifyOptions", "Name"), oTime: P.Field("certs", "VerifyOptions", "CurrentTime"),
		leafC: pkgConst(P, "certs", "Leaf"), interC: pkgConst(P, "certs", "Intermediate"), rootC: pkgConst(P, "certs", "Root")}
	for _, f := range []*types.Var{x.fType, x.fIssued, x.fExp, x.fParent, x.fFP, x.fRaw, x.fSig, x.fPub, x.fCerts, x.oPI, x.oName, x.oTime} {
		if f == nil {
			c.Undecided("C04.R1", "certs fields", "a field of certs.Certificate / Store / VerifyOptions was not found")
			return
		}
	}
	c04R6(c)
	c04R7(c)
	x.verifyLeaf()
	x.verifyParent()
	x.names()
	x.issuance()
}

// subjectOf: the certificate value a field load belongs to, resolved on the path.
func (x *c04ctx) subjectOf(p *Path, v ssa.Value, at int) ssa.Value {
	r, _ := accessPath(p.Deref(v, at))
	return p.Deref(r, at)
}

func (x *c04ctx) sameVal(p *Path, a, b ssa.Value, at int) bool {
	return p.Deref(a, at) == p.Deref(b, at) || lookThrough(p.Deref(a, at)) == lookThrough(p.Deref(b, at))
}

func (x *c04ctx) verifyLeaf() {
	c, P := x.c, x.c.P
	fn := P.Func("certs", "Store.VerifyLeaf")
	if fn == nil {
		c.Undecided("C04.R1", "certs.Store.VerifyLeaf", "function not found")
		return
	}
	name := FuncName(fn)
	c.Analysed(name)
	vp := hopID("certs", "", "VerifyParent")
	isZeroName := hopID("certs", "Name", "IsZero")
	matches := hopID("certs", "Certificate", "MatchesName")
	L := ssa.Value(fn.Params[1])
	fs1, fs2 := newFailSet(), newFailSet()
	succ, fails := 0, 0
	typeIs := func(p *Path, subj ssa.Value, want int64, last int) bool {
		for k, v := range p.FactsAt(last) {
			if k.op != token.EQL || k.y == nil || !v {
				continue
			}
			for _, pr := range [][2]ssa.Value{{k.x, k.y}, {k.y, k.x}} {
				if n, isC := constInt(pr[1]); isC && n == want && lastField(pr[0]) == x.fType && x.sameVal(p, x.subjectOf(p, pr[0], last), subj, last) {
					return true
				}
			}
		}
		return false
	}
	isNow := func(p *Path, v ssa.Value, last int) bool {
		d := p.Deref(v, last)
		if call, ok := d.(*ssa.Call); ok && calleeID(call) == "time.Now" {
			return true
		}
		return lastField(d) == x.oTime
	}
	timeOK := func(p *Path, subj ssa.Value, last int) (issued, expires bool) {
		for _, r := range timeRels(p) {
			if !r.lt && isNow(p, r.x, last) && lastField(p.Deref(r.y, last)) == x.fIssued && x.sameVal(p, x.subjectOf(p, r.y, last), subj, last) {
				issued = true
			}
			if r.lt && lastField(p.Deref(r.x, last)) == x.fIssued && isNow(p, r.y, last) && x.sameVal(p, x.subjectOf(p, r.x, last), subj, last) {
				issued = true // strictly after issuance: stronger (R2 will object to the rejection of now == IssuedAt)
			}
			if r.lt && isNow(p, r.x, last) && lastField(p.Deref(r.y, last)) == x.fExp && x.sameVal(p, x.subjectOf(p, r.y, last), subj, last) {
				expires = true
			}
		}
		return
	}
	ok := walkAll(c, "C04.R1", fn, func(p *Path) {
		last := len(p.Blocks) - 1
		if isSuccess(p) {
			succ++
			var vps []pathCall
			for _, pc := range callsOnPath(p) {
				if calleeID(pc.call) == vp {
					vps = append(vps, pc)
				}
			}
			if len(vps) != 2 {
				fs1.add("two-links", fmt.Sprintf("VerifyLeaf succeeds after %d VerifyParent calls (leaf->intermediate and intermediate->root required)", len(vps)), p.Exit(), p)
				return
			}
			for _, pc := range vps {
				if p.Nilness(pc.call, last) != isNil {
					fs1.add("two-links", "VerifyLeaf succeeds although a VerifyParent call was not found to return nil", p.Exit(), p)
				}
			}
			I := p.Deref(vps[0].call.Call.Args[1], vps[0].at)
			R := p.Deref(vps[1].call.Call.Args[1], vps[1].at)
			if !x.sameVal(p, vps[0].call.Call.Args[0], L, last) || !x.sameVal(p, vps[1].call.Call.Args[0], I, last) {
				fs1.add("two-links", "the VerifyParent calls do not chain leaf -> intermediate -> root", p.Exit(), p)
			}
			if !typeIs(p, L, x.leafC, last) {
				fs1.add("leaf-type", "VerifyLeaf succeeds without the certificate having been found of type Leaf", p.Exit(), p)
			}
			if !typeIs(p, I, x.interC, last) {
				fs1.add("intermediate-type", "VerifyLeaf succeeds without the parent having been found of type Intermediate", p.Exit(), p)
			}
			if !typeIs(p, R, x.rootC, last) {
				fs1.add("root-type", "VerifyLeaf succeeds without the anchor having been found of type Root", p.Exit(), p)
			}
			for _, s := range []struct {
				v    ssa.Value
				what string
			}{{L, "leaf"}, {I, "intermediate"}, {R, "root"}} {
				is, ex := timeOK(p, s.v, last)
				if !is {
					fs1.add(s.what+"-not-before", "VerifyLeaf succeeds on a path that does not require now >= "+s.what+".IssuedAt", p.Exit(), p)
				}
				if !ex {
					fs1.add(s.what+"-expiry", "VerifyLeaf succeeds on a path that does not require now < "+s.what+".ExpiresAt (an expired certificate, or one at the instant of expiry, is accepted)", p.Exit(), p)
				}
			}
			// name
			nameOK := false
			for _, pc := range callsOnPath(p) {
				switch calleeID(pc.call) {
				case isZeroName:
					if v, known := boolAfter(p, pc.call, pc.at); known && v && lastField(p.Deref(pc.call.Call.Args[0], pc.at)) == x.oName {
						nameOK = true
					}
				case matches:
					a := pc.call.Call.Args
					if v, known := boolAfter(p, pc.call, pc.at); known && v && x.sameVal(p, a[0], L, last) && lastField(p.Deref(a[1], pc.at)) == x.oName {
						nameOK = true
					}
				}
			}
			if !nameOK {
				fs1.add("name", "VerifyLeaf succeeds on a path where a requested name was not found to match the leaf", p.Exit(), p)
			}
			// provenance of I
			provI := false
			if lastField(I) == x.oPI {
				named := false
				// the fingerprint must have been compared when the presented intermediate was chosen
				// (facts at the merge point), not merely by a later sanity check that turns a
				// mismatch into a rejection instead of falling back to the store
				at := last
				if phi, ok := vps[0].call.Call.Args[1].(*ssa.Phi); ok {
					for j := vps[0].at; j >= 0; j-- {
						if p.Blocks[j] == phi.Block() {
							at = j
							break
						}
					}
				}
				for k, v := range p.FactsAt(at) {
					if k.op == token.EQL && k.y != nil && v {
						fx, fy := lastField(p.Deref(k.x, last)), lastField(p.Deref(k.y, last))
						if (fx == x.fParent && fy == x.fFP) || (fx == x.fFP && fy == x.fParent) {
							named = true
						}
					}
				}
				provI = named && p.Nilness(I, last) == nonNil
			}
			if ex, ok := I.(*ssa.Extract); ok && ex.Index == 0 {
				if lk, ok := ex.Tuple.(*ssa.Lookup); ok && lastField(lk.X) == x.fCerts && lastField(p.Deref(lk.Index, last)) == x.fParent && x.sameVal(p, x.subjectOf(p, lk.Index, last), L, last) {
					if okv := extractIdx(lk, 1); okv != nil {
						if v, known := p.Holds(okv, last); known && v {
							provI = true
						}
					}
				}
			}
			if !provI {
				fs1.add("intermediate-source", "the intermediate used is neither the presented one whose fingerprint the leaf names nor the stored certificate under leaf.Parent", p.Exit(), p)
			}
			provR := false
			if ex, ok := R.(*ssa.Extract); ok && ex.Index == 0 {
				if lk, ok := ex.Tuple.(*ssa.Lookup); ok && lastField(lk.X) == x.fCerts && lastField(p.Deref(lk.Index, last)) == x.fParent && x.sameVal(p, x.subjectOf(p, lk.Index, last), I, last) {
					if okv := extractIdx(lk, 1); okv != nil {
						if v, known := p.Holds(okv, last); known && v {
							provR = true
						}
					}
				}
			}
			if !provR {
				fs1.add("root-source", "the trust anchor is not taken from the store under intermediate.Parent (a presented certificate must never be the anchor)", p.Exit(), p)
			}
			return
		}
		// failure path: the deciding branch must be the complement of an obligation
		if p.Returns() == nil {
			return
		}
		fails++
		li := -1
		for i := len(p.Blocks) - 2; i >= 0; i-- {
			if isIf, _ := p.Took(i); isIf {
				li = i
				break
			}
		}
		if li < 0 {
			fs2.add("rejects", "VerifyLeaf fails unconditionally", p.Exit(), p)
			return
		}
		b := p.Blocks[li]
		cond := b.Instrs[len(b.Instrs)-1].(*ssa.If).Cond
		_, took := p.Took(li)
		if !x.isComplement(p, cond, took, li) {
			fs2.add("rejects", "a failing return of VerifyLeaf is decided by a test that is not the complement of a validity condition (type, name, [IssuedAt, ExpiresAt), known parent, fingerprint, VerifyParent): a valid chain could be rejected", p.Exit(), p)
		}
	})
	if ok {
		fs1.report(c, "C04.R1", name, []string{"two-links", "leaf-type", "intermediate-type", "root-type", "leaf-not-before", "leaf-expiry", "intermediate-not-before", "intermediate-expiry", "root-not-before", "root-expiry", "name", "intermediate-source", "root-source"}, P.Pos(fn.Pos()), fmt.Sprintf("holds on all %d success paths", succ))
		fs2.report(c, "C04.R2", name, []string{"rejects"}, P.Pos(fn.Pos()), fmt.Sprintf("all %d failing paths are decided by the complement of a validity condition", fails))
		c.Floor("C04.R1", "success paths of Store.VerifyLeaf", succ, 2)
		c.Floor("C04.R2", "failing paths of Store.VerifyLeaf", fails, 10)
	}
}

func extractIdx(t ssa.Value, k int) ssa.Value {
	for _, r := range *t.Referrers() {
		if e, ok := r.(*ssa.Extract); ok && e.Index == k {
			return e
		}
	}
	return nil
}

// isComplement: cond having value took (true edge?) is a legitimate reason to reject.
func (x *c04ctx) isComplement(p *Path, cond ssa.Value, took bool, at int) bool {
	key, pol := normCond(cond)
	val := took == pol // the atom key holds with value val
	switch key.op {
	case token.EQL:
		if key.y == nil {
			// error non-nil (VerifyParent, VerifyLeafFormat)
			if call, _ := fromCall(p.Deref(key.x, at)); call != nil && !val {
				id := calleeID(call)
				return id == hopID("certs", "", "VerifyParent") || id == hopID("certs", "", "VerifyLeafFormat")
			}
			return false
		}
		// type test false, fingerprint equality false
		for _, pr := range [][2]ssa.Value{{key.x, key.y}, {key.y, key.x}} {
			if _, isC := constInt(pr[1]); isC && lastField(p.Deref(pr[0], at)) == x.fType && !val {
				return true
			}
		}
		fx, fy := lastField(p.Deref(key.x, at)), lastField(p.Deref(key.y, at))
		if ((fx == x.fParent && fy == x.fFP) || (fx == x.fFP && fy == x.fParent)) && !val {
			return true
		}
	case token.ILLEGAL:
		// comma-ok of the store lookup false
		if ex, ok := key.x.(*ssa.Extract); ok && ex.Index == 1 {
			if lk, ok := ex.Tuple.(*ssa.Lookup); ok && lastField(lk.X) == x.fCerts && !val {
				return true
			}
		}
		if call, ok := key.x.(*ssa.Call); ok {
			args := callArgs(&call.Call)
			switch calleeID(call) {
			case hopID("certs", "Certificate", "MatchesName"):
				return !val
			case "(time.Time).Before":
				if len(args) == 2 {
					f := lastField(p.Deref(args[1], at))
					return (f == x.fIssued && val) || (f == x.fExp && !val)
				}
			case "(time.Time).After":
				// now.After(ExpiresAt) true: strictly past expiry (a subset of the invalid times)
				if len(args) == 2 {
					f0, f1 := lastField(p.Deref(args[0], at)), lastField(p.Deref(args[1], at))
					return (f1 == x.fExp && val) || (f0 == x.fIssued && val)
				}
			case hopID("keys", "", "VerifySignature"), "crypto/ed25519.Verify":
				return !val
			default:
				// a predicate helper around one time comparison (expired(c, now), notYetValid(c, now), ...)
				for _, r := range helperTimeRels(call, val) {
					fy := lastField(p.Deref(r.y, at))
					if (r.lt && fy == x.fIssued) || (!r.lt && fy == x.fExp) {
						return true // now < IssuedAt, or now >= ExpiresAt
					}
				}
			}
		}
	}
	return false
}

func (x *c04ctx) verifyParent() {
	c, P := x.c, x.c.P
	fn := P.Func("certs", "VerifyParent")
	if fn == nil {
		c.Undecided("C04.R3", "certs.VerifyParent", "function not found")
		return
	}
	name := FuncName(fn)
	c.Analysed(name)
	child, parent := ssa.Value(fn.Params[0]), ssa.Value(fn.Params[1])
	fs := newFailSet()
	succ := 0
	sigID := hopID("keys", "", "VerifySignature")
	typeOf := func(p *Path, subj ssa.Value, last int) (int64, bool) {
		for k, v := range p.FactsAt(last) {
			if k.op != token.EQL || k.y == nil || !v {
				continue
			}
			for _, pr := range [][2]ssa.Value{{k.x, k.y}, {k.y, k.x}} {
				if n, isC := constInt(pr[1]); isC && lastField(pr[0]) == x.fType {
					if r, _ := accessPath(pr[0]); lookThrough(r) == subj || lookThrough(p.Resolve(lookThrough(r), last)) == subj {
						return n, true
					}
				}
			}
		}
		return 0, false
	}
	ok := walkAll(c, "C04.R3", fn, func(p *Path) {
		if !isSuccess(p) {
			return
		}
		succ++
		last := len(p.Blocks) - 1
		ct, ok1 := typeOf(p, child, last)
		pt, ok2 := typeOf(p, parent, last)
		pair := ok1 && ok2 && ((ct == x.leafC && pt == x.interC) || (ct == x.interC && pt == x.rootC) || (ct == x.rootC && pt == x.rootC))
		if !pair {
			fs.add("type-pairing", "VerifyParent accepts a (child, parent) type combination other than Leaf/Intermediate, Intermediate/Root, Root/Root", p.Exit(), p)
		}
		// fingerprint link for non-roots
		if ok1 && ct != x.rootC {
			link := false
			for k, v := range p.FactsAt(last) {
				if k.op == token.EQL && k.y != nil && v {
					fx, fy := lastField(k.x), lastField(k.y)
					if (fx == x.fParent && fy == x.fFP) || (fx == x.fFP && fy == x.fParent) {
						link = true
					}
				}
			}
			if !link {
				fs.add("fingerprint-link", "VerifyParent accepts a non-root child whose Parent field was not found equal to the parent's fingerprint", p.Exit(), p)
			}
		}
		// signature
		sig := false
		for _, pc := range callsOnPath(p) {
			if id := calleeID(pc.call); id != sigID && id != "crypto/ed25519.Verify" {
				continue
			}
			v, known := boolAfter(p, pc.call, pc.at)
			if !(known && v) {
				continue
			}
			a := pc.call.Call.Args
			okKey := hasField(a[0], x.fPub) && func() bool { r, _ := accessPath(a[0]); return lookThrough(r) == parent }()
			okSig := hasField(a[2], x.fSig) && func() bool { r, _ := accessPath(a[2]); return lookThrough(r) == child }()
			// message = child.raw.Bytes()[:child.raw.Len()-64]
			okMsg := false
			if sl, ok := strip(a[1]).(*ssa.Slice); ok && sl.Low == nil && sl.High != nil {
				if bc, _ := fromCall(sl.X); bc != nil && calleeID(bc) == "(bytes.Buffer).Bytes" && hasField(bc.Call.Args[0], x.fRaw) {
					if sub, ok := p.Deref(sl.High, pc.at).(*ssa.BinOp); ok && sub.Op == token.SUB {
						if n, isC := constInt(sub.Y); isC && n == 64 {
							if lc, _ := fromCall(sub.X); lc != nil && calleeID(lc) == "(bytes.Buffer).Len" && hasField(lc.Call.Args[0], x.fRaw) {
								okMsg = true
							}
						}
					}
				}
			}
			if okKey && okSig && okMsg {
				sig = true
			} else {
				fs.add("signature", "VerifySignature is not applied to (parent.PublicKey, child.raw without its last 64 bytes, &child.Signature)", pc.call, p)
			}
		}
		if !sig {
			fs.add("signature", "VerifyParent succeeds on a path where the signature was not found valid", p.Exit(), p)
		}
	})
	if ok {
		fs.report(c, "C04.R3", name, []string{"type-pairing", "fingerprint-link", "signature"}, P.Pos(fn.Pos()), fmt.Sprintf("holds on all %d success paths", succ))
		c.Floor("C04.R3", "success paths of VerifyParent", succ, 3)
	}
	// who writes raw / Fingerprint
	allowed := map[string]bool{"certs.(*Certificate).ReadFrom": true, "certs.issue": true, "certs.selfSign": true}
	for _, f := range []*types.Var{x.fRaw, x.fFP} {
		n := 0
		for _, fnc := range P.ModuleFuncs() {
			eachInstr(fnc, func(ins ssa.Instruction) {
				fa, ok := ins.(*ssa.FieldAddr)
				if !ok || fieldOf(fa.X.Type(), fa.Field) != f {
					return
				}
				mayWrite := false
				for _, r := range *fa.Referrers() {
					switch y := r.(type) {
					case *ssa.Store:
						if y.Addr == ssa.Value(fa) {
							mayWrite = true
						}
					case *ssa.Slice:
						// x.Fingerprint[:0] handed to a writer (h.Sum), raw passed by address
						for _, rr := range *y.Referrers() {
							if call, ok := rr.(*ssa.Call); ok && (calleeID(call) == "(hash.Hash).Sum" || calleeFunc(&call.Call) != nil && calleeFunc(&call.Call).Name() == "Read") {
								mayWrite = true
							}
							if call, ok := rr.(*ssa.Call); ok {
								if b, isB := call.Call.Value.(*ssa.Builtin); isB && b.Name() == "copy" && call.Call.Args[0] == ssa.Value(y) {
									mayWrite = true
								}
							}
						}
					case *ssa.Call:
						if f == x.fRaw {
							if fnn := calleeFunc(&y.Call); fnn != nil {
								switch fnn.Name() {
								case "Write", "WriteByte", "WriteString", "Reset", "ReadFrom", "Truncate", "Grow":
									mayWrite = true
								}
							}
						}
					case *ssa.MakeInterface:
						if f == x.fRaw {
							mayWrite = true // passed as io.Writer
						}
					}
				}
				if mayWrite {
					n++
					c.Check(allowed[FuncName(fnc)], "C04.R3", "write:Certificate."+f.Name()+"@"+FuncName(fnc), P.InstrPos(ins), "written while parsing / issuing",
						"Certificate."+f.Name()+" (the bytes the signature and the fingerprint are computed over / the fingerprint itself) is written outside ReadFrom / issue / selfSign")
				}
			})
		}
		c.Floor("C04.R3", "writers of Certificate."+f.Name(), n, 2)
	}
}

func (x *c04ctx) names() {
	c, P := x.c, x.c.P
	if fn := P.Func("certs", "(*Certificate).MatchesName"); fn == nil {
		c.Undecided("C04.R4", "certs.(*Certificate).MatchesName", "function not found")
	} else {
		name := FuncName(fn)
		c.Analysed(name)
		fLabel := P.Field("certs", "Name", "Label")
		fNType := P.Field("certs", "Name", "Type")
		fs := newFailSet()
		trues := 0
		ok := walkAll(c, "C04.R4", fn, func(p *Path) {
			r := p.Returns()
			if r == nil {
				return
			}
			last := len(p.Blocks) - 1
			if v, isC := constBool(p.Resolve(r.Results[0], last)); isC && !v {
				return
			}
			trues++
			isLeaf, labelEq, typeEq := false, false, false
			for k, v := range p.FactsAt(last) {
				if k.op == token.EQL && k.y != nil && v {
					for _, pr := range [][2]ssa.Value{{k.x, k.y}, {k.y, k.x}} {
						if n, isC := constInt(pr[1]); isC && n == x.leafC && lastField(pr[0]) == x.fType {
							isLeaf = true
						}
					}
					if lastField(p.Deref(k.x, last)) == fNType && lastField(p.Deref(k.y, last)) == fNType {
						// one side the block's, the other the parameter's
						rx, _ := accessPath(p.Deref(k.x, last))
						ry, _ := accessPath(p.Deref(k.y, last))
						if (paramIndex(fn, rx) == 1) != (paramIndex(fn, ry) == 1) {
							typeEq = true
						}
					}
				}
			}
			for _, pc := range callsOnPath(p) {
				if id := calleeID(pc.call); id == "bytes.Equal" || id == "crypto/subtle.ConstantTimeCompare" {
					a := pc.call.Call.Args
					if v, known := boolAfter(p, pc.call, pc.at); known && v && lastField(p.Deref(a[0], pc.at)) == fLabel && lastField(p.Deref(a[1], pc.at)) == fLabel {
						r0, _ := accessPath(p.Deref(a[0], pc.at))
						r1, _ := accessPath(p.Deref(a[1], pc.at))
						if (paramIndex(fn, r0) == 1) != (paramIndex(fn, r1) == 1) {
							labelEq = true
						}
					}
				}
			}
			if !isLeaf {
				fs.add("leaf-only", "MatchesName can return true for a certificate that was not found to be a Leaf", p.Exit(), p)
			}
			if !labelEq || !typeEq {
				fs.add("exact-name", "MatchesName can return true without both the label and the type of a name block having been found equal to the requested name", p.Exit(), p)
			}
		})
		if ok {
			fs.report(c, "C04.R4", name, []string{"leaf-only", "exact-name"}, P.Pos(fn.Pos()), fmt.Sprintf("%d true-returning path(s)", trues))
			c.Floor("C04.R4", "true-returning paths of MatchesName", trues, 1)
		}
	}
	if fn := P.Func("certs", "Name.IsZero"); fn == nil {
		c.Undecided("C04.R4", "certs.Name.IsZero", "function not found")
	} else {
		nameF := FuncName(fn)
		c.Analysed(nameF)
		fLabel := P.Field("certs", "Name", "Label")
		fNType := P.Field("certs", "Name", "Type")
		fs := newFailSet()
		trues := 0
		ok := walkAll(c, "C04.R4", fn, func(p *Path) {
			r := p.Returns()
			if r == nil {
				return
			}
			last := len(p.Blocks) - 1
			rv := p.Resolve(r.Results[0], last)
			if v, isC := constBool(rv); isC && !v {
				return
			}
			trues++
			labelNil, typeZero := false, false
			check := func(k atomKey, v bool) {
				if k.op == token.EQL && k.y == nil && v && lastField(k.x) == fLabel {
					labelNil = true
				}
				if k.op == token.EQL && k.y != nil && v {
					for _, pr := range [][2]ssa.Value{{k.x, k.y}, {k.y, k.x}} {
						if n, isC := constInt(pr[1]); isC && n == 0 && lastField(pr[0]) == fNType {
							typeZero = true
						}
					}
				}
			}
			for k, v := range p.FactsAt(last) {
				check(k, v)
			}
			// the returned value itself may be the last conjunct
			if _, isC := constBool(rv); !isC {
				k, pol := normCond(rv)
				check(k, pol)
			}
			if !labelNil {
				fs.add("zero-value", "Name.IsZero can return true for a name whose label is not nil (an explicitly empty name would count as 'no name requested' and skip the name check)", p.Exit(), p)
			}
			if !typeZero {
				fs.add("zero-value", "Name.IsZero can return true for a name whose type is not 0", p.Exit(), p)
			}
		})
		if ok {
			fs.report(c, "C04.R4", nameF, []string{"zero-value"}, P.Pos(fn.Pos()), "true only for the nil-label, type-0 value")
			c.Floor("C04.R4", "true-returning paths of Name.IsZero", trues, 1)
		}
	}
	// VerifyLeafFormat and authkeys.VerifyLeaf
	for _, spec := range []struct{ rel, fn string }{{"certs", "VerifyLeafFormat"}, {"authkeys", "(*SyncAuthKeySet).VerifyLeaf"}} {
		fn := P.Func(spec.rel, spec.fn)
		if fn == nil {
			c.Undecided("C04.R4", spec.rel+"."+spec.fn, "function not found")
			continue
		}
		nameF := FuncName(fn)
		c.Analysed(nameF)
		fs := newFailSet()
		succ := 0
		ok := walkAll(c, "C04.R4", fn, func(p *Path) {
			if !isSuccess(p) {
				return
			}
			succ++
			last := len(p.Blocks) - 1
			for _, sc := range swallowedErrors(p, nil) {
				fs.add("fail-closed", nameF+" succeeds although "+describeCall(P, sc)+" failed", p.Exit(), p)
			}
			if spec.rel == "certs" {
				isLeaf, nameOK := false, false
				for k, v := range p.FactsAt(last) {
					if k.op == token.EQL && k.y != nil && v {
						for _, pr := range [][2]ssa.Value{{k.x, k.y}, {k.y, k.x}} {
							if n, isC := constInt(pr[1]); isC && n == x.leafC && lastField(pr[0]) == x.fType {
								isLeaf = true
							}
						}
					}
				}
				for _, pc := range callsOnPath(p) {
					switch calleeID(pc.call) {
					case hopID("certs", "Name", "IsZero"), hopID("certs", "Certificate", "MatchesName"):
						if v, known := boolAfter(p, pc.call, pc.at); known && v {
							nameOK = true
						}
					}
				}
				if !isLeaf || !nameOK {
					fs.add("fail-closed", "VerifyLeafFormat succeeds without the certificate being a Leaf that matches the requested name (if any)", p.Exit(), p)
				}
			} else {
				// membership: comma-ok lookup on keySet with leaf.PublicKey true, and the format check called
				member, format := false, false
				p.ForEach(func(i int, ins ssa.Instruction) bool {
					if ex, ok := ins.(*ssa.Extract); ok && ex.Index == 1 {
						if lk, ok := ex.Tuple.(*ssa.Lookup); ok && lastField(p.Deref(lk.Index, i)) == x.fPub {
							if v, known := p.Holds(ex, last); known && v {
								member = true
							}
						}
					}
					if call, ok := ins.(*ssa.Call); ok && calleeID(call) == hopID("certs", "", "VerifyLeafFormat") {
						format = true
					}
					return true
				})
				if !member {
					fs.add("fail-closed", "authkeys.VerifyLeaf succeeds without the leaf's public key having been found in the key set", p.Exit(), p)
				}
				if !format {
					fs.add("fail-closed", "authkeys.VerifyLeaf succeeds without the format check", p.Exit(), p)
				}
			}
		})
		if ok {
			fs.report(c, "C04.R4", nameF, []string{"fail-closed"}, P.Pos(fn.Pos()), fmt.Sprintf("holds on all %d success paths", succ))
		}
	}
}

func (x *c04ctx) issuance() {
	c, P := x.c, x.c.P
	fn := P.Func("certs", "issue")
	if fn == nil {
		c.Undecided("C04.R5", "certs.issue", "function not found")
		return
	}
	name := FuncName(fn)
	c.Analysed(name)
	fPriv := P.Field("certs", "Certificate", "privateKey")
	// parameters by type, not position: the *Certificate is the parent, the time.Time the issuing time
	var parent, issuedAt ssa.Value
	for _, par := range fn.Params {
		ts := types.TypeString(par.Type(), nil)
		switch {
		case strings.HasSuffix(ts, "certs.Certificate") && strings.HasPrefix(ts, "*") && parent == nil:
			parent = par
		case ts == "time.Time" && issuedAt == nil:
			issuedAt = par
		}
	}
	if parent == nil || issuedAt == nil {
		c.Undecided("C04.R5", name, "issue's parent (*Certificate) and issuing time (time.Time) parameters were not identified")
		return
	}
	fs := newFailSet()
	succ := 0
	ok := walkAll(c, "C04.R5", fn, func(p *Path) {
		if !isSuccess(p) {
			return
		}
		succ++
		last := len(p.Blocks) - 1
		for _, sc := range swallowedErrors(p, nil) {
			fs.add("errors", "issue succeeds although "+describeCall(P, sc)+" failed", p.Exit(), p)
		}
		keyOK, fpOK, notBefore, notAfter := false, false, false, false
		for k, v := range p.FactsAt(last) {
			if k.op == token.EQL && k.y == nil && !v && lastField(k.x) == fPriv {
				keyOK = true
			}
			if k.op == token.EQL && k.y != nil && !v && (lastField(k.x) == x.fFP || lastField(k.y) == x.fFP) {
				fpOK = true
			}
		}
		isIssuedAt := func(v ssa.Value) bool {
			return lookThrough(p.Deref(v, last)) == issuedAt || p.Deref(v, last) == issuedAt
		}
		ofParent := func(v ssa.Value, f *types.Var) bool {
			d := p.Deref(v, last)
			r, _ := accessPath(d)
			return lastField(d) == f && lookThrough(r) == parent
		}
		for _, r := range timeRels(p) {
			if !r.lt && isIssuedAt(r.x) && ofParent(r.y, x.fIssued) {
				notBefore = true
			}
			if r.lt && isIssuedAt(r.x) && ofParent(r.y, x.fExp) {
				notAfter = true
			}
		}
		if !keyOK {
			fs.add("parent-key", "issue succeeds without the parent's private key having been found present", p.Exit(), p)
		}
		if !fpOK {
			fs.add("parent-fingerprint", "issue succeeds without the parent's fingerprint having been found set", p.Exit(), p)
		}
		if !notBefore || !notAfter {
			fs.add("inside-parent", "issue succeeds on a path that does not require parent.IssuedAt <= issuedAt < parent.ExpiresAt (the child would not verify at its own issuance time)", p.Exit(), p)
		}
		// expiry clamp: ExpiresAt stored is the phi of (issuedAt+duration, parent.ExpiresAt) under After
		clamp := false
		for _, r := range timeRels(p) {
			// either expiresAt <= parent.ExpiresAt known, or it was replaced by parent.ExpiresAt
			if !r.lt && ofParent(r.x, x.fExp) { // parent.Exp >= expiresAt   (¬(parent.Exp < expiresAt))
				clamp = true
			}
			if r.lt && ofParent(r.x, x.fExp) { // parent.Exp < expiresAt: then the stored value must be parent.Exp
				p.ForEach(func(i int, ins ssa.Instruction) bool {
					if st, ok := ins.(*ssa.Store); ok && endsInField(st.Addr, x.fExp, false) && ofParent(st.Val, x.fExp) {
						clamp = true
					}
					return true
				})
			}
		}
		if !clamp {
			fs.add("clamp", "issue does not clamp the child's expiry to the parent's", p.Exit(), p)
		}
		// signs b[:len(b)-SignatureLen] of its own serialisation
		signed := false
		for _, pc := range callsOnPath(p) {
			if f := calleeFunc(&pc.call.Call); f != nil && f.Name() == "Sign" {
				a := callArgs(&pc.call.Call)
				if len(a) >= 3 {
					if sl, ok := strip(a[2]).(*ssa.Slice); ok && sl.Low == nil && sl.High != nil {
						if sub, ok := p.Deref(sl.High, pc.at).(*ssa.BinOp); ok && sub.Op == token.SUB {
							if n, isC := constInt(sub.Y); isC && n == 64 {
								if lc, ok := sub.X.(*ssa.Call); ok {
									if b, isB := lc.Call.Value.(*ssa.Builtin); isB && b.Name() == "len" && lc.Call.Args[0] == sl.X {
										if bc, _ := fromCall(sl.X); bc != nil && calleeID(bc) == "(bytes.Buffer).Bytes" {
											signed = true
										}
									}
								}
							}
						}
					}
				}
			}
		}
		if !signed {
			fs.add("signed-range", "issue does not sign exactly its serialisation without the trailing signature", p.Exit(), p)
		}
	})
	if ok {
		fs.report(c, "C04.R5", name, []string{"errors", "parent-key", "parent-fingerprint", "inside-parent", "clamp", "signed-range"}, P.Pos(fn.Pos()), fmt.Sprintf("holds on all %d success paths", succ))
		c.Floor("C04.R5", "success paths of issue", succ, 1)
	}
	// entry points require the right parent type
	for _, spec := range []struct {
		fn   string
		want int64
	}{{"IssueLeafAt", x.interC}, {"IssueIntermediate", x.rootC}} {
		f := P.Func("certs", spec.fn)
		if f == nil {
			c.Undecided("C04.R5", "certs."+spec.fn, "function not found")
			continue
		}
		mf := ComputeMustFacts(f)
		for _, cs := range callSitesIn(f, false, hopID("certs", "", "issue")) {
			okv := false
			for k, v := range mf.At(cs) {
				if k.op == token.EQL && k.y != nil && v {
					for _, pr := range [][2]ssa.Value{{k.x, k.y}, {k.y, k.x}} {
						if n, isC := constInt(pr[1]); isC && n == spec.want && lastField(pr[0]) == x.fType {
							okv = true
						}
					}
				}
			}
			c.Check(okv, "C04.R5", FuncName(f)+"#parent-type", P.InstrPos(cs), "issue reached only with the right parent type", spec.fn+" issues without requiring the right parent type (the chain would not verify)")
		}
	}
}

// c04R6: "signed by" is computed, every time, over these bytes. VerifyParent trusts keys.VerifySignature for
// the one cryptographic clause of the chain. Its answer is true only on a path where ed25519.Verify was
// called with this call's key, this call's data and this call's signature and returned true: no answer
// comes from a table of earlier verifications (a cache keyed by key and signature would accept any other
// byte string that carries a signature seen before).
func c04R6(c *Ctx) {
	P := c.P
	const rule = "C04.R6"
	c.Rule(rule, "the signature test is computed every time over these bytes: keys.VerifySignature returns true only on a path where ed25519.Verify, applied to this call's key, data and signature, returned true (no remembered verdicts) (E1 decision table)")
	fn := P.Func("keys", "VerifySignature")
	if fn == nil || len(fn.Params) != 3 {
		// no wrapper: the chain verifier applies ed25519.Verify itself (its arguments and verdict are judged by C04.R3)
		if vp := P.Func("certs", "VerifyParent"); vp != nil && len(callSitesIn(vp, false, "crypto/ed25519.Verify")) > 0 {
			c.OK(rule, "keys.VerifySignature#computed", "-", "no wrapper: VerifyParent calls ed25519.Verify directly (see C04.R3)")
			return
		}
		c.Undecided(rule, "keys.VerifySignature", "function not found")
		return
	}
	name := FuncName(fn)
	c.Analysed(name)
	fs := newFailSet()
	trues := 0
	ok := walkAll(c, rule, fn, func(p *Path) {
		r := p.Returns()
		if r == nil || len(r.Results) != 1 {
			return
		}
		last := len(p.Blocks) - 1
		if v, isC := pathBool(p, r.Results[0], last); isC && !v {
			return
		}
		trues++
		verified := false
		p.throughCalls = true
		rv := p.Resolve(r.Results[0], last)
		p.throughCalls = false
		for _, pc := range callsOnPath(p) {
			if calleeID(pc.call) != "crypto/ed25519.Verify" || len(pc.call.Call.Args) != 3 {
				continue
			}
			// arguments derive from the three parameters, in order
			okArgs := true
			for k, a := range pc.call.Call.Args {
				_, leaves := provenance(p, a, pc.at)
				dep := false
				for _, l := range leaves {
					if paramIndex(fn, l) == k {
						dep = true
					}
				}
				if !dep {
					okArgs = false
				}
			}
			if !okArgs {
				continue
			}
			if strip(rv) == ssa.Value(pc.call) {
				verified = true // the answer is the verdict itself
			}
			if v, known := boolOnPath(p, pc.call); known && v {
				verified = true
			}
		}
		if !verified {
			fs.add("computed", "VerifySignature can answer true on a path where ed25519.Verify was not applied to this call's key, data and signature with a true result: a verdict taken from anywhere else accepts bytes that were never signed", p.Exit(), p)
		}
	})
	if ok {
		fs.report(c, rule, name, []string{"computed"}, P.Pos(fn.Pos()), fmt.Sprintf("holds on all %d paths that may answer true", trues))
		c.Floor(rule, "paths of VerifySignature that may answer true", trues, 1)
	}
}

// c04R7: a stream decoder (a module method ReadFrom(io.Reader)) called inside a loop on a local
// receives a receiver that is fresh in every iteration: the local is allocated inside the loop, or
// a whole-value store to it precedes the call inside the loop. The decoders append to the
// receiver's slices and reuse its buffers (IDChunk.ReadFrom appends names, Certificate.ReadFrom
// resets and refills raw), so a receiver carried over from the previous iteration makes a later
// certificate of a bundle carry the names of an earlier one and makes stored copies share storage.
func c04R7(c *Ctx) {
	P := c.P
	const rule = "C04.R7"
	c.Rule(rule, "a decoder's receiver is fresh in every iteration: a module ReadFrom(io.Reader) that appends to its receiver's slices (itself or through a nested decoder), called in a loop on a local of the caller, gets a local allocated inside that loop or overwritten as a whole inside it before the call (block-cycle membership on the SSA CFG)")
	c.Decides("that certificates / names decoded one after another from a bundle or chunk do not inherit names or storage from the one decoded before")
	reach := func(from, to *ssa.BasicBlock) bool {
		seen := map[*ssa.BasicBlock]bool{}
		st := append([]*ssa.BasicBlock{}, from.Succs...)
		for len(st) > 0 {
			b := st[len(st)-1]
			st = st[:len(st)-1]
			if seen[b] {
				continue
			}
			seen[b] = true
			if b == to {
				return true
			}
			st = append(st, b.Succs...)
		}
		return false
	}
	total := 0
	for _, fn := range P.ModuleFuncs("certs", "authkeys", "authgrants") {
		for _, b := range fn.Blocks {
			for _, ins := range b.Instrs {
				call, ok := ins.(*ssa.Call)
				if !ok {
					continue
				}
				g := staticCallee(&call.Call)
				if g == nil || !InModule(g) || g.Name() != "ReadFrom" || g.Signature.Recv() == nil || len(call.Call.Args) != 2 {
					continue
				}
				al, ok := call.Call.Args[0].(*ssa.Alloc)
				if !ok {
					continue
				}
				if !reach(b, b) {
					continue // not in a loop
				}
				if !decoderAccumulates(g, 0) {
					continue // overwrites every field it sets: a reused receiver is harmless
				}
				total++
				name := FuncName(fn) + "#" + FuncName(g)
				fresh := al.Block() != nil && al.Block() != fn.Blocks[0] && reach(al.Block(), b) && reach(b, al.Block())
				if al.Block() == b {
					fresh = true
				}
				if !fresh {
					// a whole-value store to the local inside the loop that dominates the call
					for _, r := range *al.Referrers() {
						if st, ok := r.(*ssa.Store); ok && st.Addr == ssa.Value(al) && st.Block() != nil &&
							reach(st.Block(), b) && (reach(b, st.Block()) || st.Block() == b) &&
							(st.Block().Dominates(b) && (st.Block() != b || instrIndex(st) < instrIndex(call))) {
							fresh = true
						}
					}
				}
				if fresh {
					c.OK(rule, name, P.InstrPos(call), "receiver allocated or overwritten inside the loop")
				} else {
					c.Fail(rule, name, P.InstrPos(call), "the decoder's receiver is carried over from the previous iteration: the decoders append to and reuse the receiver's storage, so a later value inherits names from, and shares bytes with, the one decoded before")
				}
			}
		}
	}
	c.Floor(rule, "accumulating decoder calls inside loops", total, 1)
}

// decoderAccumulates: g appends to a slice field of its receiver (the result depends on what the
// receiver held before the call), or hands a field of its receiver to a module ReadFrom that does.
func decoderAccumulates(g *ssa.Function, depth int) bool {
	if g == nil || g.Blocks == nil || len(g.Params) == 0 || depth > 4 {
		return false
	}
	rootedAtRecv := func(v ssa.Value) bool {
		for i := 0; i < 6; i++ {
			switch x := v.(type) {
			case *ssa.FieldAddr:
				v = x.X
				continue
			case *ssa.Parameter:
				return x == g.Params[0]
			}
			return false
		}
		return false
	}
	for _, b := range g.Blocks {
		for _, ins := range b.Instrs {
			call, ok := ins.(*ssa.Call)
			if !ok {
				continue
			}
			if bi, isB := call.Call.Value.(*ssa.Builtin); isB {
				if bi.Name() == "append" && len(call.Call.Args) > 0 {
					if ld, ok := call.Call.Args[0].(*ssa.UnOp); ok && ld.Op == token.MUL {
						if fa, ok := ld.X.(*ssa.FieldAddr); ok && rootedAtRecv(fa) {
							return true
						}
					}
				}
				continue
			}
			if h := staticCallee(&call.Call); h != nil && InModule(h) && h.Name() == "ReadFrom" && len(call.Call.Args) > 0 {
				if fa, ok := call.Call.Args[0].(*ssa.FieldAddr); ok && rootedAtRecv(fa) && decoderAccumulates(h, depth+1) {
					return true
				}
			}
		}
	}
	return false
}
