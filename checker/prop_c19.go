package main

// C19 — Server is stateless before a valid cookie and silent in hidden mode.

import (
	"fmt"
	"go/ast"
	"go/token"
	"go/types"
	"sort"
	"strings"

	"golang.org/x/tools/go/ssa"
)

func init() { register("C19", checkC19) }

// armFacts: does the block of ins lie in the switch arm mt == val of readPacket?
func inArm(mf *MustFacts, ins ssa.Instruction, val int64) bool {
	for k, v := range mf.At(ins) {
		if k.op == token.EQL && k.y != nil && v {
			if n, ok := constInt(k.y); ok && n == val {
				if _, isC := k.x.(*ssa.Const); !isC {
					return true
				}
			}
			if n, ok := constInt(k.x); ok && n == val {
				if _, isC := k.y.(*ssa.Const); !isC {
					return true
				}
			}
		}
	}
	return false
}

func checkC19(c *Ctx) {
	P := c.P
	c.Rule("C19.R1", "ClientHello leaves no trace: nothing reachable from the ClientHello arm of readPacket writes a field of Server (handshake table, session table, queues); positive control: the ClientAck arm does reach the table insert (E4 reachability + who-may-write)")
	c.Rule("C19.R2", "state only after cookie and MAC: setHandshakeState is called only from readPacket, dominated by the nil edge of readPQClientAck resp. handlePQClientRequestHidden; readPQClientAck succeeds only after ReplayPQDuplexFromCookie==nil, which succeeds only after decryptCookie==nil, which succeeds only after AEAD Open==nil (E1)")
	c.Rule("C19.R3", "what the cookie is bound to: writeCookie and decryptCookie use CookieAD(marshal(hs.kem.remoteEphemeral), hs.remoteAddr) as associated data; CookieAD hashes the key, the IP (unmodified or through an injective transformation) and both port bytes; the replay fills key, address and the current cookieKey (under cookieLock) from this datagram before decrypting; cookieKey is written only by init and the rotation goroutine (E1 + def-use)")
	c.Rule("C19.R4", "hidden means silent: every datagram write, table insert and handshake finish in readPacket is either under !s.config.IsHidden or in the hidden-request arm after handlePQClientRequestHidden returned nil; that succeeds only after a nil readPQClientRequestHidden with exact length, which requires the timestamp window tests (E1)")
	c.Decides("absence of pre-cookie state, ordering of state creation after cookie+MAC, inputs of the cookie binding, silence of discoverable arms in hidden mode")
	c.NotDecided("replays inside the hidden-mode timestamp window; timing side channels; strength of SANSE/SHA-3")

	rp := P.Func("transport", "(*Server).readPacket")
	if rp == nil {
		c.Undecided("C19.R1", "transport.(*Server).readPacket", "function not found")
		return
	}
	mtHello := pkgConst(P, "transport", "MessageTypeClientHello")
	mtAck := pkgConst(P, "transport", "MessageTypeClientAck")
	mtAuth := pkgConst(P, "transport", "MessageTypeClientAuth")
	mtHidden := pkgConst(P, "transport", "MessageTypeClientRequestHidden")
	// the dispatcher: readPacket, or the local helper of it that holds the switch on the message type
	rp = dispatcherOf(P, rp, []int64{mtHello, mtAck, mtAuth, mtHidden})
	c.Analysed(FuncName(rp))
	mf := ComputeMustFacts(rp)

	// ---- R1
	serverT := P.Pkg("transport").Pkg.Scope().Lookup("Server")
	isServerField := func(f *types.Var) bool {
		if f == nil || serverT == nil {
			return false
		}
		st, ok := serverT.Type().Underlying().(*types.Struct)
		if !ok {
			return false
		}
		for i := 0; i < st.NumFields(); i++ {
			if st.Field(i) == f {
				return true
			}
		}
		return false
	}
	// writes to Server fields per function
	serverWrites := func(f *ssa.Function) []string {
		var out []string
		eachInstr(f, func(ins ssa.Instruction) {
			switch x := ins.(type) {
			case *ssa.Store:
				_, sels := accessPath(x.Addr)
				for _, s := range sels {
					if isServerField(s.Field) {
						out = append(out, fmt.Sprintf("%s: store into Server.%s", P.InstrPos(ins), s.Field.Name()))
						break
					}
				}
			case *ssa.MapUpdate:
				if f := lastField(x.Map); isServerField(f) {
					out = append(out, fmt.Sprintf("%s: insert into Server.%s", P.InstrPos(ins), f.Name()))
				}
			case *ssa.Send:
				if f := lastField(x.Chan); isServerField(f) {
					out = append(out, fmt.Sprintf("%s: send on Server.%s", P.InstrPos(ins), f.Name()))
				}
			case *ssa.Select:
				for _, st := range x.States {
					if st.Dir == types.SendOnly {
						if f := lastField(st.Chan); isServerField(f) {
							out = append(out, fmt.Sprintf("%s: send on Server.%s", P.InstrPos(ins), f.Name()))
						}
					}
				}
			case *ssa.Call:
				if b, ok := x.Call.Value.(*ssa.Builtin); ok && (b.Name() == "delete" || b.Name() == "clear") && len(x.Call.Args) > 0 {
					if f := lastField(x.Call.Args[0]); isServerField(f) {
						out = append(out, fmt.Sprintf("%s: %s on Server.%s", P.InstrPos(ins), b.Name(), f.Name()))
					}
				}
			}
		})
		return out
	}
	armCallees := func(val int64) []*ssa.Function {
		var roots []*ssa.Function
		eachInstr(rp, func(ins ssa.Instruction) {
			if cc := callCommon(ins); cc != nil && inArm(mf, ins, val) {
				if f := staticCallee(cc); f != nil && InModule(f) {
					roots = append(roots, f)
				}
			}
		})
		return roots
	}
	reachIn := func(roots []*ssa.Function) map[*ssa.Function]*ssa.Function {
		return P.Reach(roots, func(caller, callee *ssa.Function) bool {
			return InModule(callee) && relPkg(callee) == "transport"
		})
	}
	helloRoots := armCallees(mtHello)
	helloReach := reachIn(helloRoots)
	var traces []string
	var fns []*ssa.Function
	for f := range helloReach {
		fns = append(fns, f)
	}
	sort.Slice(fns, func(i, j int) bool { return FuncName(fns[i]) < FuncName(fns[j]) })
	for _, f := range fns {
		for _, w := range serverWrites(f) {
			traces = append(traces, w+" in "+FuncName(f))
		}
	}
	// direct writes in the arm itself
	eachInstr(rp, func(ins ssa.Instruction) {
		if !inArm(mf, ins, mtHello) {
			return
		}
		switch x := ins.(type) {
		case *ssa.Store:
			_, sels := accessPath(x.Addr)
			for _, s := range sels {
				if isServerField(s.Field) {
					traces = append(traces, fmt.Sprintf("%s: store into Server.%s in the ClientHello arm", P.InstrPos(ins), s.Field.Name()))
				}
			}
		case *ssa.MapUpdate:
			if f := lastField(x.Map); isServerField(f) {
				traces = append(traces, fmt.Sprintf("%s: insert into Server.%s in the ClientHello arm", P.InstrPos(ins), f.Name()))
			}
		}
	})
	c.Check(len(traces) == 0, "C19.R1", "arm:ClientHello", P.Pos(rp.Pos()), fmt.Sprintf("%d functions reachable from the ClientHello arm write no Server field", len(helloReach)),
		"handling a ClientHello (before any cookie was presented) writes server state: per-client state for an unauthenticated, spoofable datagram", traces...)
	c.Floor("C19.R1", "functions reachable from the ClientHello arm", len(helloReach), 3)
	// positive control
	ackReach := reachIn(armCallees(mtAck))
	ctl := 0
	for f := range ackReach {
		ctl += len(serverWrites(f))
	}
	c.Floor("C19.R1", "positive control: Server-field writes reachable from the ClientAck arm", ctl, 1)

	// ---- R2 + R4 sites
	fHidden := P.Field("transport", "ServerConfig", "IsHidden")
	setHS := hopID("transport", "Server", "setHandshakeState")
	finish := hopID("transport", "Server", "finishHandshake")
	wp := hopID("transport", "Server", "writePacket")
	ackReader := hopID("transport", "Server", "readPQClientAck")
	hidReader := hopID("transport", "Server", "handlePQClientRequestHidden")
	hidInner := hopID("transport", "Server", "readPQClientRequestHidden")
	// the *HandshakeState argument of a reader call
	stateArgOf := func(call *ssa.Call) ssa.Value {
		for _, a := range call.Call.Args {
			if strings.HasSuffix(types.TypeString(a.Type(), nil), "transport.HandshakeState") && strings.HasPrefix(types.TypeString(a.Type(), nil), "*") {
				return a
			}
		}
		return nil
	}
	// path-based (helpers cut out of readPacket are inlined): per site, the conjunction over all paths through it
	type siteRes struct {
		ins                 ssa.Instruction
		id                  string
		seen                bool
		r4ok, r2ok, lenOK   bool
		hiddenArm, discover bool
		r4why               string
	}
	sites := map[ssa.Instruction]*siteRes{}
	var order []*siteRes
	P.eachOwnedInstr(rp, func(_ *ssa.Function, ins ssa.Instruction, _ func(ssa.Value) ssa.Value) {
		call, ok := ins.(*ssa.Call)
		if !ok {
			return
		}
		id := calleeID(call)
		if id != setHS && id != finish && id != wp {
			return
		}
		if sites[ins] == nil {
			sr := &siteRes{ins: ins, id: id, r4ok: true, r2ok: true, lenOK: true}
			sites[ins] = sr
			order = append(order, sr)
		}
	})
	pathFactArm := func(facts map[atomKey]bool, val int64) bool {
		for k, v := range facts {
			if k.op == token.EQL && k.y != nil && v {
				if n, ok := constInt(k.y); ok && n == val {
					if _, isC := k.x.(*ssa.Const); !isC {
						return true
					}
				}
				if n, ok := constInt(k.x); ok && n == val {
					if _, isC := k.y.(*ssa.Const); !isC {
						return true
					}
				}
			}
		}
		return false
	}
	okWalk := walkAllOpts(c, "C19.R4", rp, PathOpts{MaxVisits: 1, EmitTruncated: true, MaxPaths: 400000}, func(p *Path) {
		var lastHid, lastAck *ssa.Call
		p.ForEach(func(i int, ins ssa.Instruction) bool {
			call, ok := ins.(*ssa.Call)
			if !ok {
				return true
			}
			switch calleeID(call) {
			case ackReader:
				lastAck = call
			case hidReader:
				lastHid = call
			case hidInner:
				if !p.Inlined(ins) || lastHid == nil {
					lastHid = call // the reader called from readPacket itself (no wrapper), or seen before any wrapper
				}
			}
			sr := sites[ins]
			if sr == nil {
				return true
			}
			sr.seen = true
			facts := p.FactsAt(i)
			short := calleeFunc(&call.Call).Name()
			inHiddenArm := pathFactArm(facts, mtHidden)
			notHidden := false
			if v, known := fieldBoolFact(facts, fHidden); known && !v {
				notHidden = true
			}
			switch {
			case inHiddenArm:
				sr.hiddenArm = true
				okv := lastHid != nil
				if okv {
					ev := errResultOf(lastHid)
					okv = ev != nil && p.Nilness(ev, i) == isNil
				}
				if !okv {
					sr.r4ok = false
					sr.r4why = "in the hidden-request arm " + short + " is reachable without handlePQClientRequestHidden having returned nil: a hidden server would react to a request that did not verify"
				}
			case notHidden:
				sr.discover = true
			default:
				sr.r4ok = false
				sr.r4why = short + " is reachable in readPacket without !s.config.IsHidden and outside the verified hidden-request arm: a hidden-mode server would answer or keep state for discoverable-mode messages"
			}
			if sr.id == setHS {
				hsArg := p.Resolve(call.Call.Args[2], i)
				src, _ := fromCall(hsArg)
				okv := false
				if src != nil && (src == lastAck || src == lastHid) {
					ev := errResultOf(src)
					okv = ev != nil && p.Nilness(ev, i) == isNil
				}
				if !okv && lastHid != nil && calleeID(lastHid) == hidInner {
					// the state object that the hidden-request reader filled and accepted
					if sa := stateArgOf(lastHid); sa != nil && lookThrough(p.Resolve(sa, i)) == lookThrough(hsArg) {
						ev := errResultOf(lastHid)
						okv = ev != nil && p.Nilness(ev, i) == isNil
						src = lastHid
					}
				}
				if !okv {
					sr.r2ok = false
				}
				okLen := false
				if src != nil {
					nV := extractOf(src, 0)
					for k, v := range facts {
						if k.op == token.EQL && k.y != nil && v && nV != nil && (k.x == nV || k.y == nV) {
							okLen = true
						}
					}
				}
				if !okLen {
					sr.lenOK = false
				}
			}
			return true
		})
	})
	nSites := 0
	seen := map[string]int{}
	sort.SliceStable(order, func(a, b int) bool { return order[a].ins.Pos() < order[b].ins.Pos() })
	for _, sr := range order {
		nSites++
		short := calleeFunc(&sr.ins.(*ssa.Call).Call).Name()
		seen[short]++
		cons := fmt.Sprintf("%s#%s%d", FuncName(rp), short, seen[short])
		if !okWalk {
			continue
		}
		if !sr.seen {
			c.Undecided("C19.R4", cons, "the site is not on any enumerated path of readPacket")
			continue
		}
		detail := "discoverable arm under !s.config.IsHidden"
		if sr.hiddenArm {
			detail = "hidden arm: after a nil handlePQClientRequestHidden"
		}
		c.Check(sr.r4ok, "C19.R4", cons, P.InstrPos(sr.ins), detail, sr.r4why)
		if sr.id == setHS {
			c.Check(sr.r2ok, "C19.R2", cons, P.InstrPos(sr.ins), "state stored only for a state returned by a reader whose error is nil here",
				"handshake state is stored for a state that does not come from readPQClientAck / handlePQClientRequestHidden with a nil error (state before cookie + MAC verification)")
			c.Check(sr.lenOK, "C19.R2", cons+":exact-length", P.InstrPos(sr.ins), "n == msgLen required", "handshake state is stored without the reader's consumed length having been found equal to the datagram length")
		}
	}
	c.Floor("C19.R4", "writePacket/setHandshakeState/finishHandshake sites in readPacket", nSites, 7)
	_ = mtAuth
	// who else calls setHandshakeState / writePacket
	for _, id := range []string{setHS, wp} {
		for _, f := range P.ModuleFuncs() {
			for _, cs := range callSitesIn(f, false, id) {
				if !P.OwnedBy(f, rp) {
					live := P.Live()[f]
					c.Check(!live, "C19.R2", "call:"+calleeFunc(cs.Common()).Name()+"@"+FuncName(f), P.InstrPos(cs), "dead legacy caller",
						calleeFunc(cs.Common()).Name()+" gained a live caller outside readPacket")
				}
			}
		}
	}

	c19Chain(c)
	c19Cookie(c)
	c19HiddenReader(c)
}

// R2 chain: readPQClientAck <- ReplayPQDuplexFromCookie <- decryptCookie <- Open
func c19Chain(c *Ctx) {
	P := c.P
	type link struct {
		fn      string
		mustNil []string // callee ids whose error must be nil on success paths
	}
	links := []link{
		{"(*Server).readPQClientAck", []string{hopID("transport", "Server", "ReplayPQDuplexFromCookie")}},
		{"(*Server).ReplayPQDuplexFromCookie", []string{hopID("transport", "HandshakeState", "decryptCookie")}},
		{"(*HandshakeState).decryptCookie", []string{aeadOpenID}},
		{"(*Server).handlePQClientRequestHidden", []string{hopID("transport", "Server", "readPQClientRequestHidden")}},
	}
	for _, l := range links {
		fn := P.Func("transport", l.fn)
		if fn == nil && l.fn == "(*Server).handlePQClientRequestHidden" {
			// no wrapper: readPacket calls the hidden-request reader itself; its nil error and the
			// exact length are required at the sites of readPacket (site rule above)
			c.OK("C19.R2", "transport."+l.fn+"#chain", "-", "no wrapper around the hidden-request reader; checked at the sites in readPacket")
			continue
		}
		if fn == nil {
			c.Undecided("C19.R2", "transport."+l.fn, "function not found")
			continue
		}
		name := FuncName(fn)
		c.Analysed(name)
		fs := newFailSet()
		succ := 0
		ok := walkAll(c, "C19.R2", fn, func(p *Path) {
			if !isSuccess(p) {
				return
			}
			// a success must also return a non-nil state where the function returns one
			succ++
			last := len(p.Blocks) - 1
			for _, id := range l.mustNil {
				found := false
				for _, pc := range callsOnPath(p) {
					if calleeID(pc.call) == id {
						if ev := errResultOf(pc.call); ev != nil && p.Nilness(ev, last) == isNil {
							found = true
						}
					}
				}
				if !found {
					fs.add("chain", name+" succeeds on a path where "+id+" did not return a nil error", p.Exit(), p)
				}
			}
			for _, sc := range swallowedErrors(p, nil) {
				fs.add("chain", name+" succeeds although "+describeCall(P, sc)+" may have failed", p.Exit(), p)
			}
			if l.fn == "(*Server).handlePQClientRequestHidden" {
				// n == len(b)
				okLen := false
				for k, v := range p.FactsAt(last) {
					if k.op == token.EQL && k.y != nil && v {
						for _, s := range []ssa.Value{k.x, k.y} {
							if call, ok := s.(*ssa.Call); ok {
								if b, ok := call.Call.Value.(*ssa.Builtin); ok && b.Name() == "len" {
									okLen = true
								}
							}
						}
					}
				}
				if !okLen {
					fs.add("chain", "handlePQClientRequestHidden succeeds without requiring the consumed length to equal the datagram length", p.Exit(), p)
				}
			}
		})
		if ok {
			fs.report(c, "C19.R2", name, []string{"chain"}, P.Pos(fn.Pos()), fmt.Sprintf("holds on all %d success paths", succ))
			c.Floor("C19.R2", "success paths of "+name, succ, 1)
		}
	}
}

// injective transformations of net.IP accepted between the field and the hash
var ipInjective = map[string]bool{"(net.IP).To16": true, "(net.IP).String": true, "(net.IP).MarshalText": true}

func c19Cookie(c *Ctx) {
	P := c.P
	ad := P.Func("transport", "CookieAD")
	if ad == nil {
		c.Undecided("C19.R3", "transport.CookieAD", "function not found")
		return
	}
	name := FuncName(ad)
	c.Analysed(name)
	fIP := P.Field2("net", "UDPAddr", "IP")
	fPort := P.Field2("net", "UDPAddr", "Port")
	if fIP == nil || fPort == nil {
		c.Undecided("C19.R3", "net.UDPAddr.IP/Port", "field not found")
		return
	}
	haveKey, haveIP := false, false
	portBytes := map[int64]bool{}
	badIP := ""
	var hashV ssa.Value
	eachInstr(ad, func(ins ssa.Instruction) {
		call, ok := ins.(*ssa.Call)
		if !ok {
			return
		}
		id := calleeID(call)
		if id != "(hash.Hash).Write" && id != "(io.Writer).Write" {
			return
		}
		hashV = call.Call.Value
		arg := call.Call.Args[0]
		root, _ := accessPath(arg)
		switch {
		case paramIndex(ad, root) == 0:
			if sl, ok := strip(arg).(*ssa.Slice); ok && (sl.Low != nil || sl.High != nil) {
				return // partial key: not counted
			}
			haveKey = true
		case paramIndex(ad, root) == 1 && endsInField(arg, fIP, false):
			haveIP = true
		default:
			// IP through a call?
			if cl, _ := fromCall(strip(arg)); cl != nil {
				args := callArgs(&cl.Call)
				if len(args) >= 1 && endsInField(args[0], fIP, true) {
					if ipInjective[calleeID(cl)] {
						haveIP = true
					} else {
						badIP = fmt.Sprintf("%s: the IP reaches the hash through %s, which is not injective on addresses (distinct source addresses can share a cookie)", P.InstrPos(call), calleeID(cl))
					}
					return
				}
			}
			// port array
			if a, ok := root.(*ssa.Alloc); ok {
				for _, r := range *a.Referrers() {
					ia, ok := r.(*ssa.IndexAddr)
					if !ok {
						continue
					}
					idx, isC := constInt(ia.Index)
					if !isC {
						continue
					}
					for _, rr := range *ia.Referrers() {
						st, ok := rr.(*ssa.Store)
						if !ok {
							continue
						}
						v := st.Val
						if cv, ok := v.(*ssa.Convert); ok {
							v = cv.X
						}
						shift := int64(0)
						if b, ok := v.(*ssa.BinOp); ok && b.Op == token.SHR {
							shift, _ = constInt(b.Y)
							v = b.X
						}
						if endsInField(v, fPort, false) {
							portBytes[shift] = true
						}
						_ = idx
					}
				}
			}
		}
	})
	c.Check(haveKey, "C19.R3", name+"#key", P.Pos(ad.Pos()), "whole client KEM key hashed", "the cookie's associated data does not include the whole client ephemeral key")
	if badIP != "" {
		c.Fail("C19.R3", name+"#ip", P.Pos(ad.Pos()), badIP)
	} else {
		c.Check(haveIP, "C19.R3", name+"#ip", P.Pos(ad.Pos()), "source IP hashed unmodified / injectively", "the cookie's associated data does not include the client's IP address")
	}
	c.Check(portBytes[0] && portBytes[8], "C19.R3", name+"#port", P.Pos(ad.Pos()), "both port bytes hashed", "the cookie's associated data does not include both bytes of the client's port")
	// result is Sum of that hash
	sumOK := false
	for _, b := range ad.Blocks {
		if r, ok := b.Instrs[len(b.Instrs)-1].(*ssa.Return); ok && len(r.Results) == 1 {
			if call, _ := fromCall(r.Results[0]); call != nil && calleeID(call) == "(hash.Hash).Sum" && call.Call.Value == hashV {
				sumOK = true
			}
		}
	}
	c.Check(sumOK, "C19.R3", name+"#sum", P.Pos(ad.Pos()), "returns the digest of that hash", "CookieAD does not return the digest of the hash it fed")

	// users: writeCookie / decryptCookie
	fKem := P.Field("transport", "kemState", "remoteEphemeral")
	fRA := P.Field("transport", "HandshakeState", "remoteAddr")
	fCK := P.Field("transport", "HandshakeState", "cookieKey")
	for _, u := range []struct{ fn, aead string }{{"(*HandshakeState).writeCookie", aeadSealID}, {"(*HandshakeState).decryptCookie", aeadOpenID}} {
		fn := P.Func("transport", u.fn)
		if fn == nil {
			c.Undecided("C19.R3", "transport."+u.fn, "function not found")
			continue
		}
		c.Analysed(FuncName(fn))
		var adCall *ssa.Call
		for _, cs := range callSitesIn(fn, false, hopID("transport", "", "CookieAD")) {
			adCall = cs.(*ssa.Call)
		}
		okArgs, okUse, okKey := false, false, false
		if adCall != nil {
			a0, _ := fromCall(adCall.Call.Args[0])
			if a0 != nil && calleeFunc(&a0.Call) != nil && calleeFunc(&a0.Call).Name() == "MarshalBinary" && hasField(callArgs(&a0.Call)[0], fKem) && endsInField(adCall.Call.Args[1], fRA, false) {
				okArgs = true
			}
			for _, cs := range callSitesIn(fn, false, u.aead) {
				if len(cs.Common().Args) == 4 && cs.Common().Args[3] == ssa.Value(adCall) {
					okUse = true
				}
			}
		}
		for _, cs := range callSitesIn(fn, false, hopID("kravatte", "", "NewSANSE")) {
			if hasField(cs.Common().Args[0], fCK) {
				okKey = true
			}
		}
		c.Check(okArgs, "C19.R3", FuncName(fn)+"#ad-inputs", P.Pos(fn.Pos()), "CookieAD(marshal(hs.kem.remoteEphemeral), hs.remoteAddr)", "the cookie's associated data is not computed from the client's KEM key and source address held in the handshake state")
		c.Check(okUse, "C19.R3", FuncName(fn)+"#ad-used", P.Pos(fn.Pos()), "CookieAD result is the AEAD's associated data", "the CookieAD result is not what the cookie AEAD authenticates")
		c.Check(okKey, "C19.R3", FuncName(fn)+"#key", P.Pos(fn.Pos()), "AEAD keyed with hs.cookieKey", "the cookie AEAD is not keyed with hs.cookieKey")
	}
	// replay: fills the state from this datagram and the current key under cookieLock, before decrypting
	rep := P.Func("transport", "(*Server).ReplayPQDuplexFromCookie")
	fSCK := P.Field("transport", "Server", "cookieKey")
	fLock := P.Field("transport", "Server", "cookieLock")
	if rep == nil || fSCK == nil || fLock == nil {
		c.Undecided("C19.R3", "transport.(*Server).ReplayPQDuplexFromCookie", "function or field not found")
	} else {
		c.Analysed(FuncName(rep))
		var dec *ssa.Call
		for _, cs := range callSitesIn(rep, false, hopID("transport", "HandshakeState", "decryptCookie")) {
			dec = cs.(*ssa.Call)
		}
		if dec == nil {
			c.Fail("C19.R3", FuncName(rep)+"#fill", P.Pos(rep.Pos()), "the cookie is no longer decrypted in the replay")
		} else {
			got := map[string]bool{}
			var lock ssa.Instruction
			eachInstr(rep, func(ins ssa.Instruction) {
				if st, ok := ins.(*ssa.Store); ok && dominatesInstr(st, dec) {
					switch {
					case endsInField(st.Addr, fKem, false) && paramIndex(rep, st.Val) == 2:
						got["key"] = true
					case endsInField(st.Addr, fRA, false) && paramIndex(rep, st.Val) == 3:
						got["addr"] = true
					case endsInField(st.Addr, fCK, false) && endsInField(st.Val, fSCK, false):
						got["cookieKey"] = true
					}
				}
				if call, ok := ins.(*ssa.Call); ok && calleeID(call) == "(sync.Mutex).Lock" && endsInField(call.Call.Args[0], fLock, false) && dominatesInstr(call, dec) {
					lock = call
				}
			})
			if len(dec.Call.Args) == 2 && paramIndex(rep, dec.Call.Args[1]) == 1 {
				got["cookie"] = true
			}
			var missing []string
			for _, k := range []string{"key", "addr", "cookieKey", "cookie"} {
				if !got[k] {
					missing = append(missing, k)
				}
			}
			c.Check(len(missing) == 0, "C19.R3", FuncName(rep)+"#fill", P.InstrPos(dec), "key, address, current cookieKey and cookie of this datagram set before decryptCookie",
				fmt.Sprintf("before decryptCookie the replay does not set %v from its parameters / the server's current cookie key: the cookie would be checked against something other than this datagram's key and source address", missing))
			c.Check(lock != nil, "C19.R3", FuncName(rep)+"#lock", P.InstrPos(dec), "cookieKey copied under cookieLock", "the server's cookie key is copied without cookieLock held (a rotation could be half-visible)")
		}
	}
	// readPQClientAck hands over this datagram's fields; readPacket this datagram's source address
	if ack := P.Func("transport", "(*Server).readPQClientAck"); ack != nil {
		for _, cs := range callSitesIn(ack, false, hopID("transport", "Server", "ReplayPQDuplexFromCookie")) {
			args := cs.Common().Args // s, cookie, key, addr
			okv := len(args) == 4
			if okv {
				r0, _ := accessPath(args[1])
				okv = paramIndex(ack, r0) == 1 && paramIndex(ack, args[3]) == 2
				// key: *result of ParseKEMPublicKeyFromBytes(b[..])
				kroot, _ := accessPath(args[2])
				kc, _ := fromCall(kroot)
				if kc == nil || calleeID(kc) != hopID("keys", "", "ParseKEMPublicKeyFromBytes") {
					okv = false
				} else if pr, _ := accessPath(kc.Call.Args[0]); paramIndex(ack, pr) != 1 {
					okv = false
				}
			}
			c.Check(okv, "C19.R3", FuncName(ack)+"#replay-args", P.InstrPos(cs), "cookie and key parsed from this datagram, address of this datagram", "the cookie replay is not given the cookie and KEM key parsed from this datagram and this datagram's source address")
		}
	}
	if rp := P.Func("transport", "(*Server).readPacket"); rp != nil {
		rp = dispatcherOf(P, rp, []int64{pkgConst(P, "transport", "MessageTypeClientHello"), pkgConst(P, "transport", "MessageTypeClientAck"), pkgConst(P, "transport", "MessageTypeClientAuth"), pkgConst(P, "transport", "MessageTypeClientRequestHidden")})
		nAck := 0
		root := P.Func("transport", "(*Server).readPacket")
		type ackSite struct {
			f  *ssa.Function
			cs ssa.CallInstruction
		}
		var ackSites []ackSite
		for _, f := range P.ModuleFuncs("transport") {
			if f.Parent() == nil && (f == root || P.OwnedBy(f, root)) {
				for _, cs := range callSitesIn(f, false, hopID("transport", "Server", "readPQClientAck")) {
					ackSites = append(ackSites, ackSite{f, cs})
				}
			}
		}
		for _, as := range ackSites {
			cs := as.cs
			nAck++
			args := cs.Common().Args
			okv := false
			if len(args) == 3 {
				// a helper cut out of readPacket receives the address as a parameter: follow it to the call sites
				addr := strip(args[2])
				for f, hops := as.f, 0; hops < 3; hops++ {
					k := paramIndex(f, addr)
					if k < 0 {
						break
					}
					edges := P.Callers(f)
					if len(edges) != 1 || edges[0].Site == nil || k >= len(edges[0].Site.Common().Args) {
						break
					}
					addr = strip(edges[0].Site.Common().Args[k])
					f = edges[0].Caller.Func
				}
				if ex, ok := addr.(*ssa.Extract); ok && ex.Index == 3 {
					if call, ok := ex.Tuple.(*ssa.Call); ok && calleeID(call) == hopID("transport", "UDPLike", "ReadMsgUDP") {
						okv = true
					}
				}
			}
			c.Check(okv, "C19.R3", FuncName(rp)+"#source-addr", P.InstrPos(cs), "address = source of this datagram (ReadMsgUDP)", "readPQClientAck is not given the source address reported by ReadMsgUDP for this datagram")
		}
		c.Floor("C19.R3", "readPQClientAck calls in the dispatcher", nAck, 1)
	}
	// who touches Server.cookieKey
	writers := map[string]bool{"transport.(*Server).init": true}
	if serve := P.Func("transport", "(*Server).Serve"); serve != nil {
		for _, g := range goBodiesOf(serve) {
			// the rotation goroutine: a goroutine body of Serve other than the receive loop
			if len(callSitesIn(g, false, hopID("transport", "Server", "readPacket"))) == 0 {
				writers[FuncName(g)] = true
			}
		}
	}
	readers := map[string]bool{"transport.(*Server).readPacket": true, "transport.(*Server).ReplayPQDuplexFromCookie": true, "transport.(*Server).ReplayDuplexFromCookie": true}
	n := 0
	for _, f := range P.ModuleFuncs("transport") {
		eachInstr(f, func(ins ssa.Instruction) {
			fa, ok := ins.(*ssa.FieldAddr)
			if !ok || fieldOf(fa.X.Type(), fa.Field) != fSCK {
				return
			}
			n++
			mayWrite := false
			for _, r := range *fa.Referrers() {
				switch x := r.(type) {
				case *ssa.UnOp: // copy out
				case *ssa.Store:
					if x.Addr == ssa.Value(fa) {
						mayWrite = true
					}
				default:
					mayWrite = true // sliced / passed on
				}
			}
			fnName := FuncName(f)
			isReader := readers[fnName]
			if !isReader {
				g := f
				for g.Parent() != nil {
					g = g.Parent()
				}
				for rn := range readers {
					if rf := funcByFullName(P, rn); rf != nil && P.OwnedBy(g, rf) {
						isReader = true // a local helper cut out of a known reader
					}
				}
				if false {
					isReader = true // a local helper cut out of a known reader
				}
			}
			okv := (mayWrite && writers[fnName]) || (!mayWrite && (isReader || writers[fnName]))
			c.Check(okv, "C19.R3", "access:Server.cookieKey@"+fnName, P.InstrPos(ins), "known accessor", "Server.cookieKey is written (or exposed for writing) outside init and the rotation goroutine, or read by a new function")
		})
	}
	c.Floor("C19.R3", "accesses of Server.cookieKey", n, 4)
}

// Field2 resolves a struct field of a non-module package.
func (p *Program) Field2(pkgPath, typ, field string) *types.Var {
	pk := p.All[pkgPath]
	if pk == nil || pk.Types == nil {
		return nil
	}
	obj := pk.Types.Scope().Lookup(typ)
	if obj == nil {
		return nil
	}
	st, ok := obj.Type().Underlying().(*types.Struct)
	if !ok {
		return nil
	}
	for i := 0; i < st.NumFields(); i++ {
		if st.Field(i).Name() == field {
			return st.Field(i)
		}
	}
	return nil
}

// hidden request reader: timestamp window on every success path
func c19HiddenReader(c *Ctx) {
	P := c.P
	fn := P.Func("transport", "(*Server).readPQClientRequestHidden")
	if fn == nil {
		c.Undecided("C19.R4", "transport.(*Server).readPQClientRequestHidden", "function not found")
		return
	}
	name := FuncName(fn)
	c.Analysed(name)
	expiry := pkgConst(P, "transport", "HiddenModeTimestampExpiration")
	fs := newFailSet()
	succ := 0
	var cur *Path
	derivesTS := func(v ssa.Value) bool {
		// value computed from binary.BigEndian.Uint64(...)
		seen := map[ssa.Value]bool{}
		var rec func(v ssa.Value, d int) bool
		rec = func(v ssa.Value, d int) bool {
			if v == nil || d > 8 || seen[v] {
				return false
			}
			seen[v] = true
			switch x := v.(type) {
			case *ssa.Parameter:
				if cur != nil && x.Parent() != fn {
					if w := cur.Resolve(x, len(cur.Blocks)-1); w != ssa.Value(x) {
						return rec(w, d+1)
					}
				}
			case *ssa.Call:
				return calleeID(x) == "(encoding/binary.bigEndian).Uint64" || calleeID(x) == "(encoding/binary.littleEndian).Uint64"
			case *ssa.Convert:
				return rec(x.X, d+1)
			case *ssa.BinOp:
				return rec(x.X, d+1) || rec(x.Y, d+1)
			}
			return false
		}
		return rec(v, 0)
	}
	derivesNow := func(v ssa.Value) bool {
		seen := map[ssa.Value]bool{}
		var rec func(v ssa.Value, d int) bool
		rec = func(v ssa.Value, d int) bool {
			if v == nil || d > 8 || seen[v] {
				return false
			}
			seen[v] = true
			switch x := v.(type) {
			case *ssa.Parameter:
				if cur != nil && x.Parent() != fn {
					if w := cur.Resolve(x, len(cur.Blocks)-1); w != ssa.Value(x) {
						return rec(w, d+1)
					}
				}
			case *ssa.Call:
				if calleeID(x) == "(time.Time).Unix" || calleeID(x) == "time.Now" {
					return true
				}
			case *ssa.Convert:
				return rec(x.X, d+1)
			case *ssa.BinOp:
				return rec(x.X, d+1) || rec(x.Y, d+1)
			}
			return false
		}
		return rec(v, 0)
	}
	ok := walkAll(c, "C19.R4", fn, func(p *Path) {
		if !isSuccess(p) {
			return
		}
		cur = p
		succ++
		notFuture, notStale := false, false
		for k, v := range p.FactsAt(len(p.Blocks) - 1) {
			if k.op != token.LSS || v {
				continue
			}
			// ¬(x < y)
			if derivesNow(k.x) && !derivesTS(k.x) && derivesTS(k.y) && !derivesNow(k.y) {
				notFuture = true // ¬(now < ts)
			}
			if n, isC := constInt(k.x); isC && n == expiry && derivesTS(k.y) && derivesNow(k.y) {
				notStale = true // ¬(expiry < now - ts)
			}
		}
		if !notFuture {
			fs.add("timestamp", "a hidden request is accepted on a path that does not require its timestamp to be <= now", p.Exit(), p)
		}
		if !notStale {
			fs.add("timestamp", "a hidden request is accepted on a path that does not require now - timestamp <= HiddenModeTimestampExpiration (stale requests would be answered)", p.Exit(), p)
		}
	})
	// the window is in the unit of the timestamps (Unix seconds)
	for _, f := range []*ssa.Function{fn, P.Func("transport", "(*Server).readClientRequestHidden")} {
		if f == nil {
			continue
		}
		at := unitMismatch(P, f)
		c.Check(at == "", "C19.R4", FuncName(f)+"#timestamp-unit", P.Pos(f.Pos()), "no seconds-against-nanoseconds comparison",
			"an age in Unix seconds is compared with a time.Duration converted to an integer (nanoseconds) at "+at+": the staleness bound is a billion times too wide, so a captured hidden request is answered whenever it is replayed")
	}
	if ok {
		fs.report(c, "C19.R4", name, []string{"timestamp"}, P.Pos(fn.Pos()), fmt.Sprintf("timestamp window required on all %d success paths", succ))
		c.Floor("C19.R4", "success paths of readPQClientRequestHidden", succ, 1)
	}
}

// unitMismatch looks, in the source of fn, for an ordering comparison between a
// Unix-seconds quantity (derived from a .Unix() call) and a time.Duration that was
// converted to a plain integer without dividing by a unit: nanoseconds against seconds.
func unitMismatch(P *Program, fn *ssa.Function) string {
	decl, ok := fn.Syntax().(*ast.FuncDecl)
	if !ok || decl.Body == nil {
		return ""
	}
	var info *types.Info
	for _, pk := range P.All {
		if pk.Types == fn.Pkg.Pkg {
			info = pk.TypesInfo
		}
	}
	if info == nil {
		return ""
	}
	isDuration := func(t types.Type) bool {
		n, ok := t.(*types.Named)
		return ok && n.Obj().Pkg() != nil && n.Obj().Pkg().Path() == "time" && n.Obj().Name() == "Duration"
	}
	hasUnixCall := func(e ast.Expr) bool {
		found := false
		ast.Inspect(e, func(n ast.Node) bool {
			if call, ok := n.(*ast.CallExpr); ok {
				if sel, ok := call.Fun.(*ast.SelectorExpr); ok && sel.Sel.Name == "Unix" && len(call.Args) == 0 {
					found = true
				}
			}
			return true
		})
		return found
	}
	secs := map[types.Object]bool{}
	ast.Inspect(decl.Body, func(n ast.Node) bool {
		if as, ok := n.(*ast.AssignStmt); ok && len(as.Lhs) == len(as.Rhs) {
			for i, r := range as.Rhs {
				if hasUnixCall(r) {
					if id, ok := as.Lhs[i].(*ast.Ident); ok {
						if o := info.ObjectOf(id); o != nil {
							secs[o] = true
						}
					}
				}
			}
		}
		return true
	})
	isSeconds := func(e ast.Expr) bool {
		if hasUnixCall(e) {
			return true
		}
		found := false
		ast.Inspect(e, func(n ast.Node) bool {
			if id, ok := n.(*ast.Ident); ok && secs[info.ObjectOf(id)] {
				found = true
			}
			return true
		})
		return found
	}
	rawDuration := func(e ast.Expr) bool {
		found := false
		ast.Inspect(e, func(n ast.Node) bool {
			call, ok := n.(*ast.CallExpr)
			if !ok || len(call.Args) != 1 {
				return true
			}
			tv, ok := info.Types[call.Fun]
			if !ok || !tv.IsType() {
				return true
			}
			if b, ok := tv.Type.Underlying().(*types.Basic); !ok || b.Info()&types.IsInteger == 0 || isDuration(tv.Type) {
				return true
			}
			at := info.TypeOf(call.Args[0])
			if at == nil || !isDuration(at) {
				return true
			}
			if be, ok := ast.Unparen(call.Args[0]).(*ast.BinaryExpr); ok && be.Op == token.QUO {
				return true // d / time.Second: a count of units
			}
			found = true
			return true
		})
		return found
	}
	res := ""
	ast.Inspect(decl.Body, func(n ast.Node) bool {
		be, ok := n.(*ast.BinaryExpr)
		if !ok || res != "" {
			return true
		}
		switch be.Op {
		case token.LSS, token.LEQ, token.GTR, token.GEQ:
			if (isSeconds(be.X) && rawDuration(be.Y)) || (isSeconds(be.Y) && rawDuration(be.X)) {
				res = P.Pos(be.Pos())
			}
		}
		return true
	})
	return res
}

// dispatcherOf: rp itself if it compares a value with at least three of the message-type constants,
// otherwise the local helper of rp (at most two calls down) that does.
func dispatcherOf(P *Program, rp *ssa.Function, consts []int64) *ssa.Function {
	score := func(f *ssa.Function) int {
		seen := map[int64]bool{}
		eachInstr(f, func(ins ssa.Instruction) {
			b, ok := ins.(*ssa.BinOp)
			if !ok || b.Op != token.EQL {
				return
			}
			for _, v := range []ssa.Value{b.X, b.Y} {
				if n, isC := constInt(v); isC {
					for _, k := range consts {
						if n == k {
							seen[k] = true
						}
					}
				}
			}
		})
		return len(seen)
	}
	if score(rp) >= 3 {
		return rp
	}
	best := rp
	var visit func(f *ssa.Function, depth int)
	visit = func(f *ssa.Function, depth int) {
		if depth > 2 {
			return
		}
		eachInstr(f, func(ins ssa.Instruction) {
			if call, ok := ins.(*ssa.Call); ok {
				if g := staticCallee(&call.Call); g != nil && g != f && len(g.Blocks) > 0 && P.OwnedBy(g, rp) && g != rp {
					if score(g) >= 3 && best == rp {
						best = g
					}
					visit(g, depth+1)
				}
			}
		})
	}
	visit(rp, 0)
	return best
}

func funcByFullName(P *Program, full string) *ssa.Function {
	for _, f := range P.ModuleFuncs("transport") {
		if FuncName(f) == full {
			return f
		}
	}
	return nil
}
