package main

// E2 — cursor analysis: linear offsets over byte buffers.
//
// Forward abstract interpretation over go/ssa. Int values are linear forms over
// opaque symbols; slice values have a symbolic length; branch conditions yield
// linear facts; facts at a block are the intersection over incoming edges.
// Obligations: every index, slice, make and fixed-width stdlib accessor in the
// analysed functions is in bounds (against len, not cap: a slice beyond len reads
// stale bytes). Unprovable obligations that only mention parameter lengths
// become pre-conditions and are re-checked at call sites; function results get
// post-conditions (facts that hold at every successful return).

import (
	"fmt"
	"go/token"
	"go/types"
	"os"
	"sort"

	"golang.org/x/tools/go/ssa"
)

type boundsOb struct {
	ins  ssa.Instruction
	what string
	e    lin // must be >= 0
}

type fnSummary struct {
	fn        *ssa.Function
	requires  []boundsOb // over parameter symbols only
	unproven  []boundsOb // violations inside fn
	proven    int
	ensuresOK []lin // hold at every successful return; over param + result symbols
	ensuresAl []lin // hold at every return
	extraBad  []boundsOb
	extraOK   int
	done      bool
}

type boundsEngine struct {
	P        *Program
	sums     map[*ssa.Function]*fnSummary
	inProg   map[*ssa.Function]bool
	fieldLen map[*types.Var]*int64 // constant-length invariants of slice fields (nil = none)
	writes   map[*ssa.Function]map[*types.Var]bool
	extra    func(a *boundsAn, ins ssa.Instruction) []boundsOb // additional obligations (E3 rules)
	assume   func(a *boundsAn)                                 // facts a rule has established at every call site of the analysed function (assume-guarantee)
	trusted  map[string]bool
	// integer parameters assumed non-negative during the analysis in progress (see summary)
	assumeNonNeg []*ssa.Parameter
}

func newBoundsEngine(P *Program) *boundsEngine {
	return &boundsEngine{P: P, sums: map[*ssa.Function]*fnSummary{}, inProg: map[*ssa.Function]bool{}, fieldLen: map[*types.Var]*int64{}, trusted: map[string]bool{}}
}

// constFieldLen: if every write to slice field f in the module stores a make([]T, C)
// with the same constant C, loads of f have length C.
func (e *boundsEngine) constFieldLen(f *types.Var) (int64, bool) {
	if p, ok := e.fieldLen[f]; ok {
		if p == nil {
			return 0, false
		}
		return *p, true
	}
	e.fieldLen[f] = nil
	if f.Pkg() == nil || !hasPrefixAny(f.Pkg().Path(), modPath) {
		return 0, false
	}
	rel := f.Pkg().Path()[len(modPath):]
	if len(rel) > 0 {
		rel = rel[1:]
	}
	ws := e.P.FieldWrites(f, rel)
	if len(ws) == 0 {
		return 0, false
	}
	val := int64(-1)
	for _, w := range ws {
		if w.Kind != "store" {
			return 0, false
		}
		n, isC := constSliceLen(w.Val)
		if !isC || (val >= 0 && n != val) {
			return 0, false
		}
		val = n
	}
	// composite literals that set the field are stores too in SSA; fields never set stay nil (len 0) — only accept if a write exists
	e.fieldLen[f] = &val
	return val, true
}

type boundsAn struct {
	eng      *boundsEngine
	fn       *ssa.Function
	forms    map[ssa.Value]lin
	lens     map[ssa.Value]lin
	defs     []defFact
	defSeen  map[string]bool
	anchor   ssa.Value // value whose definition the facts being added belong to
	in       map[*ssa.BasicBlock]factSet
	obs      []boundsOb
	callSeen map[ssa.Value]bool
	alts     map[sym][]lin // call results known to equal one of a few forms (selectors such as 'n or the header length')
}

// defFact is a fact that holds wherever its anchor value is defined (i.e. at
// every point dominated by the anchor's definition).
type defFact struct {
	f      lin
	anchor ssa.Value
}

func (a *boundsAn) addDef(f lin) {
	if f.isConst() {
		return
	}
	k := fmt.Sprintf("%s@%p", f.key(), a.anchor)
	if a.defSeen[k] {
		return
	}
	a.defSeen[k] = true
	a.defs = append(a.defs, defFact{f, a.anchor})
}

// defsAt returns the definition facts usable at instruction at (nil: only anchor-free facts).
func (a *boundsAn) defsAt(at ssa.Instruction) factSet {
	out := factSet{}
	for _, d := range a.defs {
		if d.anchor != nil {
			ai, isIns := d.anchor.(ssa.Instruction)
			if isIns && ai.Block() != nil {
				if at == nil {
					continue
				}
				if ai == at {
					continue
				}
				if !dominatesInstr(ai, at) {
					continue
				}
			}
		}
		out.addGE(d.f)
	}
	return out
}

func (a *boundsAn) sv(v ssa.Value, kind byte) lin {
	return linSym(sym{canon(v), kind})
}

// formOf: linear form of an integer-typed value.
func (a *boundsAn) formOf(v ssa.Value) lin {
	if f, ok := a.forms[v]; ok {
		return f
	}
	a.forms[v] = a.sv(v, 'v') // cycle guard
	saved := a.anchor
	a.anchor = v
	f := a.formOf0(v)
	a.anchor = saved
	// narrow / unsigned result types wrap: keep the form only if it provably fits
	if l, h, ok := typeRange(v.Type()); ok && (l != -1<<63 || h != 1<<63-1) {
		if _, isC := v.(*ssa.Const); !isC {
			vi, _ := v.(ssa.Instruction)
			lo, hi := a.defsAt(vi).singleBounds()
			fl, fh := f.bounds(lo, hi)
			if fl < l || fh > h {
				// may wrap (or is simply unknown): opaque symbol with the type's range
				if !(len(f.t) == 1 && f.c == 0) { // already a plain symbol: keep
					f = a.sv(v, 'v')
				}
			}
		}
	}
	a.forms[v] = f
	return f
}

func (a *boundsAn) formOf0(v ssa.Value) lin {
	switch x := v.(type) {
	case *ssa.Const:
		if n, ok := constInt(x); ok {
			return linConst(n)
		}
	case *ssa.BinOp:
		switch x.Op {
		case token.ADD:
			return a.formOf(x.X).add(a.formOf(x.Y))
		case token.SUB:
			return a.formOf(x.X).sub(a.formOf(x.Y))
		case token.MUL:
			if n, ok := constInt(x.Y); ok {
				return a.formOf(x.X).scale(n)
			}
			if n, ok := constInt(x.X); ok {
				return a.formOf(x.Y).scale(n)
			}
		case token.SHL:
			if n, ok := constInt(x.Y); ok && n >= 0 && n < 32 {
				return a.formOf(x.X).scale(1 << uint(n))
			}
		case token.AND:
			// x & mask: 0..mask
			if n, ok := constInt(x.Y); ok && n >= 0 {
				s := a.sv(v, 'v')
				a.addDef(s)
				a.addDef(linConst(n).sub(s))
				return s
			}
		case token.REM:
			// x % n for a constant n > 0: |result| <= n-1, and 0 <= result <= x for x >= 0
			if n, ok := constInt(x.Y); ok && n > 0 {
				s := a.sv(v, 'v')
				a.addDef(linConst(n - 1).sub(s))
				xf := a.formOf(x.X)
				lo, hi := a.defsAt(x).singleBounds()
				if l, _ := xf.bounds(lo, hi); l >= 0 {
					a.addDef(s)
					a.addDef(xf.sub(s))
				} else {
					a.addDef(s.add(linConst(n - 1)))
				}
				return s
			}
		case token.SHR:
			if n, ok := constInt(x.Y); ok && n >= 0 && n < 62 {
				// floor(x / 2^n): between 0 and x for x >= 0
				s := a.sv(v, 'v')
				xf := a.formOf(x.X)
				lo, hi := a.defsAt(x).singleBounds()
				if l, _ := xf.bounds(lo, hi); l >= 0 {
					a.addDef(s)
					a.addDef(xf.sub(s))
				}
				return s
			}
		}
	case *ssa.Convert:
		if _, _, ok := typeRange(x.X.Type()); ok {
			return a.formOf(x.X) // wrap check happens in formOf for the destination type
		}
	case *ssa.ChangeType:
		if _, _, ok := typeRange(x.X.Type()); ok {
			return a.formOf(x.X)
		}
	case *ssa.Call:
		if b, ok := x.Call.Value.(*ssa.Builtin); ok {
			switch b.Name() {
			case "len":
				return a.lenOf(x.Call.Args[0])
			case "copy":
				s := a.sv(v, 'v')
				a.addDef(s)
				a.addDef(a.lenOf(x.Call.Args[0]).sub(s))
				a.addDef(a.lenOf(x.Call.Args[1]).sub(s))
				return s
			case "min":
				s := a.sv(v, 'v')
				for _, arg := range x.Call.Args {
					a.addDef(a.formOf(arg).sub(s))
				}
				return s
			case "max":
				s := a.sv(v, 'v')
				for _, arg := range x.Call.Args {
					a.addDef(s.sub(a.formOf(arg)))
				}
				return s
			}
		}
		a.callFacts(x)
		// single int result with a parameter-only form in the summary
		if g := staticCallee(&x.Call); g != nil {
			if f, ok := a.resultForm(x, g, 0); ok {
				return f
			}
			// a selector: every return hands back one of its parameters or a constant
			if forms, ok := a.selectorForms(x, g); ok {
				s := a.sv(v, 'v')
				if a.alts == nil {
					a.alts = map[sym][]lin{}
				}
				a.alts[sym{canon(v), 'v'}] = forms
				return s
			}
		}
	case *ssa.Extract:
		if call, ok := x.Tuple.(*ssa.Call); ok {
			a.callFacts(call)
			if g := staticCallee(&call.Call); g != nil {
				if f, ok := a.resultForm(call, g, x.Index); ok {
					return f
				}
			}
		}
	case *ssa.UnOp:
		// a load of an integer field holds what the closest preceding load / store of the same
		// access path saw (unique-predecessor chain, no intervening writer): one value, one symbol
		if x.Op == token.MUL {
			if _, ok := x.X.(*ssa.FieldAddr); ok && canon(x) == ssa.Value(x) {
				if r := a.reachingField(x); r != nil && r != ssa.Value(x) {
					if _, _, isInt := typeRange(r.Type()); isInt {
						return a.formOf(r)
					}
				}
			}
		}
	case *ssa.Phi:
		// all edges equal?
		var first lin
		same := true
		for i, e := range x.Edges {
			if e == ssa.Value(x) {
				continue
			}
			f := a.formOf(e)
			if i == 0 {
				first = f
			} else if !f.equal(first) {
				same = false
			}
		}
		if same && len(x.Edges) > 0 {
			if _, selfRef := first.t[sym{canon(v), 'v'}]; !selfRef {
				return first
			}
		}
		// induction: phi(c0, phi+k)
		s := a.sv(v, 'v')
		var init *lin
		step := int64(0)
		okInd := true
		for _, e := range x.Edges {
			f := a.formOf(e)
			d := f.sub(s)
			if d.isConst() && d.c != 0 {
				if step != 0 && (step > 0) != (d.c > 0) {
					okInd = false
				}
				step = d.c
			} else if d.isConst() && d.c == 0 {
				// self edge
			} else {
				if init != nil && !init.equal(f) {
					okInd = false
				}
				ff := f
				init = &ff
			}
		}
		if okInd && init != nil && step != 0 {
			if _, selfRef := init.t[sym{canon(v), 'v'}]; !selfRef {
				if step > 0 {
					a.addDef(s.sub(*init))
				} else {
					a.addDef(init.sub(s))
				}
			}
		}
		return s
	}
	return a.sv(v, 'v')
}

// resultForm: result #k of call to g expressed over the caller's values, if the
// summary knows it as an always-valid equality res_k == form(params).
func (a *boundsAn) resultForm(call *ssa.Call, g *ssa.Function, k int) (lin, bool) {
	sum := a.eng.summary(g)
	if sum == nil {
		return lin{}, false
	}
	rs := sym{resKey{g, k}, 'v'}
	// look for a pair  res - F >= 0  and  F - res >= 0  in ensuresAl
	for _, f1 := range sum.ensuresAl {
		if f1.t[rs] != 1 {
			continue
		}
		F := linSym(rs).sub(f1) // res - (res - F) = F
		for _, f2 := range sum.ensuresAl {
			if f2.equal(F.sub(linSym(rs))) {
				if sub, ok := a.substitute(F, call, g); ok {
					return sub, true
				}
			}
		}
	}
	return lin{}, false
}

// lenOf: symbolic length of a slice / string / array(-pointer) value.
func (a *boundsAn) lenOf(v ssa.Value) lin {
	if f, ok := a.lens[v]; ok {
		return f
	}
	ph := a.sv(v, 'l')
	a.lens[v] = ph
	saved := a.anchor
	a.anchor = v
	f := a.lenOf0(v)
	a.lens[v] = f
	// the placeholder may have leaked into forms computed during a cycle (a slice that is
	// re-sliced by its own length in a loop): tie it to the length found
	if !f.equal(ph) {
		if _, self := f.t[sym{canon(v), 'l'}]; !self {
			a.addDef(ph.sub(f))
			a.addDef(f.sub(ph))
		}
	}
	a.anchor = saved
	return f
}

func arrayLen(t types.Type) (int64, bool) {
	t = t.Underlying()
	if pt, ok := t.(*types.Pointer); ok {
		t = pt.Elem().Underlying()
	}
	if at, ok := t.(*types.Array); ok {
		return at.Len(), true
	}
	return 0, false
}

func (a *boundsAn) lenOf0(v ssa.Value) lin {
	if n, ok := arrayLen(v.Type()); ok {
		return linConst(n)
	}
	switch x := v.(type) {
	case *ssa.Const:
		if x.Value == nil {
			return linConst(0)
		}
		if s, ok := constString(x); ok {
			return linConst(int64(len(s)))
		}
	case *ssa.Slice:
		var hi lin
		if x.High != nil {
			hi = a.formOf(x.High)
		} else {
			hi = a.lenOf(x.X)
		}
		if x.Low != nil {
			return hi.sub(a.formOf(x.Low))
		}
		return hi
	case *ssa.MakeSlice:
		return a.formOf(x.Len)
	case *ssa.ChangeType:
		return a.lenOf(x.X)
	case *ssa.Convert:
		switch x.X.Type().Underlying().(type) {
		case *types.Slice:
			return a.lenOf(x.X)
		case *types.Basic:
			if x.X.Type().Underlying().(*types.Basic).Info()&types.IsString != 0 {
				return a.lenOf(x.X)
			}
		}
	case *ssa.SliceToArrayPointer:
		if n, ok := arrayLen(x.Type()); ok {
			return linConst(n)
		}
	case *ssa.Phi:
		var first lin
		same := true
		for i, e := range x.Edges {
			f := a.lenOf(e)
			if i == 0 {
				first = f
			} else if !f.equal(first) {
				same = false
			}
		}
		if same && len(x.Edges) > 0 {
			if _, selfRef := first.t[sym{canon(v), 'l'}]; !selfRef {
				return first
			}
		}
	case *ssa.Call:
		if b, ok := x.Call.Value.(*ssa.Builtin); ok && b.Name() == "append" && len(x.Call.Args) == 2 {
			if _, isSlice := x.Call.Args[1].Type().Underlying().(*types.Slice); isSlice {
				return a.lenOf(x.Call.Args[0]).add(a.lenOf(x.Call.Args[1]))
			}
			if bt, ok := x.Call.Args[1].Type().Underlying().(*types.Basic); ok && bt.Info()&types.IsString != 0 {
				return a.lenOf(x.Call.Args[0]).add(a.lenOf(x.Call.Args[1]))
			}
		}
		a.callFacts(x)
	case *ssa.Extract:
		if call, ok := x.Tuple.(*ssa.Call); ok {
			a.callFacts(call)
		}
	case *ssa.UnOp:
		if x.Op == token.MUL {
			if fa, ok := x.X.(*ssa.FieldAddr); ok {
				if n, ok := a.eng.constFieldLen(fieldOf(fa.X.Type(), fa.Field)); ok {
					return linConst(n)
				}
				if canon(x) == ssa.Value(x) {
					if r := a.reachingField(x); r != nil && r != ssa.Value(x) {
						return a.lenOf(r)
					}
				}
			}
		}
	}
	return a.sv(v, 'l')
}

func constString(c *ssa.Const) (string, bool) {
	if c.Value == nil {
		return "", false
	}
	if b, ok := c.Type().Underlying().(*types.Basic); ok && b.Info()&types.IsString != 0 {
		s := c.Value.ExactString()
		// ExactString is quoted
		if len(s) >= 2 && s[0] == '"' {
			var out []byte
			fmt.Sscanf(s, "%q", &out)
			var str string
			if _, err := fmt.Sscanf(s, "%q", &str); err == nil {
				return str, true
			}
		}
	}
	return "", false
}

// stdlib accessor contracts: minimum length of the slice argument (index of the arg incl. receiver).
var minLenContracts = map[string][2]int64{
	"(encoding/binary.bigEndian).Uint16":       {1, 2},
	"(encoding/binary.bigEndian).Uint32":       {1, 4},
	"(encoding/binary.bigEndian).Uint64":       {1, 8},
	"(encoding/binary.bigEndian).PutUint16":    {1, 2},
	"(encoding/binary.bigEndian).PutUint32":    {1, 4},
	"(encoding/binary.bigEndian).PutUint64":    {1, 8},
	"(encoding/binary.littleEndian).Uint16":    {1, 2},
	"(encoding/binary.littleEndian).Uint32":    {1, 4},
	"(encoding/binary.littleEndian).Uint64":    {1, 8},
	"(encoding/binary.littleEndian).PutUint16": {1, 2},
	"(encoding/binary.littleEndian).PutUint32": {1, 4},
	"(encoding/binary.littleEndian).PutUint64": {1, 8},
}

// reader contracts: result #0 is between 0 and len(arg) (arg index incl. receiver).
var readContracts = map[string]int{
	hopID("transport", "UDPLike", "ReadMsgUDP"): 1,
	hopID("transport", "MsgConn", "ReadMsg"):    1,
	"(io.Reader).Read":                          1,
	"(net.Conn).Read":                           1,
	"(*net.UDPConn).ReadMsgUDP":                 1,
	"(*bytes.Buffer).Read":                      1,
	"(bytes.Buffer).Read":                       1,
}

// callFacts records definition facts implied by a call (contracts and summaries' always-postconditions).
func (a *boundsAn) callFacts(call *ssa.Call) {
	key := ssa.Value(call)
	if a.callSeen == nil {
		a.callSeen = map[ssa.Value]bool{}
	}
	if a.callSeen[key] {
		return
	}
	a.callSeen[key] = true
	saved := a.anchor
	a.anchor = call
	defer func() { a.anchor = saved }()
	id := calleeID(call)
	args := callArgs(&call.Call)
	idx, ok := readContracts[id]
	if !ok {
		// io.Reader-shaped interface methods: Read* (b []byte, ...) (n int, ...)
		if f := calleeFunc(&call.Call); f != nil && call.Call.IsInvoke() {
			switch f.Name() {
			case "Read", "ReadMsg", "ReadMsgUDP", "ReadFromUDP":
				sig := f.Type().(*types.Signature)
				if sig.Params().Len() >= 1 && sig.Results().Len() >= 1 {
					if sl, isSl := sig.Params().At(0).Type().Underlying().(*types.Slice); isSl && isIntType(sig.Results().At(0).Type()) {
						if bt, isB := sl.Elem().Underlying().(*types.Basic); isB && bt.Kind() == types.Uint8 {
							idx, ok = 1, true
							id = "io.Reader-shaped " + f.Name()
						}
					}
				}
			}
		}
	}
	if ok && idx < len(args) {
		a.eng.trusted["n <= len(buf) for "+id] = true
		var n lin
		if call.Call.Signature().Results().Len() == 1 {
			n = a.sv(call, 'v')
		} else if ex := extractOf(call, 0); ex != nil {
			n = a.sv(ex, 'v')
		} else {
			return
		}
		a.addDef(n)
		a.addDef(a.lenOf(args[idx]).sub(n))
		return
	}
	g := staticCallee(&call.Call)
	if g == nil || !InModule(g) {
		return
	}
	sum := a.eng.summary(g)
	if sum == nil {
		return
	}
	for _, f := range sum.ensuresAl {
		if sub, ok := a.substitute(f, call, g); ok {
			a.addDef(sub)
		}
	}
}

// substitute rewrites a summary form (over g's parameter and result symbols)
// into the caller's vocabulary at call.
func (a *boundsAn) substitute(f lin, call *ssa.Call, g *ssa.Function) (lin, bool) {
	out := linConst(f.c)
	args := call.Call.Args
	for s, k := range f.t {
		var repl lin
		switch x := s.v.(type) {
		case *ssa.Parameter:
			idx := -1
			for i, p := range g.Params {
				if p == x {
					idx = i
				}
			}
			if idx < 0 || idx >= len(args) {
				return lin{}, false
			}
			if s.kind == 'l' {
				repl = a.lenOf(args[idx])
			} else {
				repl = a.formOf(args[idx])
			}
		case resKey:
			var rv ssa.Value
			if call.Call.Signature().Results().Len() == 1 {
				rv = call
			} else {
				rv = extractOf(call, x.k)
			}
			if rv == nil {
				return lin{}, false
			}
			if s.kind == 'l' {
				if cur, ok := a.lens[rv]; ok {
					repl = cur
				} else {
					repl = a.sv(rv, 'l')
				}
			} else {
				if cur, ok := a.forms[rv]; ok {
					repl = cur
				} else {
					repl = a.sv(rv, 'v')
				}
			}
		case *ssa.UnOp:
			root, sels := accessPath(x)
			prm, ok := root.(*ssa.Parameter)
			if !ok {
				return lin{}, false
			}
			idx := -1
			for i, p := range g.Params {
				if p == prm {
					idx = i
				}
			}
			if idx < 0 || idx >= len(args) || len(sels) == 0 {
				return lin{}, false
			}
			// access path of the same field chain below the caller's argument
			ap := apString(lookThrough(args[idx]))
			for _, sl := range sels {
				if sl.Field == nil {
					return lin{}, false
				}
				ap += "." + sl.Field.Name()
			}
			cur := a.fieldValueBefore(call, ap, sels[len(sels)-1].Field)
			if cur == nil {
				cur = a.canonicalFieldLoad(ap, sels[len(sels)-1].Field)
			}
			if cur == nil {
				return lin{}, false
			}
			if s.kind == 'l' {
				repl = a.lenOf(cur)
			} else {
				repl = a.formOf(cur)
			}
		default:
			return lin{}, false
		}
		out = out.add(repl.scale(k))
	}
	return out, true
}

// condFacts: linear facts implied by cond having the given truth value.
func (a *boundsAn) condFacts(cond ssa.Value, truth bool) []lin {
	for {
		if u, ok := cond.(*ssa.UnOp); ok && u.Op == token.NOT {
			cond, truth = u.X, !truth
			continue
		}
		break
	}
	b, ok := cond.(*ssa.BinOp)
	if !ok {
		return nil
	}
	isInt := func(v ssa.Value) bool { _, _, ok := typeRange(v.Type()); return ok }
	if !isInt(b.X) || !isInt(b.Y) {
		return nil
	}
	x, y := a.formOf(b.X), a.formOf(b.Y)
	op := b.Op
	if !truth {
		switch op {
		case token.LSS:
			op = token.GEQ
		case token.LEQ:
			op = token.GTR
		case token.GTR:
			op = token.LEQ
		case token.GEQ:
			op = token.LSS
		case token.EQL:
			op = token.NEQ
		case token.NEQ:
			op = token.EQL
		}
	}
	switch op {
	case token.LSS: // x < y  =>  y - x - 1 >= 0
		return []lin{y.sub(x).add(linConst(-1))}
	case token.LEQ:
		return []lin{y.sub(x)}
	case token.GTR:
		return []lin{x.sub(y).add(linConst(-1))}
	case token.GEQ:
		return []lin{x.sub(y)}
	case token.EQL:
		return []lin{x.sub(y), y.sub(x)}
	case token.NEQ:
		// x != y with a known one-sided bound: x >= y known  =>  x >= y+1
		d := x.sub(y)
		var at ssa.Instruction
		if ci, ok := cond.(ssa.Instruction); ok {
			at = ci
		}
		lo, hi := a.defsAt(at).singleBounds()
		if l, _ := d.bounds(lo, hi); l >= 0 {
			return []lin{d.add(linConst(-1))}
		}
		if _, h := d.bounds(lo, hi); h <= 0 {
			return []lin{d.scale(-1).add(linConst(-1))}
		}
	}
	return nil
}

func (a *boundsAn) edgeFacts(from, to *ssa.BasicBlock, in factSet) factSet {
	out := in.clone()
	t, ok := from.Instrs[len(from.Instrs)-1].(*ssa.If)
	if !ok || (from.Succs[0] == to && from.Succs[1] == to) {
		return out
	}
	truth := from.Succs[0] == to
	for _, f := range a.condFacts(t.Cond, truth) {
		out.addGE(f)
	}
	// success post-conditions of summarised callees on the nil-error edge
	key, pol := normCond(t.Cond)
	if key.op == token.EQL && key.y == nil && (truth == pol) {
		src := key.x
		if s := loadSource(src); s != nil {
			src = s
		}
		if call, _ := fromCall(src); call != nil {
			if g := staticCallee(&call.Call); g != nil && InModule(g) {
				if sum := a.eng.summary(g); sum != nil {
					for _, f := range sum.ensuresOK {
						if sub, ok := a.substitute(f, call, g); ok {
							out.addGE(sub)
						}
					}
				}
			}
		}
	}
	return out
}

func (a *boundsAn) need(ins ssa.Instruction, what string, e lin) {
	a.obs = append(a.obs, boundsOb{ins, what, e})
}

// collect gathers the obligations of one instruction.
func (a *boundsAn) collect(ins ssa.Instruction) {
	switch x := ins.(type) {
	case *ssa.IndexAddr:
		a.indexOb(ins, x.X, x.Index)
	case *ssa.Index:
		a.indexOb(ins, x.X, x.Index)
	case *ssa.Lookup:
		if b, ok := x.X.Type().Underlying().(*types.Basic); ok && b.Info()&types.IsString != 0 {
			a.indexOb(ins, x.X, x.Index)
		}
	case *ssa.Slice:
		l := a.lenOf(x.X)
		lo := linConst(0)
		if x.Low != nil {
			lo = a.formOf(x.Low)
			a.need(ins, "slice low bound >= 0", lo)
		}
		hi := l
		if x.High != nil {
			hi = a.formOf(x.High)
			a.need(ins, "slice high bound <= len", l.sub(hi))
		}
		if x.Low != nil {
			a.need(ins, "slice low <= high", hi.sub(lo))
		}
	case *ssa.MakeSlice:
		a.need(ins, "make length >= 0", a.formOf(x.Len))
	case *ssa.SliceToArrayPointer:
		if n, ok := arrayLen(x.Type()); ok {
			a.need(ins, fmt.Sprintf("conversion to [%d]T needs len >= %d", n, n), a.lenOf(x.X).add(linConst(-n)))
		}
	case *ssa.Call:
		id := calleeID(x)
		args := callArgs(&x.Call)
		if c, ok := minLenContracts[id]; ok && int(c[0]) < len(args) {
			a.need(ins, fmt.Sprintf("%s needs %d bytes", shortCallee(&x.Call), c[1]), a.lenOf(args[c[0]]).add(linConst(-c[1])))
		}
		if g := staticCallee(&x.Call); g != nil && InModule(g) && g.Blocks != nil {
			if sum := a.eng.summary(g); sum != nil {
				for _, r := range sum.requires {
					if sub, ok := a.substitute(r.e, x, g); ok {
						a.need(ins, fmt.Sprintf("pre-condition of %s (%s at %s)", FuncName(g), r.what, a.eng.P.InstrPos(r.ins)), sub)
					} else {
						a.need(ins, fmt.Sprintf("pre-condition of %s not expressible at this call (%s)", FuncName(g), r.what), linConst(-1))
					}
				}
			}
		}
	}
}

func (a *boundsAn) indexOb(ins ssa.Instruction, x, idx ssa.Value) {
	if _, isMap := x.Type().Underlying().(*types.Map); isMap {
		return
	}
	l := a.lenOf(x)
	i := a.formOf(idx)
	if i.isConst() && l.isConst() {
		if i.c >= 0 && i.c < l.c {
			return // constant index into a fixed-size array: checked by the compiler
		}
	}
	a.need(ins, "index >= 0", i)
	a.need(ins, "index < len", l.sub(i).add(linConst(-1)))
}

// summary analyses g (once) and returns its summary; nil while in progress (recursion) or for bodiless functions.
func (e *boundsEngine) summary(g *ssa.Function) *fnSummary {
	if s, ok := e.sums[g]; ok {
		if s.done {
			return s
		}
		return nil
	}
	if g.Blocks == nil || e.inProg[g] {
		return nil
	}
	e.inProg[g] = true
	s := &fnSummary{fn: g}
	e.sums[g] = s
	e.analyse(g, s)
	// assume-guarantee for loop counters that start at a parameter: if something stays
	// unproven, retry with every integer parameter that feeds an integer phi assumed >= 0;
	// when that helps, the assumption becomes a pre-condition checked at every call site
	if len(s.unproven) > 0 && len(e.P.Callers(g)) > 0 {
		var ps []*ssa.Parameter
		for _, b := range g.Blocks {
			for _, ins := range b.Instrs {
				if phi, ok := ins.(*ssa.Phi); ok && isIntType(phi.Type()) {
					for _, ed := range phi.Edges {
						if par, ok := ed.(*ssa.Parameter); ok && par.Parent() == g {
							dup := false
							for _, q := range ps {
								if q == par {
									dup = true
								}
							}
							if !dup {
								ps = append(ps, par)
							}
						}
					}
				}
			}
		}
		if len(ps) > 0 {
			s2 := &fnSummary{fn: g}
			e.assumeNonNeg = ps
			e.analyse(g, s2)
			e.assumeNonNeg = nil
			if len(s2.unproven) < len(s.unproven) {
				for _, par := range ps {
					s2.requires = append(s2.requires, boundsOb{ins: g.Blocks[0].Instrs[0], what: "parameter " + par.Name() + " >= 0 (start of a loop counter)", e: linSym(sym{canon(par), 'v'})})
				}
				*s = *s2
			}
		}
	}
	s.done = true
	delete(e.inProg, g)
	return s
}

func onlyParamSyms(f lin, g *ssa.Function) bool {
	for s := range f.t {
		switch x := s.v.(type) {
		case *ssa.Parameter:
			if x.Parent() != g {
				return false
			}
		case *ssa.UnOp:
			// a field path rooted at a parameter (s.frames): re-rooted at the call site
			if x.Op != token.MUL {
				return false
			}
			root, sels := accessPath(x)
			p, ok := root.(*ssa.Parameter)
			if !ok || p.Parent() != g || len(sels) == 0 {
				return false
			}
			for _, sl := range sels {
				if sl.Field == nil {
					return false
				}
			}
		default:
			return false
		}
	}
	return true
}

func (e *boundsEngine) analyse(g *ssa.Function, s *fnSummary) {
	a := &boundsAn{eng: e, fn: g, forms: map[ssa.Value]lin{}, lens: map[ssa.Value]lin{}, defSeen: map[string]bool{}, in: map[*ssa.BasicBlock]factSet{}}
	for _, par := range e.assumeNonNeg {
		if par.Parent() == g {
			a.anchor = nil
			a.addDef(a.sv(par, 'v'))
		}
	}
	if e.assume != nil {
		a.anchor = nil
		e.assume(a)
	}
	// pass 0: touch every value so that definition facts (contracts, inductions, copy/min) exist
	for _, b := range g.Blocks {
		for _, ins := range b.Instrs {
			if v, ok := ins.(ssa.Value); ok {
				if _, _, isInt := typeRange(v.Type()); isInt {
					a.formOf(v)
				} else {
					switch v.Type().Underlying().(type) {
					case *types.Slice:
						a.lenOf(v)
					}
				}
			}
			if call, ok := ins.(*ssa.Call); ok {
				a.callFacts(call)
			}
		}
	}
	a.phiIntervals()
	// block facts: forward intersection to a fixpoint
	a.in[g.Blocks[0]] = factSet{}
	for changed, it := true, 0; changed && it < 100; it++ {
		changed = false
		for _, b := range g.Blocks[1:] {
			var acc factSet
			first := true
			for _, pr := range b.Preds {
				pin, ok := a.in[pr]
				if !ok || blockAborts(pr) {
					continue
				}
				out := a.edgeFacts(pr, b, pin)
				if first {
					acc, first = out, false
				} else {
					acc = acc.intersect(out)
				}
			}
			if first {
				continue
			}
			// facts about values (re)defined in b are stale
			for k, f := range acc {
				for sy := range f.t {
					if v, ok := sy.v.(ssa.Value); ok && definedIn(v, b) {
						delete(acc, k)
						break
					}
				}
			}
			if old, ok := a.in[b]; !ok || !old.same(acc) {
				a.in[b] = acc
				changed = true
			}
		}
	}
	a.refine()
	a.refine()
	// obligations
	for _, b := range g.Blocks {
		facts, reached := a.in[b]
		if !reached {
			continue
		}
		a.obs = a.obs[:0]
		for _, ins := range b.Instrs {
			a.collect(ins)
		}
		for _, ob := range a.obs {
			all := facts.clone()
			for k, f := range a.defsAt(ob.ins) {
				all[k] = f
			}
			if proveGE(ob.e, all) || a.proveBySplit(ob.e, b, ob.ins, all, 0) || a.proveByMinSplit(ob.e, all, 0) || a.proveByAltSplit(ob.e, all) {
				s.proven++
				continue
			}
			if why, ok := boundsExempt[fmt.Sprintf("%s|%s", FuncName(g), ob.what)]; ok {
				s.proven++
				e.trusted["exempt site "+FuncName(g)+" ("+ob.what+"): "+why] = true
				continue
			}
			if onlyParamSyms(ob.e, g) && len(ob.e.t) > 0 && len(e.P.Callers(g)) > 0 {
				s.requires = append(s.requires, ob)
			} else {
				s.unproven = append(s.unproven, ob)
			}
		}
	}
	if e.extra != nil {
		for _, b := range g.Blocks {
			facts, reached := a.in[b]
			if !reached {
				continue
			}
			for _, ins := range b.Instrs {
				for _, ob := range e.extra(a, ins) {
					all := facts.clone()
					for k, f := range a.defsAt(ob.ins) {
						all[k] = f
					}
					if proveGE(ob.e, all) || a.proveBySplit(ob.e, b, ob.ins, all, 0) || a.proveByMinSplit(ob.e, all, 0) || a.proveByAltSplit(ob.e, all) {
						s.extraOK++
					} else {
						s.extraBad = append(s.extraBad, ob)
					}
				}
			}
		}
	}
	// post-conditions
	e.postconditions(a, g, s)
}

func isIntType(t types.Type) bool { _, _, ok := typeRange(t); return ok }

func isSliceLike(t types.Type) bool {
	switch u := t.Underlying().(type) {
	case *types.Slice:
		return true
	case *types.Basic:
		return u.Info()&types.IsString != 0
	}
	return false
}

func (e *boundsEngine) postconditions(a *boundsAn, g *ssa.Function, s *fnSummary) {
	type retInfo struct {
		facts   factSet
		res     map[sym]lin // result placeholder -> actual form at this return
		success bool
		failure bool
	}
	errIdx := errorResultIndex(g.Signature)
	var rets []retInfo
	for _, b := range g.Blocks {
		r, ok := b.Instrs[len(b.Instrs)-1].(*ssa.Return)
		if !ok {
			continue
		}
		facts, reached := a.in[b]
		if !reached {
			continue
		}
		all := facts.clone()
		for k, f := range a.defsAt(r) {
			all[k] = f
		}
		ri := retInfo{facts: all, res: map[sym]lin{}, success: true}
		for k, rv := range r.Results {
			if isIntType(rv.Type()) {
				ri.res[sym{resKey{g, k}, 'v'}] = a.formOf(rv)
			} else if isSliceLike(rv.Type()) {
				ri.res[sym{resKey{g, k}, 'l'}] = a.lenOf(rv)
			}
		}
		if errIdx >= 0 && errIdx < len(r.Results) {
			ev := r.Results[errIdx]
			switch {
			case isNilConst(ev):
			case nilness(nil, ev, 0, nil, 0) == nonNil:
				ri.success, ri.failure = false, true
			default:
				// unknown: may be either
			}
		}
		rets = append(rets, ri)
	}
	if len(rets) == 0 {
		return
	}
	internal := func(f lin) bool {
		for sy := range f.t {
			switch x := sy.v.(type) {
			case resKey:
			case *ssa.Parameter:
				if x.Parent() != g {
					return true
				}
			case *ssa.UnOp:
				// field path rooted at a parameter, not written by g: same value before and after the call
				root, sels := accessPath(x)
				p, ok := root.(*ssa.Parameter)
				if !ok || p.Parent() != g || len(sels) == 0 || x.Op != token.MUL {
					return true
				}
				for _, sl := range sels {
					if sl.Field == nil {
						return true
					}
				}
				if e.mayWriteField(g, sels[len(sels)-1].Field) {
					return true
				}
			default:
				return true
			}
		}
		return false
	}
	// candidates
	cands := map[string]lin{}
	addCand := func(f lin) {
		if !internal(f) && !f.isConst() {
			cands[f.key()] = f
		}
	}
	for _, ri := range rets {
		var rsyms []sym
		for rs := range ri.res {
			rsyms = append(rsyms, rs)
		}
		// result == form, result vs parameter lengths
		for _, rs := range rsyms {
			rf := ri.res[rs]
			{
				lo, hi := ri.facts.singleBounds()
				l, h := rf.bounds(lo, hi)
				if l > -1<<40 && l < 1<<40 {
					addCand(linSym(rs).add(linConst(-l)))
				}
				if h > -1<<40 && h < 1<<40 {
					addCand(linConst(h).sub(linSym(rs)))
				}
			}
			addCand(linSym(rs).sub(rf))
			addCand(rf.sub(linSym(rs)))
			addCand(linSym(rs))
			for _, p := range g.Params {
				if isSliceLike(p.Type()) {
					addCand(linSym(sym{p, 'l'}).sub(linSym(rs)))
				}
			}
		}
		// facts with internal symbols eliminated through result forms
		for _, f := range ri.facts {
			if !internal(f) {
				addCand(f)
				continue
			}
			for _, rs := range rsyms {
				rf := ri.res[rs]
				if !internal(rf) {
					continue
				}
				for _, j := range []int64{-2, -1, 1, 2} {
					// f + j*(rs - rf)
					addCand(f.add(linSym(rs).sub(rf).scale(j)))
				}
			}
		}
	}
	holdsAt := func(cnd lin, ri retInfo) bool {
		// substitute result placeholders by the actual forms
		sub := linConst(cnd.c)
		for sy, k := range cnd.t {
			if rf, ok := ri.res[sy]; ok {
				sub = sub.add(rf.scale(k))
			} else if _, isRes := sy.v.(resKey); isRes {
				return false
			} else {
				sub = sub.add(linSym(sy).scale(k))
			}
		}
		return proveGE(sub, ri.facts)
	}
	var keys []string
	for k := range cands {
		keys = append(keys, k)
	}
	sort.Strings(keys)
	for _, k := range keys {
		cnd := cands[k]
		okAll, okSucc := true, true
		nSucc := 0
		for _, ri := range rets {
			h := holdsAt(cnd, ri)
			if !h {
				okAll = false
				if ri.success {
					okSucc = false
				}
			}
			if ri.success {
				nSucc++
			}
		}
		if okAll {
			s.ensuresAl = append(s.ensuresAl, cnd)
			s.ensuresOK = append(s.ensuresOK, cnd)
		} else if okSucc && nSucc > 0 {
			s.ensuresOK = append(s.ensuresOK, cnd)
		}
	}
}

// blockAborts: the block ends the goroutine (explicit panic or logrus.Panic*/Fatal*): nothing flows out of it.
func blockAborts(b *ssa.BasicBlock) bool {
	for _, ins := range b.Instrs {
		switch x := ins.(type) {
		case *ssa.Panic:
			return true
		case *ssa.Call:
			f := calleeFunc(&x.Call)
			if f != nil && f.Pkg() != nil && f.Pkg().Path() == "github.com/sirupsen/logrus" {
				n := f.Name()
				if len(n) >= 5 && (n[:5] == "Panic" || n[:5] == "Fatal") {
					return true
				}
			}
		}
	}
	return false
}

// boundsExempt: sites outside the linear-offset vocabulary, each with the reason it is safe.
var boundsExempt = map[string]string{
	"tubes.(*Reliable).send|index < len":                                 "retransmission loops index r.sender.frames below framesToSend(...,0), which clamps its result to len(s.frames), or below len(r.sender.frames) itself; r.l is held throughout, so the slice cannot shrink in between (lock discipline: C16.R3); timer-driven, not a function of a single peer frame",
	"transport.(*SessionState).sealPacketLocked|slice high bound <= len": "rawWrite was Reset and then received HeaderLen+SessionIDLen+CounterLen = AssociatedDataLen bytes through bytes.Buffer writes just above (bytes.Buffer contents are not modelled); not dependent on peer input (send path)",
}

// phiIntervals: optimistic interval fixpoint over the integer phis (loop
// counters, backtrack marks): finds inductive constant lower / upper bounds and
// records them as definition facts.
func (a *boundsAn) phiIntervals() {
	var phis []*ssa.Phi
	for _, b := range a.fn.Blocks {
		for _, ins := range b.Instrs {
			if p, ok := ins.(*ssa.Phi); ok && isIntType(p.Type()) {
				phis = append(phis, p)
			}
		}
	}
	if len(phis) == 0 {
		return
	}
	const inf = int64(1) << 60
	for _, dir := range []int{-1, 1} { // -1: lower bounds, 1: upper bounds
		cur := map[sym]int64{}
		known := map[sym]bool{}
		for it := 0; it < 12; it++ {
			changed := false
			for _, p := range phis {
				s := sym{canon(p), 'v'}
				best := int64(0)
				have := false
				unknownEdge := false
				for _, e := range p.Edges {
					f := a.formOf(e)
					// bound of f using current phi bounds
					lo, hi := map[sym]int64{}, map[sym]int64{}
					skip := false
					for sy := range f.t {
						if ph, isPhi := sy.v.(*ssa.Phi); isPhi && sy.kind == 'v' && isIntType(ph.Type()) {
							if !known[sy] {
								skip = true
							} else if dir < 0 {
								lo[sy] = cur[sy]
							} else {
								hi[sy] = cur[sy]
							}
						}
					}
					if skip {
						unknownEdge = true
						continue
					}
					dl, dh := a.defsAt(p).singleBounds()
					for k, v := range dl {
						if _, ok := lo[k]; !ok {
							lo[k] = v
						}
					}
					for k, v := range dh {
						if _, ok := hi[k]; !ok {
							hi[k] = v
						}
					}
					l, h := f.bounds(lo, hi)
					v := l
					if dir > 0 {
						v = h
					}
					if !have || (dir < 0 && v < best) || (dir > 0 && v > best) {
						best, have = v, true
					}
				}
				_ = unknownEdge
				if !have {
					continue
				}
				if !known[s] || cur[s] != best {
					// widening: a bound that keeps moving is dropped
					if known[s] && it >= 6 {
						if dir < 0 {
							best = -inf * 4
						} else {
							best = inf * 4
						}
					}
					if !known[s] || cur[s] != best {
						cur[s], known[s] = best, true
						changed = true
					}
				}
			}
			if !changed {
				break
			}
		}
		// verify inductiveness and record
		for _, p := range phis {
			s := sym{canon(p), 'v'}
			if !known[s] || cur[s] <= -inf || cur[s] >= inf {
				continue
			}
			ok := true
			for _, e := range p.Edges {
				f := a.formOf(e)
				lo, hi := a.defsAt(p).singleBounds()
				for sy := range f.t {
					if known[sy] {
						if dir < 0 {
							lo[sy] = cur[sy]
						} else {
							hi[sy] = cur[sy]
						}
					}
				}
				l, h := f.bounds(lo, hi)
				if (dir < 0 && l < cur[s]) || (dir > 0 && h > cur[s]) {
					ok = false
				}
			}
			if ok {
				a.anchor = p
				if dir < 0 {
					a.addDef(linSym(s).add(linConst(-cur[s])))
				} else {
					a.addDef(linConst(cur[s]).sub(linSym(s)))
				}
				a.anchor = nil
			}
		}
	}
}

// proveBySplit: case split on the incoming edge of a (non-header) phi mentioned
// in e. For each edge the phi equals that edge's value and that predecessor's
// facts hold; facts / values that may be recomputed after the phi's block are
// not carried over.
func (a *boundsAn) proveBySplit(e lin, at *ssa.BasicBlock, atIns ssa.Instruction, facts factSet, depth int) bool {
	if depth > 2 {
		return false
	}
	for sy := range e.t {
		phi, ok := sy.v.(*ssa.Phi)
		if !ok || phi.Parent() != a.fn {
			continue
		}
		M := phi.Block()
		if !(M == at || M.Dominates(at)) {
			continue
		}
		// all phis of M switch together
		var group []*ssa.Phi
		for _, ins := range M.Instrs {
			if p, ok := ins.(*ssa.Phi); ok {
				group = append(group, p)
			} else {
				break
			}
		}
		stale := func(f lin) bool {
			for s2 := range f.t {
				if v, ok := s2.v.(ssa.Value); ok {
					if ins, ok := v.(ssa.Instruction); ok && ins.Block() != nil {
						if ins.Block() == M || M.Dominates(ins.Block()) {
							return true
						}
					}
				}
			}
			return false
		}
		allOK := true
		nEdges := 0
		for i, pred := range M.Preds {
			pin, reached := a.in[pred]
			if !reached || blockAborts(pred) {
				continue
			}
			nEdges++
			// a back edge of a loop whose header carries the phi (rotated loops: header == body): the
			// incoming values and the edge condition speak about the previous iteration. The step is
			// sound if the goal mentions, of the loop's own values, only the header phis, and only
			// loop-invariant facts are used next to the edge condition.
			back := M == pred || M.Dominates(pred)
			if back {
				onlyPhis := true
				for s2 := range e.t {
					if v, ok := s2.v.(ssa.Value); ok {
						if ins, ok := v.(ssa.Instruction); ok && ins.Block() != nil && (ins.Block() == M || M.Dominates(ins.Block())) {
							if p2, isPhi := v.(*ssa.Phi); !isPhi || p2.Block() != M {
								onlyPhis = false
							}
						}
					}
				}
				if !onlyPhis {
					allOK = false
					break
				}
			}
			subst := func(f lin) (lin, bool) {
				out := linConst(f.c)
				for s2, k := range f.t {
					repl := linSym(s2)
					if p2, ok := s2.v.(*ssa.Phi); ok && p2.Block() == M {
						for _, gp := range group {
							if canon(gp) == s2.v {
								var ef lin
								if s2.kind == 'l' {
									ef = a.lenOf(gp.Edges[i])
								} else {
									ef = a.formOf(gp.Edges[i])
								}
								if stale(ef) && !back {
									return lin{}, false
								}
								repl = ef
							}
						}
					}
					out = out.add(repl.scale(k))
				}
				return out, true
			}
			e2, ok := subst(e)
			if !ok {
				allOK = false
				break
			}
			F := factSet{}
			if back {
				// the edge condition (previous iteration) and loop-invariant facts only
				for _, f := range a.edgeFacts(pred, M, factSet{}) {
					F.addGE(f)
				}
				for _, f := range facts {
					if !stale(f) {
						F.addGE(f)
					}
				}
				for _, f := range a.defsAt(atIns) {
					if !stale(f) {
						F.addGE(f)
					}
				}
			} else {
				for _, f := range a.edgeFacts(pred, M, pin) {
					if !stale(f) {
						F.addGE(f)
					}
				}
				for _, f := range facts {
					if f2, ok := subst(f); ok {
						F.addGE(f2)
					}
				}
				for _, f := range a.defsAt(atIns) {
					if f2, ok := subst(f); ok {
						F.addGE(f2)
					}
				}
			}
			if !proveGE(e2, F) {
				if os.Getenv("HOPVERIF_DEBUG") != "" {
					for _, d := range a.defs {
						fmt.Fprintf(os.Stderr, "   def %s >= 0 anchor=%v\n", d.f, d.anchor)
					}
					fmt.Fprintf(os.Stderr, "split fail: phi-block %d pred %d: need %s >= 0 with facts:\n", M.Index, pred.Index, e2)
					for _, f := range F {
						fmt.Fprintf(os.Stderr, "    %s >= 0\n", f)
					}
				}
				allOK = false
				break
			}
		}
		if allOK && nEdges > 0 {
			return true
		}
	}
	return false
}

// constSliceLen: length of v if it is make([]T, C) in either of go/ssa's shapes.
func constSliceLen(v ssa.Value) (int64, bool) {
	switch x := strip(v).(type) {
	case *ssa.MakeSlice:
		return constInt(x.Len)
	case *ssa.Slice:
		lo := int64(0)
		if x.Low != nil {
			l, ok := constInt(x.Low)
			if !ok {
				return 0, false
			}
			lo = l
		}
		if x.High != nil {
			if h, ok := constInt(x.High); ok {
				return h - lo, true
			}
			return 0, false
		}
		if n, ok := arrayLen(x.X.Type()); ok {
			return n - lo, true
		}
	}
	return 0, false
}

// mayWriteField: can fn (transitively, through module callees) store to field f?
func (e *boundsEngine) mayWriteField(fn *ssa.Function, f *types.Var) bool {
	if e.writes == nil {
		e.writes = map[*ssa.Function]map[*types.Var]bool{}
	}
	seen := map[*ssa.Function]bool{}
	var rec func(g *ssa.Function, depth int) bool
	rec = func(g *ssa.Function, depth int) bool {
		if g == nil || seen[g] {
			return false
		}
		seen[g] = true
		if !InModule(g) {
			return false // library code does not know the module's fields (callbacks into the module are not followed)
		}
		if g.Blocks == nil {
			return false
		}
		if depth > 12 {
			return true
		}
		for _, b := range g.Blocks {
			for _, ins := range b.Instrs {
				if st, ok := ins.(*ssa.Store); ok {
					if fa, ok := st.Addr.(*ssa.FieldAddr); ok && fieldOf(fa.X.Type(), fa.Field) == f {
						return true
					}
				}
			}
		}
		if n := e.P.CG().Nodes[g]; n != nil {
			for _, edge := range n.Out {
				if _, isGo := edge.Site.(*ssa.Go); isGo {
					continue
				}
				if rec(edge.Callee.Func, depth+1) {
					return true
				}
			}
		}
		return false
	}
	return rec(fn, 0)
}

// reachingField: for a load of a field path, the value that field holds at the
// load according to the closest preceding store / load of the same access path
// (same block or a chain of unique predecessors), skipping calls that cannot
// write the field. nil if unknown.
func (a *boundsAn) reachingField(load *ssa.UnOp) ssa.Value {
	fa, ok := load.X.(*ssa.FieldAddr)
	if !ok {
		return nil
	}
	return a.fieldValueBefore(load, apString(load), fieldOf(fa.X.Type(), fa.Field))
}

func (a *boundsAn) fieldValueBefore(at ssa.Instruction, ap string, f *types.Var) ssa.Value {
	b := at.Block()
	idx := instrIndex(at)
	for hops := 0; hops < 8; hops++ {
		for k := idx - 1; k >= 0; k-- {
			switch x := b.Instrs[k].(type) {
			case *ssa.Store:
				if fa, ok := x.Addr.(*ssa.FieldAddr); ok && fieldOf(fa.X.Type(), fa.Field) == f {
					if apString(fa) == ap {
						return x.Val
					}
					return nil // same field of possibly another object
				}
			case *ssa.UnOp:
				if x.Op == token.MUL {
					if _, ok := x.X.(*ssa.FieldAddr); ok && apString(x) == ap {
						return x
					}
				}
			case *ssa.Call:
				if _, isB := x.Call.Value.(*ssa.Builtin); isB {
					continue
				}
				if g := staticCallee(&x.Call); g != nil {
					if a.eng.mayWriteField(g, f) {
						return nil
					}
					continue
				}
				// dynamic call: resolve through the call graph
				wrote := false
				if n := a.eng.P.CG().Nodes[a.fn]; n != nil {
					for _, e := range n.Out {
						if e.Site == ssa.CallInstruction(x) && a.eng.mayWriteField(e.Callee.Func, f) {
							wrote = true
						}
					}
				}
				if wrote {
					return nil
				}
			case *ssa.Go, *ssa.Defer:
				// started concurrently / later: the module's own locking discipline is the subject of E5
			}
		}
		if len(b.Preds) != 1 {
			return nil
		}
		b = b.Preds[0]
		idx = len(b.Instrs)
	}
	return nil
}

// canonicalFieldLoad: if the analysed function never stores to field f, any load
// with access path ap stands for the field's value throughout the function.
func (a *boundsAn) canonicalFieldLoad(ap string, f *types.Var) ssa.Value {
	for _, b := range a.fn.Blocks {
		for _, ins := range b.Instrs {
			if st, ok := ins.(*ssa.Store); ok {
				if fa, ok := st.Addr.(*ssa.FieldAddr); ok && fieldOf(fa.X.Type(), fa.Field) == f {
					return nil
				}
			}
		}
	}
	for _, b := range a.fn.Blocks {
		for _, ins := range b.Instrs {
			if u, ok := ins.(*ssa.UnOp); ok && u.Op == token.MUL {
				if _, ok := u.X.(*ssa.FieldAddr); ok && apString(u) == ap {
					return canon(u)
				}
			}
		}
	}
	return nil
}

// refine adds definition facts that need the block facts of the finished fixpoint:
//
//	monotone shifts   p = X >> n, q = Y >> n (or / by the same positive constant): X >= Y at the later of
//	                  the two  =>  p >= q  (floor division by a positive constant is monotone)
//	exact unsigned    v = X - Y of an unsigned type, kept opaque because it may wrap: X >= Y at v  =>
//	subtraction       v == X - Y
//	clamps            p = phi(v1, v2, ...) at a join that is not a loop header: if on every other edge j
//	                  v_j <= v_i holds, then p <= v_i (likewise >=): `if d > K { d = K }` gives d' <= d
//	                  and d' <= K
//
// Each fact is anchored at the value it speaks about, so it is used only where that value is defined.
func (a *boundsAn) refine() {
	factsAt := func(ins ssa.Instruction) factSet {
		F := a.defsAt(ins).clone()
		if in, ok := a.in[ins.Block()]; ok {
			for _, f := range in {
				F.addGE(f)
			}
		}
		return F
	}
	type shiftOp struct {
		b   *ssa.BinOp
		key string
	}
	var shifts []shiftOp
	var subs []*ssa.BinOp
	var phis []*ssa.Phi
	for _, blk := range a.fn.Blocks {
		if _, reached := a.in[blk]; !reached {
			continue
		}
		for _, ins := range blk.Instrs {
			switch x := ins.(type) {
			case *ssa.BinOp:
				if _, _, isInt := typeRange(x.Type()); !isInt {
					continue
				}
				switch x.Op {
				case token.SHR, token.QUO:
					if n, ok := constInt(x.Y); ok && n > 0 && (x.Op == token.QUO || n < 62) {
						shifts = append(shifts, shiftOp{x, fmt.Sprintf("%v|%d", x.Op, n)})
					}
				case token.SUB:
					if l, _, _ := typeRange(x.Type()); l == 0 {
						subs = append(subs, x)
					}
				}
			case *ssa.Phi:
				if _, _, isInt := typeRange(x.Type()); isInt && len(x.Edges) >= 2 {
					phis = append(phis, x)
				}
			}
		}
	}
	saved := a.anchor
	defer func() { a.anchor = saved }()
	for i, p := range shifts {
		for _, q := range shifts[i+1:] {
			if p.key != q.key {
				continue
			}
			var later *ssa.BinOp
			switch {
			case dominatesInstr(p.b, q.b):
				later = q.b
			case dominatesInstr(q.b, p.b):
				later = p.b
			default:
				continue
			}
			F := factsAt(later)
			xp, xq := a.formOf(p.b.X), a.formOf(q.b.X)
			sp, sq := a.sv(p.b, 'v'), a.sv(q.b, 'v')
			a.anchor = later
			if proveGE(xp.sub(xq), F) {
				a.addDef(sp.sub(sq))
			}
			if proveGE(xq.sub(xp), F) {
				a.addDef(sq.sub(sp))
			}
		}
	}
	for _, v := range subs {
		s := a.sv(v, 'v')
		if !a.formOf(v).equal(s) {
			continue // already exact
		}
		d := a.formOf(v.X).sub(a.formOf(v.Y))
		if _, self := d.t[sym{canon(v), 'v'}]; self {
			continue
		}
		if proveGE(d, factsAt(v)) {
			a.anchor = v
			a.addDef(s.sub(d))
			a.addDef(d.sub(s))
		}
	}
	for _, p := range phis {
		M := p.Block()
		header := false
		for _, pr := range M.Preds {
			if M.Dominates(pr) {
				header = true
			}
		}
		if header {
			continue
		}
		s := a.sv(p, 'v')
		availableAtM := func(f lin) bool {
			for sy := range f.t {
				v, ok := sy.v.(ssa.Value)
				if !ok {
					continue
				}
				if ins, ok := v.(ssa.Instruction); ok && ins.Block() != nil {
					if ins.Block() == M || !ins.Block().Dominates(M) {
						return false
					}
				}
			}
			return true
		}
		for i := range p.Edges {
			cand := a.formOf(p.Edges[i])
			if !availableAtM(cand) {
				continue
			}
			if _, self := cand.t[sym{canon(p), 'v'}]; self {
				continue
			}
			upper, lower := true, true
			for j := range p.Edges {
				if j == i {
					continue
				}
				pred := M.Preds[j]
				pin, reached := a.in[pred]
				if !reached || blockAborts(pred) {
					continue
				}
				F := a.edgeFacts(pred, M, pin)
				for _, f := range a.defsAt(pred.Instrs[len(pred.Instrs)-1]) {
					F.addGE(f)
				}
				ej := a.formOf(p.Edges[j])
				if upper && !proveGE(cand.sub(ej), F) {
					upper = false
				}
				if lower && !proveGE(ej.sub(cand), F) {
					lower = false
				}
			}
			a.anchor = p
			if upper {
				a.addDef(cand.sub(s))
			}
			if lower {
				a.addDef(s.sub(cand))
			}
		}
	}
}

// proveByMinSplit: case split on a min / max builtin mentioned in e. min(a1..an) equals one of its
// arguments, and that argument is then <= all the others (>= for max); e must hold in every case.
func (a *boundsAn) proveByMinSplit(e lin, facts factSet, depth int) bool {
	if depth > 1 {
		return false
	}
	for sy := range e.t {
		v, ok := sy.v.(ssa.Value)
		if !ok || sy.kind != 'v' {
			continue
		}
		call, ok := v.(*ssa.Call)
		if !ok {
			continue
		}
		b, ok := call.Call.Value.(*ssa.Builtin)
		if !ok || (b.Name() != "min" && b.Name() != "max") || len(call.Call.Args) < 2 {
			continue
		}
		s := linSym(sy)
		coef := e.t[sy]
		all := true
		for k, arg := range call.Call.Args {
			ak := a.formOf(arg)
			if _, self := ak.t[sy]; self {
				all = false
				break
			}
			F := facts.clone()
			for j, other := range call.Call.Args {
				if j == k {
					continue
				}
				d := a.formOf(other).sub(ak)
				if b.Name() == "max" {
					d = d.scale(-1)
				}
				F.addGE(d)
			}
			e2 := e.sub(s.scale(coef)).add(ak.scale(coef))
			if !(proveGE(e2, F) || a.proveByMinSplit(e2, F, depth+1)) {
				all = false
				break
			}
		}
		if all {
			return true
		}
	}
	return false
}

// selectorForms: g has a single integer result and every return hands back (through phis that are not loop
// headers) one of g's integer parameters or a constant. The call's result then equals one of the
// corresponding arguments / constants; which one is not modelled.
func (a *boundsAn) selectorForms(call *ssa.Call, g *ssa.Function) ([]lin, bool) {
	if g.Blocks == nil || g.Signature.Results().Len() != 1 || !InModule(g) {
		return nil, false
	}
	var forms []lin
	seen := map[ssa.Value]bool{}
	var leaf func(v ssa.Value, depth int) bool
	leaf = func(v ssa.Value, depth int) bool {
		if depth > 4 || len(forms) > 4 {
			return false
		}
		if seen[v] {
			return true
		}
		seen[v] = true
		switch x := v.(type) {
		case *ssa.Const:
			n, ok := constInt(x)
			if !ok {
				return false
			}
			forms = append(forms, linConst(n))
			return true
		case *ssa.Parameter:
			for i, p := range g.Params {
				if p == x && i < len(call.Call.Args) {
					forms = append(forms, a.formOf(call.Call.Args[i]))
					return true
				}
			}
			return false
		case *ssa.Phi:
			for _, pr := range x.Block().Preds {
				if x.Block().Dominates(pr) {
					return false // loop header
				}
			}
			for _, e := range x.Edges {
				if !leaf(e, depth+1) {
					return false
				}
			}
			return true
		}
		return false
	}
	n := 0
	for _, b := range g.Blocks {
		r, ok := b.Instrs[len(b.Instrs)-1].(*ssa.Return)
		if !ok {
			continue
		}
		n++
		if len(r.Results) != 1 || !leaf(r.Results[0], 0) {
			return nil, false
		}
	}
	if n == 0 || len(forms) < 2 || len(forms) > 4 {
		return nil, false
	}
	return forms, true
}

// proveByAltSplit: case split over a call result that equals one of a few known forms.
func (a *boundsAn) proveByAltSplit(e lin, facts factSet) bool {
	for sy, coef := range e.t {
		forms, ok := a.alts[sy]
		if !ok {
			continue
		}
		all := true
		for _, f := range forms {
			e2 := e.sub(linSym(sy).scale(coef)).add(f.scale(coef))
			if !(proveGE(e2, facts) || a.proveByMinSplit(e2, facts, 0)) {
				all = false
				break
			}
		}
		if all {
			return true
		}
	}
	return false
}
