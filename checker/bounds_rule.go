package main

import (
	"fmt"
	"sort"
	"strings"

	"golang.org/x/tools/go/ssa"
)

// boundsRule runs E2 over the functions selected by pick among those reachable
// from roots (following module callees in scope), and reports every unproven
// bounds obligation.
func boundsRule(c *Ctx, rule string, roots []*ssa.Function, scope map[string]bool, judged func(fn *ssa.Function) bool) {
	P := c.P
	for _, r := range roots {
		if r == nil {
			c.Undecided(rule, "entry function", "an entry function was not found")
			return
		}
	}
	parent := P.Reach(roots, func(caller, callee *ssa.Function) bool {
		return InModule(callee) && scope[relPkg(callee)]
	})
	var fns []*ssa.Function
	for f := range parent {
		if f.Blocks != nil && f.Synthetic == "" && judged(f) {
			fns = append(fns, f)
		}
	}
	sort.Slice(fns, func(i, j int) bool { return FuncName(fns[i]) < FuncName(fns[j]) })
	eng := newBoundsEngine(P)
	nOb, nFn := 0, 0
	type rec struct {
		fn  *ssa.Function
		sum *fnSummary
	}
	var recs []rec
	seen := map[*ssa.Function]bool{}
	var queue []*ssa.Function
	queue = append(queue, fns...)
	for len(queue) > 0 {
		f := queue[0]
		queue = queue[1:]
		if seen[f] {
			continue
		}
		seen[f] = true
		sum := eng.summary(f)
		if sum == nil {
			continue
		}
		recs = append(recs, rec{f, sum})
		// live callers of a function with pre-conditions must be analysed too
		if len(sum.requires) > 0 {
			for _, e := range P.LiveCallers(f) {
				if !seen[e.Caller.Func] {
					queue = append(queue, e.Caller.Func)
				}
			}
		}
	}
	sort.Slice(recs, func(i, j int) bool { return FuncName(recs[i].fn) < FuncName(recs[j].fn) })
	for _, r := range recs {
		nFn++
		name := FuncName(r.fn)
		c.Analysed(name)
		nOb += r.sum.proven + len(r.sum.unproven) + len(r.sum.requires)
		cnt := map[string]int{}
		// unmet pre-conditions of one callee at one call site are one finding
		type grp struct {
			ins   ssa.Instruction
			what  string
			lines []string
		}
		var groups []*grp
		byKey := map[string]*grp{}
		for _, ob := range r.sum.unproven {
			what := ob.what
			if strings.HasPrefix(what, "pre-condition of ") {
				callee := strings.TrimPrefix(what, "pre-condition of ")
				if i := strings.Index(callee, " ("); i >= 0 {
					callee = callee[:i]
				}
				if i := strings.Index(callee, " not expressible"); i >= 0 {
					callee = callee[:i]
				}
				k := fmt.Sprintf("%p|%s", ob.ins, callee)
				g := byKey[k]
				if g == nil {
					g = &grp{ins: ob.ins, what: "call:" + callee}
					byKey[k] = g
					groups = append(groups, g)
				}
				g.lines = append(g.lines, fmt.Sprintf("needs %s >= 0 for %s", ob.e.String(), ob.what))
				continue
			}
			groups = append(groups, &grp{ins: ob.ins, what: what, lines: []string{fmt.Sprintf("needs %s >= 0", ob.e.String())}})
		}
		for _, g := range groups {
			cnt[g.what]++
			cons := fmt.Sprintf("%s#%s#%d", name, shortWhat(g.what), cnt[g.what])
			if strings.HasPrefix(g.what, "call:") {
				c.Fail(rule, cons, P.InstrPos(g.ins), fmt.Sprintf("the length pre-conditions of %s are not established at this call (%d unmet): a short or inconsistent peer-supplied buffer makes an index/slice/make in the callee go out of range and panic", strings.TrimPrefix(g.what, "call:"), len(g.lines)), g.lines...)
			} else {
				c.Fail(rule, cons, P.InstrPos(g.ins), fmt.Sprintf("cannot show that %s holds here (%s): peer-chosen lengths can make this index/slice/make go out of range and panic", g.what, g.lines[0]))
			}
		}
		if len(r.sum.unproven) == 0 {
			det := fmt.Sprintf("%d bounds obligations discharged", r.sum.proven)
			if len(r.sum.requires) > 0 {
				det += fmt.Sprintf(", %d pre-condition(s) passed to callers", len(r.sum.requires))
			}
			c.OK(rule, name+"#bounds", P.Pos(r.fn.Pos()), det)
		}
	}
	c.extra[rule+"_obligations"] = nOb
	c.extra[rule+"_functions"] = nFn
	var tr []string
	for t := range eng.trusted {
		tr = append(tr, t)
	}
	sort.Strings(tr)
	for _, t := range tr {
		c.Trust("contract: " + t)
	}
	if len(scope) > 0 {
		c.Floor(rule, "functions under the bounds analysis", nFn, 10)
	}
}

func shortWhat(w string) string {
	if len(w) > 90 {
		w = w[:90]
	}
	return w
}

func c10Bounds(c *Ctx) {
	P := c.P
	c.Rule("C10.R1", "memory safety of the datagram parsers: every index, slice, make and fixed-width accessor in the transport / pkg/glob functions reachable from the datagram handlers is in bounds for every datagram length and content (E2 linear-offset analysis with pre-/post-conditions across calls)")
	roots := []*ssa.Function{P.Func("transport", "(*Server).readPacket"), P.Func("transport", "(*Client).listen"), P.Func("transport", "(*Client).clientHandshakeLocked")}
	boundsRule(c, "C10.R1", roots, c10Scope, func(fn *ssa.Function) bool {
		rp := relPkg(fn)
		return rp == "transport" || rp == "pkg/glob"
	})
}

func c11Bounds(c *Ctx) {
	P := c.P
	// fromInitiateBytes re-parses frame.toBytes() of a frame that fromBytes decoded; its bounds
	// depend on that content relation (len = 12 + dataLength), which the linear engine cannot
	// express. Checked side condition: every live call site passes (*frame).toBytes().
	if fib := P.Func("tubes", "fromInitiateBytes"); fib != nil {
		okAll, n := true, 0
		for _, e := range P.LiveCallers(fib) {
			if e.Site == nil {
				continue
			}
			n++
			call, _ := fromCall(e.Site.Common().Args[0])
			if call == nil || calleeID(call) != hopID("tubes", "frame", "toBytes") {
				okAll = false
				c.Fail("C11.R1", "call:fromInitiateBytes@"+FuncName(e.Caller.Func), P.InstrPos(e.Site), "fromInitiateBytes is applied to bytes that are not the re-encoding of a decoded frame: it slices by the peer's length field without any check")
			}
		}
		if okAll {
			c.OK("C11.R1", "call:fromInitiateBytes", P.Pos(fib.Pos()), fmt.Sprintf("all %d live call sites pass frame.toBytes() of a decoded frame", n))
		}
		boundsExempt["tubes.fromInitiateBytes|slice high bound <= len"] = "argument is frame.toBytes() of a frame decoded by fromBytes (checked at every call site): len(b) = 12 + dataLength >= 10 + dataLength"
		boundsExempt["tubes.fromInitiateBytes|slice low <= high"] = "as above; 10+dataLength cannot wrap because fromBytes bounds dataLength by len-12 <= 65523"
	}
	c.Rule("C11.R1", "memory safety of frame handling: every index, slice and make in the tubes functions reachable from Muxer.receiver is in bounds for every frame (E2)")
	roots := []*ssa.Function{P.Func("tubes", "(*Muxer).receiver")}
	boundsRule(c, "C11.R1", roots, c11Scope, func(fn *ssa.Function) bool {
		return relPkg(fn) == "tubes"
	})
}

// boundsRuleFns runs E2 over an explicit list of functions.
func boundsRuleFns(c *Ctx, rule string, fns []*ssa.Function) {
	boundsRule(c, rule, fns, map[string]bool{}, func(fn *ssa.Function) bool {
		for _, f := range fns {
			if f == fn {
				return true
			}
		}
		return false
	})
}
