package main

// C12 — Kravatte-SANSE AEAD is correct, tamper-evident and sensitive to the whole key.

import (
	"fmt"
	"go/token"
	"go/types"

	"golang.org/x/tools/go/ssa"
)

func init() { register("C12", checkC12) }

func checkC12(c *Ctx) {
	P := c.P
	c.Rule("C12.R1", "full-width, checked tag comparison: unwrap returns 0 only through the ==1 edge of a constant-time comparison of the whole computed tag (filled by Vatte with TagSize*8 bits) with the unsliced tag argument; Open hands it exactly the last TagSize bytes under total >= TagSize and turns a non-zero result into (nil, error) (E1 + E2 facts)")
	c.Rule("C12.R2", "no aliasing into wrap/unwrap: the data and tag buffers Seal/Open pass down are slices of a buffer allocated in that call (make + copy), never of a caller argument (def-use roots)")
	c.Rule("C12.R3", "byte-granular state writers preserve the rest of the lane: in snp.StateSetByte / StateAddByte / cyclist.stateAddByte the value stored to state[lane] depends on the previous value of that lane (read-modify-write); RefMaskInitialize hands the whole key to StateSetBytes and pads at len(key) (def-use)")
	c.Rule("C12.R5", "no shift drops a byte on its way into the state: in every function of snp / kravatte / cyclist that stores into a lane of the [25]uint64 state, each shift by a variable count is provably below the width of the shifted value; Go defines an over-wide shift as 0, so a miscounted byte position silently loses key or data bytes instead of trapping (E2 obligations)")
	c.Rule("C12.R4", "session parity stays in step: wrap and unwrap flip s.e exactly once on every path that returns 0 (the two ends of a session run one wrap against one unwrap per message; a path of one of them that skips the flip, for one class of messages, makes every later message of the session fail to open) (E1 counting, sibling agreement)")
	c12Parity(c)
	// the byte -> lane packers: functions of snp / kravatte / cyclist that store into a lane of a [25]uint64 state
	var packers []*ssa.Function
	for _, f := range pkgFuncs(P, false, "snp", "kravatte", "cyclist") {
		stores := false
		eachInstr(f, func(ins ssa.Instruction) {
			st, ok := ins.(*ssa.Store)
			if !ok {
				return
			}
			if ia, ok := st.Addr.(*ssa.IndexAddr); ok {
				t := ia.X.Type().Underlying()
				if pt, ok := t.(*types.Pointer); ok {
					t = pt.Elem().Underlying()
				}
				if at, ok := t.(*types.Array); ok && at.Len() == 25 {
					stores = true
				}
			}
		})
		if stores {
			packers = append(packers, f)
		}
	}
	rangeRule(c, "C12.R5", packers, shiftObs,
		"a shift count may reach the width of the shifted value, and the shift then yields 0: the byte it was to place in the lane is dropped", "variable shifts in the byte-to-lane packers", 4)
	c.Decides("that a forged tag cannot be accepted through a narrow or unchecked comparison, that callers' overlapping buffers are not corrupted, that setting the padding byte cannot erase key bytes, that no variable shift in a byte-to-lane packer can drop a byte, that the key mask is derived from this call's key every time")
	c.NotDecided("conformance of Kravatte-SANSE outputs with the specification for all keys and lengths (numerical statement)")

	uw := P.Func("kravatte", "(*sanse).unwrap")
	if uw == nil {
		c.Undecided("C12.R1", "kravatte.(*sanse).unwrap", "function not found")
	} else {
		name := FuncName(uw)
		c.Analysed(name)
		tagSize := pkgConst(P, "kravatte", "TagSize")
		fs := newFailSet()
		zeros := 0
		ok := walkAll(c, "C12.R1", uw, func(p *Path) {
			r := p.Returns()
			if r == nil || len(r.Results) != 1 {
				return
			}
			last := len(p.Blocks) - 1
			n, isC := constInt(p.Resolve(r.Results[0], last))
			if isC && n != 0 {
				return
			}
			zeros++
			okCmp := false
			var tagPrime ssa.Value
			for _, pc := range callsOnPath(p) {
				switch calleeID(pc.call) {
				case hopID("kravatte", "Kravatte", "Vatte"):
					a := pc.call.Call.Args
					if len(a) == 4 {
						if bits, isC := constInt(p.Deref(a[2], pc.at)); isC && bits == tagSize*8 && sliceWidth(a[1]) == tagSize {
							root, _ := accessPath(a[1])
							tagPrime = root
						}
					}
				case "crypto/subtle.ConstantTimeCompare", "bytes.Equal", "crypto/hmac.Equal":
					a := pc.call.Call.Args
					var computed, given ssa.Value
					for i := 0; i < 2; i++ {
						root, _ := accessPath(a[i])
						if tagPrime != nil && root == tagPrime {
							computed, given = a[i], a[1-i]
						}
					}
					if computed == nil {
						continue
					}
					wide := sliceWidth(computed) == tagSize && paramIndex(uw, given) == 6
					eq := false
					if calleeID(pc.call) == "crypto/subtle.ConstantTimeCompare" {
						ci := &compareInfo{call: pc.call}
						if v, known := compareOutcome(p, ci, pc.at); known && v {
							eq = true
						}
					} else if v, known := boolAfter(p, pc.call, pc.at); known && v {
						eq = true
					}
					if !wide {
						fs.add("tag-compare", "the tag comparison does not cover the whole computed tag and the whole, unsliced tag argument", pc.call, p)
					}
					if wide && eq {
						okCmp = true
					}
				}
			}
			if !okCmp {
				fs.add("tag-compare", "unwrap reports success on a path that does not pass the equal edge of a full-width comparison between the computed tag (Vatte, TagSize*8 bits) and the received tag", p.Exit(), p)
			}
		})
		if ok {
			fs.report(c, "C12.R1", name, []string{"tag-compare"}, P.Pos(uw.Pos()), fmt.Sprintf("holds on all %d success paths", zeros))
			c.Floor("C12.R1", "success paths of unwrap", zeros, 1)
		}
	}
	// Open / Seal
	for _, spec := range []struct{ fn, callee string }{{"(*sanse).Open", "unwrap"}, {"(*sanse).Seal", "wrap"}} {
		fn := P.Func("kravatte", spec.fn)
		if fn == nil {
			c.Undecided("C12.R2", "kravatte."+spec.fn, "function not found")
			continue
		}
		name := FuncName(fn)
		c.Analysed(name)
		for _, cs := range callSitesIn(fn, false, hopID("kravatte", "sanse", spec.callee)) {
			call := cs.(*ssa.Call)
			a := call.Call.Args // s, data, out, bits, ad, adbits, tag
			freshRoot := func(v ssa.Value) bool {
				root, _ := accessPath(v)
				if freshSliceRoot(root) {
					return true
				}
				switch x := root.(type) {
				case *ssa.Alloc:
					return x.Heap || true
				case *ssa.Extract:
					// out / tail from sliceForAppend(dst, n): the destination, by contract
					if cl, ok := x.Tuple.(*ssa.Call); ok && calleeID(cl) == hopID("kravatte", "", "sliceForAppend") {
						return true
					}
				}
				return false
			}
			dataFresh := func() bool {
				root, _ := accessPath(a[1])
				return freshSliceRoot(root)
			}()
			c.Check(dataFresh, "C12.R2", name+"#input-copy", P.InstrPos(call), "input handed down is a private copy", spec.fn+" hands "+spec.callee+" a view of the caller's buffer: when dst overlaps the input the data is overwritten while it is still being read")
			if spec.callee == "unwrap" {
				// tag = in[dataLen:], dataLen = total - TagSize, total >= TagSize
				tagOK := false
				if sl, ok := strip(a[6]).(*ssa.Slice); ok && sl.High == nil && sl.Low != nil {
					root, _ := accessPath(sl.X)
					if freshSliceRoot(root) {
						tagOK = true
					}
				}
				c.Check(tagOK && freshRoot(a[6]), "C12.R2", name+"#tag-copy", P.InstrPos(call), "tag taken from the private copy", "the tag handed to unwrap is not a suffix of the private copy of the ciphertext")
			}
		}
	}
	if op := P.Func("kravatte", "(*sanse).Open"); op != nil {
		// exactly TagSize tag bytes, via E2: len(in[dataLen:]) == TagSize  and failing unwrap => (nil, err)
		eng := newBoundsEngine(P)
		tagSize := pkgConst(P, "kravatte", "TagSize")
		eng.extra = func(a *boundsAn, ins ssa.Instruction) []boundsOb {
			call, ok := ins.(*ssa.Call)
			if !ok || calleeID(call) != hopID("kravatte", "sanse", "unwrap") {
				return nil
			}
			l := a.lenOf(call.Call.Args[6])
			return []boundsOb{{ins, "tag length >= TagSize", l.add(linConst(-tagSize))}, {ins, "tag length <= TagSize", linConst(tagSize).sub(l)}}
		}
		sum := eng.summary(op)
		okv := sum != nil && len(sum.extraBad) == 0 && sum.extraOK == 2 && len(sum.unproven) == 0
		detail := ""
		if sum != nil && len(sum.extraBad) > 0 {
			detail = " (" + sum.extraBad[0].what + ": needs " + sum.extraBad[0].e.String() + " >= 0)"
		}
		c.Check(okv, "C12.R1", FuncName(op)+"#tag-width", P.Pos(op.Pos()), "unwrap receives exactly TagSize tag bytes; all slices in bounds", "Open does not hand unwrap exactly the last TagSize bytes of the ciphertext as the tag"+detail)
		fs := newFailSet()
		ok := walkAll(c, "C12.R1", op, func(p *Path) {
			last := len(p.Blocks) - 1
			for _, pc := range callsOnPath(p) {
				if calleeID(pc.call) != hopID("kravatte", "sanse", "unwrap") {
					continue
				}
				// was the result found != 0 ?
				nonZero := false
				for k, v := range p.FactsAt(last) {
					if k.op == token.EQL && k.y != nil && (k.x == ssa.Value(pc.call) || k.y == ssa.Value(pc.call)) && !v {
						nonZero = true
					}
				}
				if nonZero {
					r := p.Returns()
					if r == nil || errReturnClass(p) != nonNil || !isNilConst(p.Resolve(r.Results[0], last)) {
						fs.add("fail-closed", "Open returns plaintext or a nil error although unwrap reported a tag mismatch", p.Exit(), p)
					}
				} else if isSuccess(p) {
					zero := false
					for k, v := range p.FactsAt(last) {
						if k.op == token.EQL && k.y != nil && (k.x == ssa.Value(pc.call) || k.y == ssa.Value(pc.call)) && v {
							zero = true
						}
					}
					if !zero {
						fs.add("fail-closed", "Open succeeds without having tested unwrap's result", p.Exit(), p)
					}
				}
			}
		})
		if ok {
			fs.report(c, "C12.R1", FuncName(op), []string{"fail-closed"}, P.Pos(op.Pos()), "tag mismatch => (nil, error)")
		}
	}

	// ---- R3
	for _, spec := range []struct{ rel, fn string }{{"snp", "StateSetByte"}, {"snp", "StateAddByte"}, {"cyclist", "(*Cyclist).stateAddByte"}} {
		fn := P.Func(spec.rel, spec.fn)
		if fn == nil {
			c.Undecided("C12.R3", spec.rel+"."+spec.fn, "function not found")
			continue
		}
		name := FuncName(fn)
		c.Analysed(name)
		n := 0
		eachInstr(fn, func(ins ssa.Instruction) {
			st, ok := ins.(*ssa.Store)
			if !ok {
				return
			}
			ia, ok := st.Addr.(*ssa.IndexAddr)
			if !ok {
				return
			}
			n++
			// does the stored value depend on a load of the same lane?
			dep := false
			seen := map[ssa.Value]bool{}
			var walk func(v ssa.Value, d int)
			walk = func(v ssa.Value, d int) {
				if v == nil || d > 10 || seen[v] || dep {
					return
				}
				seen[v] = true
				switch x := v.(type) {
				case *ssa.UnOp:
					if x.Op == token.MUL {
						if ia2, ok := x.X.(*ssa.IndexAddr); ok && ia2.X == ia.X && ia2.Index == ia.Index {
							dep = true
							return
						}
					}
					walk(x.X, d+1)
				case *ssa.BinOp:
					walk(x.X, d+1)
					walk(x.Y, d+1)
				case *ssa.Convert:
					walk(x.X, d+1)
				}
			}
			walk(st.Val, 0)
			// the last store to a lane in a sequence (&^= then |=) depends on the load after the first store: also fine
			c.Check(dep, "C12.R3", fmt.Sprintf("%s#store%d", name, n), P.InstrPos(ins), "read-modify-write of the lane", "a byte-granular state writer overwrites the whole 64-bit lane: the other seven bytes of the lane (key bytes sharing the lane with the padding byte, for key lengths that are not a multiple of 8) are erased")
		})
		c.Floor("C12.R3", "lane stores in "+name, n, 1)
	}
	if rm := P.Func("kravatte", "(*Kravatte).RefMaskInitialize"); rm == nil {
		c.Undecided("C12.R3", "kravatte.(*Kravatte).RefMaskInitialize", "function not found")
	} else {
		c.Analysed(FuncName(rm))
		wholeKey, padAtLen := false, false
		for _, cs := range callSitesIn(rm, false, hopID("snp", "", "StateSetBytes")) {
			if paramIndex(rm, cs.Common().Args[1]) == 1 {
				wholeKey = true
			}
		}
		for _, cs := range callSitesIn(rm, false, hopID("snp", "", "StateSetByte")) {
			a := cs.Common().Args
			if call, ok := a[2].(*ssa.Call); ok {
				if b, isB := call.Call.Value.(*ssa.Builtin); isB && b.Name() == "len" && paramIndex(rm, call.Call.Args[0]) == 1 {
					if n, isC := constInt(a[1]); isC && n == 1 {
						padAtLen = true
					}
				}
			}
		}
		// and on every path that reports success: the mask of this instance is derived from this call's key
		// (no result of an earlier derivation is reused: a remembered key slice aliases caller memory, and a
		// key changed in place would keep the old mask)
		fsm := newFailSet()
		succ := 0
		okw := walkAll(c, "C12.R3", rm, func(p *Path) {
			r := p.Returns()
			if r == nil || len(r.Results) != 1 {
				return
			}
			if v, isC := constInt(p.Resolve(r.Results[0], len(p.Blocks)-1)); isC && v != 0 {
				return
			}
			succ++
			absorbed, permuted := false, false
			p.ForEach(func(i int, ins ssa.Instruction) bool {
				call, ok := ins.(*ssa.Call)
				if !ok {
					return true
				}
				if calleeID(call) == hopID("snp", "", "StateSetBytes") && len(call.Call.Args) == 2 && paramIndex(rm, p.Resolve(call.Call.Args[1], i)) == 1 {
					absorbed = true
					wholeKey = true
				}
				if calleeID(call) == hopID("snp", "", "StateSetByte") && len(call.Call.Args) == 3 {
					if lc, ok := p.Resolve(call.Call.Args[2], i).(*ssa.Call); ok {
						if b, isB := lc.Call.Value.(*ssa.Builtin); isB && b.Name() == "len" && paramIndex(rm, p.Resolve(lc.Call.Args[0], i)) == 1 {
							if n, isC := constInt(p.Resolve(call.Call.Args[1], i)); isC && n == 1 {
								padAtLen = true
							}
						}
					}
				}
				if g := staticCallee(&call.Call); g != nil && absorbed && g.Pkg == rm.Pkg && len(g.Params) == 1 && !permuted {
					// the permutation applied to the state the key was written into
					if pt, ok := g.Params[0].Type().(*types.Pointer); ok {
						if at, ok := pt.Elem().Underlying().(*types.Array); ok && at.Len() == 25 {
							permuted = true
						}
					}
				}
				return true
			})
			if !absorbed || !permuted {
				fsm.add("derived-each-time", "RefMaskInitialize reports success on a path that does not write this call's key into the state and permute it: a mask remembered from an earlier call is reused (a key changed in place keeps the old key's mask; changed key bytes have no influence on the output)", p.Exit(), p)
			}
		})
		if okw {
			fsm.report(c, "C12.R3", FuncName(rm), []string{"derived-each-time"}, P.Pos(rm.Pos()), fmt.Sprintf("key absorbed and permuted on all %d success paths", succ))
			c.Floor("C12.R3", "success paths of RefMaskInitialize", succ, 1)
		}
		c.Check(wholeKey, "C12.R3", FuncName(rm)+"#whole-key", P.Pos(rm.Pos()), "StateSetBytes(&k, key) with the unsliced key", "RefMaskInitialize does not absorb the whole key")
		c.Check(padAtLen, "C12.R3", FuncName(rm)+"#pad", P.Pos(rm.Pos()), "padding byte 1 at offset len(key)", "RefMaskInitialize does not place the padding byte right after the key")
	}
}

func c12Parity(c *Ctx) {
	P := c.P
	fE := P.Field("kravatte", "sanse", "e")
	if fE == nil {
		c.Undecided("C12.R4", "kravatte.sanse.e", "field not found")
		return
	}
	for _, n := range []string{"(*sanse).wrap", "(*sanse).unwrap"} {
		fn := P.Func("kravatte", n)
		if fn == nil {
			c.Undecided("C12.R4", "kravatte."+n, "function not found")
			continue
		}
		name := FuncName(fn)
		c.Analysed(name)
		fs := newFailSet()
		succ := 0
		ok := walkAll(c, "C12.R4", fn, func(p *Path) {
			r := p.Returns()
			if r == nil || len(r.Results) != 1 {
				return
			}
			// success = the result is 0 or not a constant (e.g. a callee's status handed on)
			if v, isC := constInt(p.Resolve(r.Results[0], len(p.Blocks)-1)); isC && v != 0 {
				return
			}
			succ++
			flips := 0
			p.ForEach(func(i int, ins ssa.Instruction) bool {
				st, ok := ins.(*ssa.Store)
				if !ok || !isFieldRef(st.Addr, fE) {
					return true
				}
				// value: load(e) ^ 1
				if bo, ok := strip(st.Val).(*ssa.BinOp); ok && bo.Op == token.XOR {
					k, isC := constInt(bo.Y)
					if isC && k == 1 && lastField(bo.X) == fE {
						flips++
						return true
					}
				}
				flips += 100 // any other store to e
				return true
			})
			if flips != 1 {
				what := fmt.Sprintf("flips the session parity bit %d times", flips)
				if flips >= 100 {
					what = "stores something other than e^1 into the session parity bit"
				}
				fs.add("parity", name+" returns success on a path that "+what+" (exactly one flip per message required: the peer's counterpart flips once per message, so the two ends fall out of step and every later message of the session is rejected)", p.Exit(), p)
			}
		})
		if ok {
			fs.report(c, "C12.R4", name, []string{"parity"}, P.Pos(fn.Pos()), fmt.Sprintf("one flip of s.e on each of %d success paths", succ))
			c.Floor("C12.R4", "success paths of "+name, succ, 2)
		}
	}
}
