package main

// E5 — lock discipline: guarded-by (the repository's own gVisor +checklocks
// annotations), lock-order graph, close election idioms.

import (
	"fmt"
	"go/ast"
	"go/token"
	"go/types"
	"sort"
	"strings"

	"golang.org/x/tools/go/ssa"
)

type lockAnn struct {
	guardedBy map[*types.Var]string // field -> name of the guarding mutex field of the same struct
	readOK    map[*types.Var]bool
	fnPre     map[*types.Func][]string // function -> required locks "recv.m" (as written)
	fnPreRead map[*types.Func][]string
	fnIgnore  map[*types.Func]bool
	ignLines  map[string]bool // "file:line" carrying a per-statement +checklocksignore
	nFields   int
	nFuncs    int
}

// parseLockAnnotations reads +checklocks annotations from the module's syntax.
func parseLockAnnotations(P *Program) *lockAnn {
	a := &lockAnn{guardedBy: map[*types.Var]string{}, readOK: map[*types.Var]bool{}, fnPre: map[*types.Func][]string{}, fnPreRead: map[*types.Func][]string{}, fnIgnore: map[*types.Func]bool{}, ignLines: map[string]bool{}}
	annOf := func(groups ...*ast.CommentGroup) (locks []string, rlocks []string, ignore bool) {
		for _, g := range groups {
			if g == nil {
				continue
			}
			for _, cm := range g.List {
				t := cm.Text
				for _, line := range strings.Split(t, "\n") {
					line = strings.TrimSpace(strings.TrimPrefix(strings.TrimSpace(line), "//"))
					switch {
					case strings.HasPrefix(line, "+checklocksignore"):
						ignore = true
					case strings.HasPrefix(line, "+checklocksread:"):
						rlocks = append(rlocks, strings.Fields(strings.TrimPrefix(line, "+checklocksread:"))[0])
					case strings.HasPrefix(line, "+checklocks:"):
						locks = append(locks, strings.Fields(strings.TrimPrefix(line, "+checklocks:"))[0])
					}
				}
			}
		}
		return
	}
	for _, pk := range P.Roots {
		for _, f := range pk.Syntax {
			// per-statement ignores: any comment containing +checklocksignore marks its line
			for _, cg := range f.Comments {
				for _, cm := range cg.List {
					if strings.Contains(cm.Text, "+checklocksignore") {
						pos := P.Fset.Position(cm.Pos())
						a.ignLines[fmt.Sprintf("%s:%d", pos.Filename, pos.Line)] = true
					}
				}
			}
			ast.Inspect(f, func(n ast.Node) bool {
				switch x := n.(type) {
				case *ast.StructType:
					for _, fld := range x.Fields.List {
						locks, rlocks, ign := annOf(fld.Doc, fld.Comment)
						if ign || (len(locks) == 0 && len(rlocks) == 0) {
							continue
						}
						for _, nm := range fld.Names {
							if v, ok := pk.TypesInfo.Defs[nm].(*types.Var); ok {
								if len(locks) > 0 {
									a.guardedBy[v] = locks[0]
								} else {
									a.guardedBy[v] = rlocks[0]
									a.readOK[v] = true
								}
								a.nFields++
							}
						}
					}
				case *ast.FuncDecl:
					locks, rlocks, ign := annOf(x.Doc)
					fo, _ := pk.TypesInfo.Defs[x.Name].(*types.Func)
					if fo == nil {
						return true
					}
					if ign {
						a.fnIgnore[fo] = true
					}
					if len(locks) > 0 {
						a.fnPre[fo] = locks
						a.nFuncs++
					}
					if len(rlocks) > 0 {
						a.fnPreRead[fo] = rlocks
						a.nFuncs++
					}
				}
				return true
			})
		}
	}
	return a
}

// lockOp classifies a call as a lock operation on a mutex access path.
func lockOp(ins ssa.Instruction) (op string, mu ssa.Value) {
	var cc *ssa.CallCommon
	switch x := ins.(type) {
	case *ssa.Call:
		cc = &x.Call
	case *ssa.Defer:
		cc = &x.Call
	default:
		return "", nil
	}
	switch funcID(calleeFunc(cc)) {
	case "(sync.Mutex).Lock", "(sync.RWMutex).Lock":
		op = "lock"
	case "(sync.RWMutex).RLock":
		op = "rlock"
	case "(sync.Mutex).Unlock", "(sync.RWMutex).Unlock":
		op = "unlock"
	case "(sync.RWMutex).RUnlock":
		op = "runlock"
	default:
		return "", nil
	}
	if len(cc.Args) == 0 {
		return "", nil
	}
	return op, cc.Args[0]
}

type lockState map[string]byte // access path -> 'w' | 'r'

func (l lockState) clone() lockState {
	r := lockState{}
	for k, v := range l {
		r[k] = v
	}
	return r
}

// heldLocks computes, per block, the must-held lockset at block entry.
// entry: locks assumed held at function entry.
func heldLocks(fn *ssa.Function, entry lockState) map[*ssa.BasicBlock]lockState {
	in := map[*ssa.BasicBlock]lockState{}
	if len(fn.Blocks) == 0 {
		return in
	}
	in[fn.Blocks[0]] = entry.clone()
	transfer := func(b *ssa.BasicBlock, st lockState) lockState {
		st = st.clone()
		for _, ins := range b.Instrs {
			if _, isDefer := ins.(*ssa.Defer); isDefer {
				continue // deferred unlocks act at return
			}
			op, mu := lockOp(ins)
			if op == "" {
				continue
			}
			ap := apString(mu)
			switch op {
			case "lock":
				st[ap] = 'w'
			case "rlock":
				if st[ap] != 'w' {
					st[ap] = 'r'
				}
			case "unlock", "runlock":
				delete(st, ap)
			}
		}
		return st
	}
	for changed, it := true, 0; changed && it < 100; it++ {
		changed = false
		for _, b := range fn.Blocks[1:] {
			var acc lockState
			first := true
			for _, pr := range b.Preds {
				pin, ok := in[pr]
				if !ok {
					continue
				}
				out := transfer(pr, pin)
				if first {
					acc, first = out, false
				} else {
					for k, v := range acc {
						if w, ok := out[k]; !ok {
							delete(acc, k)
						} else if w != v {
							acc[k] = 'r'
						}
					}
				}
			}
			if first {
				continue
			}
			old, had := in[b]
			same := had && len(old) == len(acc)
			if same {
				for k, v := range acc {
					if old[k] != v {
						same = false
					}
				}
			}
			if !same {
				in[b] = acc
				changed = true
			}
		}
	}
	return in
}

// locksAt: lockset right before instruction ins.
func locksAt(fn *ssa.Function, in map[*ssa.BasicBlock]lockState, ins ssa.Instruction) lockState {
	st, ok := in[ins.Block()]
	if !ok {
		return nil
	}
	st = st.clone()
	for _, i2 := range ins.Block().Instrs {
		if i2 == ins {
			break
		}
		if _, isDefer := i2.(*ssa.Defer); isDefer {
			continue
		}
		op, mu := lockOp(i2)
		if op == "" {
			continue
		}
		ap := apString(mu)
		switch op {
		case "lock":
			st[ap] = 'w'
		case "rlock":
			if st[ap] != 'w' {
				st[ap] = 'r'
			}
		default:
			delete(st, ap)
		}
	}
	return st
}

// entryLocks translates a function's annotation ("s.m", "recv.m") into access paths of its own parameters.
func entryLocks(fn *ssa.Function, ann *lockAnn) lockState {
	st := lockState{}
	fo, _ := fn.Object().(*types.Func)
	if fo == nil {
		return st
	}
	add := func(names []string, mode byte) {
		for _, n := range names {
			parts := strings.SplitN(n, ".", 2)
			if len(parts) != 2 {
				continue
			}
			// the first component names the receiver / a parameter
			for _, p := range fn.Params {
				if p.Name() == parts[0] {
					st[p.Name()+"."+parts[1]] = mode
				}
			}
		}
	}
	add(ann.fnPre[fo], 'w')
	add(ann.fnPreRead[fo], 'r')
	return st
}

// inferredEntryLocks: the annotated pre-condition of fn, or, for an unannotated unexported
// function that is only ever called statically, the locks held at every one of its call
// sites (expressed over its own parameters). A few lines moved into a helper are then
// checked under the locks of the place they came from, annotation or not.
func inferredEntryLocks(P *Program, fn *ssa.Function, ann *lockAnn, depth int) lockState {
	st := entryLocks(fn, ann)
	fo, _ := fn.Object().(*types.Func)
	if len(st) > 0 || fo == nil || depth > 3 || ast.IsExported(fn.Name()) || fn.Parent() != nil {
		return st
	}
	if len(ann.fnPre[fo])+len(ann.fnPreRead[fo]) > 0 {
		return st
	}
	edges := P.Callers(fn)
	if len(edges) == 0 {
		return st
	}
	var acc lockState
	for _, e := range edges {
		call, ok := e.Site.(*ssa.Call)
		if !ok || staticCallee(&call.Call) != fn || !InModule(e.Caller.Func) {
			return st // go statements, defers, dynamic calls: nothing can be assumed
		}
		caller := e.Caller.Func
		in := heldLocks(caller, inferredEntryLocks(P, caller, ann, depth+1))
		held := locksAt(caller, in, call)
		here := lockState{}
		args := callArgs(&call.Call)
		for i, par := range fn.Params {
			if i >= len(args) {
				break
			}
			a := apString(args[i])
			if a == "" {
				continue
			}
			for l, mode := range held {
				if strings.HasPrefix(l, a+".") {
					here[par.Name()+l[len(a):]] = mode
				}
			}
		}
		if acc == nil {
			acc = here
		} else {
			for l, mode := range acc {
				m2, ok := here[l]
				if !ok {
					delete(acc, l)
				} else if m2 == 'r' && mode == 'w' {
					acc[l] = 'r'
				}
			}
		}
	}
	if acc == nil {
		return st
	}
	return acc
}

// isConstruction: base is an object allocated in this function (not yet shared).
func isConstruction(base ssa.Value) bool {
	root, _ := accessPath(base)
	if a, ok := root.(*ssa.Alloc); ok {
		// composite literal / new(T) in this function; a spilled parameter is not construction
		if s := singleStore(a); s != nil {
			switch strip(s).(type) {
			case *ssa.Parameter, *ssa.FreeVar:
				return false
			}
		}
		return true
	}
	// the result of a constructor helper: a module function every return of which hands back an object
	// it allocated itself
	if call, ok := root.(*ssa.Call); ok {
		if g := staticCallee(&call.Call); g != nil && InModule(g) && len(g.Blocks) > 0 {
			n := 0
			for _, b := range g.Blocks {
				r, ok := b.Instrs[len(b.Instrs)-1].(*ssa.Return)
				if !ok {
					continue
				}
				n++
				if len(r.Results) == 0 {
					return false
				}
				if a, isAlloc := lookThrough(r.Results[0]).(*ssa.Alloc); !isAlloc || !a.Heap {
					return false
				}
			}
			return n > 0
		}
	}
	return false
}

// guardedByRule checks every access of an annotated field and every call of an annotated function.
// supplement: extra guarded fields; supFns: extra function pre-conditions ("pkg.(*T).f" -> "recv.m");
// exemptFns: functions whose accesses happen before the object is shared (reason given).
func guardedByRule(c *Ctx, rule string, rels []string, supplement map[*types.Var]string, supFns map[string]string, exemptFns map[string]string) {
	P := c.P
	ann := parseLockAnnotations(P)
	for f, g := range supplement {
		ann.guardedBy[f] = g
	}
	for _, fn := range P.ModuleFuncs(rels...) {
		if req, ok := supFns[FuncName(fn)]; ok {
			if fo, ok := fn.Object().(*types.Func); ok {
				ann.fnPre[fo] = append(ann.fnPre[fo], req)
			}
		}
	}
	for n, why := range exemptFns {
		c.Trust("guarded-by exemption " + n + ": " + why)
	}
	nAcc, nCalls := 0, 0
	type finding struct {
		cons, site, msg string
	}
	var bad []finding
	perFn := map[string]int{}
	for _, fn := range P.ModuleFuncs(rels...) {
		fo, _ := fn.Object().(*types.Func)
		if fo != nil && ann.fnIgnore[fo] {
			continue
		}
		if fn.Blocks == nil {
			continue
		}
		if _, ex := exemptFns[FuncName(fn)]; ex {
			continue
		}
		in := heldLocks(fn, inferredEntryLocks(P, fn, ann, 0))
		name := FuncName(fn)
		eachInstr(fn, func(ins ssa.Instruction) {
			pos := P.Fset.Position(instrPos(ins))
			if ann.ignLines[fmt.Sprintf("%s:%d", pos.Filename, pos.Line)] {
				return
			}
			switch x := ins.(type) {
			case *ssa.FieldAddr:
				f := fieldOf(x.X.Type(), x.Field)
				g, ok := ann.guardedBy[f]
				if !ok || isConstruction(x.X) {
					return
				}
				// read or write?
				write := false
				for _, r := range *x.Referrers() {
					switch y := r.(type) {
					case *ssa.Store:
						if y.Addr == ssa.Value(x) {
							write = true
						}
					case *ssa.UnOp:
					default:
						write = true // address escapes (slice, method call with pointer receiver, map update through load is a read of the map header)
					}
				}
				// map updates / deletes through a loaded map are writes to guarded data
				for _, r := range *x.Referrers() {
					if u, ok := r.(*ssa.UnOp); ok {
						for _, rr := range *u.Referrers() {
							switch z := rr.(type) {
							case *ssa.MapUpdate:
								if z.Map == ssa.Value(u) {
									write = true
								}
							case *ssa.Call:
								if b, isB := z.Call.Value.(*ssa.Builtin); isB && (b.Name() == "delete" || b.Name() == "clear") {
									write = true
								}
							}
						}
					}
				}
				nAcc++
				want := apString(x.X) + "." + g
				st := locksAt(fn, in, ins)
				mode, held := st[want]
				okv := held && (mode == 'w' || !write)
				if !okv {
					perFn[name+"|"+f.Name()]++
					kind := "read"
					if write {
						kind = "written"
					}
					bad = append(bad, finding{fmt.Sprintf("%s#%s.%s#%d", name, typeNameOf(x.X.Type()), f.Name(), perFn[name+"|"+f.Name()]), P.InstrPos(ins),
						fmt.Sprintf("%s.%s (guarded by %s per its +checklocks annotation) is %s without %s held on every path: a concurrent caller can observe or corrupt it (data race)", typeNameOf(x.X.Type()), f.Name(), g, kind, want)})
				}
			case *ssa.Call:
				callee := calleeFunc(&x.Call)
				if callee == nil {
					return
				}
				reqs := append(append([]string{}, ann.fnPre[callee]...), ann.fnPreRead[callee]...)
				if len(reqs) == 0 {
					return
				}
				g := staticCallee(&x.Call)
				if g == nil {
					return
				}
				nCalls++
				st := locksAt(fn, in, ins)
				for _, r := range reqs {
					parts := strings.SplitN(r, ".", 2)
					if len(parts) != 2 {
						continue
					}
					// map the named parameter to the argument
					for i, p := range g.Params {
						if p.Name() != parts[0] || i >= len(x.Call.Args) {
							continue
						}
						if isConstruction(x.Call.Args[i]) {
							continue
						}
						want := apString(x.Call.Args[i]) + "." + parts[1]
						if _, held := st[want]; !held {
							perFn[name+"|call:"+callee.Name()]++
							bad = append(bad, finding{fmt.Sprintf("%s#call:%s#%d", name, callee.Name(), perFn[name+"|call:"+callee.Name()]), P.InstrPos(ins),
								fmt.Sprintf("%s requires %s (+checklocks:%s) but is called without %s held on every path", callee.Name(), r, r, want)})
						}
					}
				}
			}
		})
	}
	sort.Slice(bad, func(i, j int) bool { return bad[i].cons < bad[j].cons })
	for _, b := range bad {
		c.Fail(rule, b.cons, b.site, b.msg)
	}
	if len(bad) == 0 {
		c.OK(rule, "guarded-by:"+strings.Join(rels, ","), "-", fmt.Sprintf("%d guarded field accesses and %d annotated-callee call sites, all under the required lock", nAcc, nCalls))
	}
	c.extra[rule+"_annotated_fields"] = ann.nFields
	c.extra[rule+"_annotated_functions"] = ann.nFuncs
	c.Floor(rule, "guarded field accesses in "+strings.Join(rels, ","), nAcc, 20)
}

func typeNameOf(t types.Type) string {
	if pt, ok := t.Underlying().(*types.Pointer); ok {
		t = pt.Elem()
	}
	if nt, ok := t.(*types.Named); ok {
		return nt.Obj().Name()
	}
	return t.String()
}

// ---------------------------------------------------------------------------
// lock order

type lockClass struct {
	typ, field string
}

func (l lockClass) String() string { return l.typ + "." + l.field }

func classOfMutex(mu ssa.Value) (lockClass, bool) {
	root, sels := accessPath(mu)
	_ = root
	for i := len(sels) - 1; i >= 0; i-- {
		if sels[i].Field != nil {
			f := sels[i].Field
			// owner struct: find via the FieldAddr
			owner := "?"
			if fa, ok := strip(mu).(*ssa.FieldAddr); ok {
				owner = typeNameOf(fa.X.Type())
			}
			return lockClass{owner, f.Name()}, true
		}
	}
	return lockClass{}, false
}

// lockOrderRule builds the acquisition-order graph over the given packages and requires it to be acyclic.
func lockOrderRule(c *Ctx, rule string, rels []string) {
	P := c.P
	cg := P.CG()
	ann := parseLockAnnotations(P)
	inScope := map[string]bool{}
	for _, r := range rels {
		inScope[r] = true
	}
	// acquires(fn): lock classes fn may acquire itself or through callees (go statements excluded)
	acq := map[*ssa.Function]map[lockClass]bool{}
	var compute func(fn *ssa.Function, depth int, stack map[*ssa.Function]bool) map[lockClass]bool
	compute = func(fn *ssa.Function, depth int, stack map[*ssa.Function]bool) map[lockClass]bool {
		if r, ok := acq[fn]; ok {
			return r
		}
		res := map[lockClass]bool{}
		if fn == nil || fn.Blocks == nil || !InModule(fn) || depth > 8 || stack[fn] {
			return res
		}
		stack[fn] = true
		eachInstr(fn, func(ins ssa.Instruction) {
			if _, isDefer := ins.(*ssa.Defer); isDefer {
				return
			}
			if op, mu := lockOp(ins); op == "lock" || op == "rlock" {
				if lc, ok := classOfMutex(mu); ok {
					res[lc] = true
				}
			}
		})
		if n := cg.Nodes[fn]; n != nil {
			for _, e := range n.Out {
				if _, isGo := e.Site.(*ssa.Go); isGo {
					continue
				}
				callee := e.Callee.Func
				if !InModule(callee) || !inScope[relPkg(callee)] {
					continue
				}
				for lc := range compute(callee, depth+1, stack) {
					res[lc] = true
				}
			}
		}
		delete(stack, fn)
		acq[fn] = res
		return res
	}
	type edge struct{ a, b lockClass }
	edges := map[edge]string{}
	for _, fn := range P.ModuleFuncs(rels...) {
		if fn.Blocks == nil {
			continue
		}
		in := heldLocks(fn, entryLocks(fn, ann))
		name := FuncName(fn)
		eachInstr(fn, func(ins ssa.Instruction) {
			if _, isDefer := ins.(*ssa.Defer); isDefer {
				return
			}
			st := locksAt(fn, in, ins)
			if len(st) == 0 {
				return
			}
			var heldClasses []lockClass
			heldAPs := map[lockClass]string{}
			for ap := range st {
				// recover the class from the access path text: last two components "x.m" -> need type: look for a lock op with that ap in fn
				eachInstr(fn, func(i2 ssa.Instruction) {
					if op, mu := lockOp(i2); op != "" && apString(mu) == ap {
						if lc, ok := classOfMutex(mu); ok {
							heldAPs[lc] = ap
						}
					}
				})
				// entry locks from annotations: receiver type + field
				if _, found := func() (lockClass, bool) {
					for lc, a2 := range heldAPs {
						if a2 == ap {
							return lc, true
						}
					}
					return lockClass{}, false
				}(); !found {
					parts := strings.SplitN(ap, ".", 2)
					for _, p := range fn.Params {
						if len(parts) == 2 && p.Name() == parts[0] {
							heldAPs[lockClass{typeNameOf(p.Type()), parts[1]}] = ap
						}
					}
				}
			}
			for lc := range heldAPs {
				heldClasses = append(heldClasses, lc)
			}
			var acquired []lockClass
			if op, mu := lockOp(ins); op == "lock" || op == "rlock" {
				if lc, ok := classOfMutex(mu); ok {
					acquired = append(acquired, lc)
				}
			} else if call, ok := ins.(*ssa.Call); ok {
				if n := cg.Nodes[fn]; n != nil {
					for _, e := range n.Out {
						if e.Site == ssa.CallInstruction(call) && InModule(e.Callee.Func) && inScope[relPkg(e.Callee.Func)] {
							// a ...Locked helper that releases and re-acquires its caller's lock does not count as acquiring it anew
							pre := entryLocks(e.Callee.Func, ann)
							for lc := range compute(e.Callee.Func, 0, map[*ssa.Function]bool{}) {
								skip := false
								for ap := range pre {
									parts := strings.SplitN(ap, ".", 2)
									if len(parts) == 2 && parts[1] == lc.field {
										for _, p := range e.Callee.Func.Params {
											if p.Name() == parts[0] && typeNameOf(p.Type()) == lc.typ {
												skip = true
											}
										}
									}
								}
								if !skip {
									acquired = append(acquired, lc)
								}
							}
						}
					}
				}
			}
			for _, h := range heldClasses {
				for _, a := range acquired {
					if h == a {
						continue // re-entrancy on another instance of the same class is out of scope
					}
					e := edge{h, a}
					if _, ok := edges[e]; !ok {
						edges[e] = fmt.Sprintf("%s at %s", name, P.InstrPos(ins))
					}
				}
			}
		})
	}
	// cycle detection
	adj := map[lockClass][]lockClass{}
	var nodes []lockClass
	seenN := map[lockClass]bool{}
	var es []string
	for e := range edges {
		adj[e.a] = append(adj[e.a], e.b)
		for _, n := range []lockClass{e.a, e.b} {
			if !seenN[n] {
				seenN[n] = true
				nodes = append(nodes, n)
			}
		}
		es = append(es, fmt.Sprintf("%s -> %s  (%s)", e.a, e.b, edges[e]))
	}
	sort.Strings(es)
	c.extra[rule+"_lock_order_edges"] = es
	color := map[lockClass]int{}
	var cycle []lockClass
	var dfs func(n lockClass, path []lockClass) bool
	dfs = func(n lockClass, path []lockClass) bool {
		color[n] = 1
		path = append(path, n)
		sort.Slice(adj[n], func(i, j int) bool { return adj[n][i].String() < adj[n][j].String() })
		for _, m := range adj[n] {
			if color[m] == 1 {
				// found
				for i, p := range path {
					if p == m {
						cycle = append(append([]lockClass{}, path[i:]...), m)
					}
				}
				return true
			}
			if color[m] == 0 && dfs(m, path) {
				return true
			}
		}
		color[n] = 2
		return false
	}
	sort.Slice(nodes, func(i, j int) bool { return nodes[i].String() < nodes[j].String() })
	for _, n := range nodes {
		if color[n] == 0 && dfs(n, nil) {
			break
		}
	}
	if cycle != nil {
		var tr []string
		var names []string
		for i := 0; i+1 < len(cycle); i++ {
			tr = append(tr, fmt.Sprintf("%s -> %s acquired in %s", cycle[i], cycle[i+1], edges[edge{cycle[i], cycle[i+1]}]))
			names = append(names, cycle[i].String())
		}
		sort.Strings(names)
		c.Fail(rule, "lock-order-cycle:"+strings.Join(names, ","), "-", "the lock acquisition order has a cycle: two goroutines taking these locks in the two orders deadlock", tr...)
	} else {
		c.OK(rule, "lock-order:"+strings.Join(rels, ","), "-", fmt.Sprintf("%d acquisition-order edges over %d lock classes, acyclic", len(edges), len(nodes)))
	}
	c.Floor(rule, "lock-order edges in "+strings.Join(rels, ","), len(edges), 2)
}

var _ = token.NoPos
