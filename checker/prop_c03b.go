package main

import (
	"fmt"
	"go/token"

	"golang.org/x/tools/go/ssa"
)

// c03R7: every datagram the sender may produce fits the buffer the receive loops read into.
//
//	Cmax  largest plaintext WriteMsg lets through (the constant of its length guard; without a guard
//	      the UDP payload limit takes its place)
//	K     framing overhead, taken from the reader's own length function PlaintextLen(n) = n - K
//	N     constant length of the buffer handed to ReadMsgUDP in Client.listen and in the receive
//	      goroutine of Server.Serve
//
// N >= Cmax + K is necessary for completeness: the kernel truncates a datagram to the buffer, the
// truncated packet fails authentication and is dropped, and the writer has already returned success.
func c03R7(c *Ctx) {
	P := c.P
	const rule = "C03.R7"
	pl := P.Func("transport", "PlaintextLen")
	wm := P.Func("transport", "(*Handle).WriteMsg")
	if pl == nil || wm == nil {
		c.Undecided(rule, "transport.PlaintextLen / (*Handle).WriteMsg", "function not found")
		return
	}
	c.Analysed(FuncName(pl))
	c.Analysed(FuncName(wm))
	// K
	var lin func(v ssa.Value, depth int) (a, b int64, ok bool)
	lin = func(v ssa.Value, depth int) (int64, int64, bool) {
		if depth > 16 {
			return 0, 0, false
		}
		switch x := strip(v).(type) {
		case *ssa.Const:
			k, ok := constInt(x)
			return 0, k, ok
		case *ssa.Parameter:
			if len(pl.Params) == 1 && x == pl.Params[0] {
				return 1, 0, true
			}
		case *ssa.BinOp:
			a1, b1, ok1 := lin(x.X, depth+1)
			a2, b2, ok2 := lin(x.Y, depth+1)
			if !ok1 || !ok2 {
				return 0, 0, false
			}
			switch x.Op {
			case token.ADD:
				return a1 + a2, b1 + b2, true
			case token.SUB:
				return a1 - a2, b1 - b2, true
			}
		}
		return 0, 0, false
	}
	K := int64(-1)
	for _, b := range pl.Blocks {
		if ret, ok := b.Instrs[len(b.Instrs)-1].(*ssa.Return); ok && len(ret.Results) == 1 {
			a, k, ok := lin(ret.Results[0], 0)
			if !ok || a != 1 || (K >= 0 && K != -k) {
				c.Undecided(rule, FuncName(pl), "PlaintextLen is not of the form n - K")
				return
			}
			K = -k
		}
	}
	if K < 0 {
		c.Undecided(rule, FuncName(pl), "PlaintextLen is not of the form n - K")
		return
	}
	// Cmax: on every path of WriteMsg that hands its argument on, the tightest constant upper bound of len(b)
	const udpPayload = 65507
	Cmax := int64(-1)
	guarded := true
	ok := walkAll(c, rule, wm, func(p *Path) {
		sends := false
		for _, pc := range callsOnPath(p) {
			if _, isBuiltin := pc.call.Call.Value.(*ssa.Builtin); isBuiltin {
				continue
			}
			for _, a := range callArgs(&pc.call.Call) {
				if isByteSlice(a.Type()) && paramIndex(wm, p.Resolve(a, pc.at)) == 1 {
					sends = true
				}
			}
		}
		if !sends {
			return
		}
		bound := int64(-1)
		lenOfParam := func(v ssa.Value) bool {
			call, ok := strip(v).(*ssa.Call)
			if !ok {
				return false
			}
			b, ok := call.Call.Value.(*ssa.Builtin)
			return ok && b.Name() == "len" && len(call.Call.Args) == 1 && paramIndex(wm, call.Call.Args[0]) == 1
		}
		for key, val := range p.FactsAt(len(p.Blocks) - 1) {
			if key.op != token.LSS || key.y == nil {
				continue
			}
			if k, isC := constInt(key.x); isC && lenOfParam(key.y) && !val { // !(C < len)  => len <= C
				if bound < 0 || k < bound {
					bound = k
				}
			}
			if k, isC := constInt(key.y); isC && lenOfParam(key.x) && val { // len < C => len <= C-1
				if bound < 0 || k-1 < bound {
					bound = k - 1
				}
			}
		}
		if bound < 0 {
			guarded = false
			return
		}
		if bound > Cmax {
			Cmax = bound
		}
	})
	if !ok {
		return
	}
	how := "the guard of WriteMsg"
	if !guarded || Cmax < 0 {
		Cmax = udpPayload - K
		how = "the UDP payload limit (WriteMsg has a path without a constant length guard)"
	}
	need := Cmax + K
	if need > udpPayload {
		need = udpPayload // the socket refuses anything larger with an error the writer reports
	}
	// N at each receive loop
	type site struct {
		fn   *ssa.Function
		name string
	}
	var sites []site
	if l := P.Func("transport", "(*Client).listen"); l != nil {
		sites = append(sites, site{l, FuncName(l)})
	} else {
		c.Undecided(rule, "transport.(*Client).listen", "function not found")
	}
	if serve := P.Func("transport", "(*Server).Serve"); serve != nil {
		found := false
		for _, g := range goBodiesOf(serve) {
			if len(callSitesIn(g, false, hopID("transport", "Server", "readPacket"))) > 0 {
				sites = append(sites, site{g, "transport.(*Server).Serve:receive-goroutine"})
				found = true
			}
		}
		if !found {
			c.Undecided(rule, "transport.(*Server).Serve:receive-goroutine", "no goroutine of Serve calls readPacket")
		}
	} else {
		c.Undecided(rule, "transport.(*Server).Serve", "function not found")
	}
	n := 0
	for _, s := range sites {
		c.Analysed(s.name)
		k := 0
		// the buffer of a ReadMsgUDP call in fn: nil if fn has none
		readBuf := func(fn *ssa.Function) (bufs []ssa.Value, at []*ssa.Call) {
			eachInstr(fn, func(ins ssa.Instruction) {
				call, ok := ins.(*ssa.Call)
				if !ok {
					return
				}
				f := calleeFunc(&call.Call)
				if f == nil || f.Name() != "ReadMsgUDP" {
					return
				}
				args := call.Call.Args
				if !call.Call.IsInvoke() {
					args = args[1:]
				}
				if len(args) == 0 || !isByteSlice(args[0].Type()) {
					return
				}
				bufs = append(bufs, lookThrough(args[0]))
				at = append(at, call)
			})
			return
		}
		type rb struct {
			buf  ssa.Value
			call *ssa.Call
		}
		var reads []rb
		bufs, ats := readBuf(s.fn)
		for i := range bufs {
			reads = append(reads, rb{bufs[i], ats[i]})
		}
		// one level down: a module function called here that reads into one of its parameters
		eachInstr(s.fn, func(ins ssa.Instruction) {
			call, ok := ins.(*ssa.Call)
			if !ok {
				return
			}
			g := staticCallee(&call.Call)
			if g == nil || !InModule(g) || g.Blocks == nil {
				return
			}
			gb, _ := readBuf(g)
			for _, b := range gb {
				if prm, ok := b.(*ssa.Parameter); ok {
					for i, q := range g.Params {
						if q == prm && i < len(call.Call.Args) {
							reads = append(reads, rb{lookThrough(call.Call.Args[i]), call})
						}
					}
				} else {
					reads = append(reads, rb{b, call})
				}
			}
		})
		for _, r := range reads {
			call := r.call
			k++
			n++
			cons := fmt.Sprintf("%s#recvbuf%d", s.name, k)
			N, isConst := constSliceLen(r.buf)
			if !isConst {
				c.Undecided(rule, cons, "the length of the receive buffer is not a compile-time constant")
				continue
			}
			if N < need {
				c.Fail(rule, cons, P.InstrPos(call), fmt.Sprintf("the receive buffer holds %d bytes but a datagram of %d bytes can be sent (largest plaintext %d from %s + framing %d from PlaintextLen): the kernel truncates it, authentication fails and the message is lost after the writer reported success", N, need, Cmax, how, K))
			} else {
				c.OK(rule, cons, P.InstrPos(call), fmt.Sprintf("buffer %d >= largest datagram %d (plaintext %d from %s + framing %d)", N, need, Cmax, how, K))
			}
		}
	}
	c.Floor(rule, "receive-loop ReadMsgUDP sites", n, 2)
}
