package main

// C16 (continued): close election idioms, sends on closable queues, shutdown order, sender arming.

import (
	"fmt"
	"go/ast"
	"go/token"
	"go/types"
	"sort"
	"strings"

	"golang.org/x/tools/go/ssa"
)

// goSitesOf counts go statements (module-wide) whose static callee is fn.
func goSitesOf(P *Program, fn *ssa.Function) []*ssa.Go {
	var out []*ssa.Go
	for _, f := range P.ModuleFuncs() {
		eachInstr(f, func(ins ssa.Instruction) {
			if g, ok := ins.(*ssa.Go); ok && staticCallee(&g.Call) == fn {
				out = append(out, g)
			}
		})
	}
	return out
}

func directCallsOf(P *Program, fn *ssa.Function) int {
	n := 0
	for _, f := range P.ModuleFuncs() {
		eachInstr(f, func(ins ssa.Instruction) {
			switch x := ins.(type) {
			case *ssa.Call:
				if staticCallee(&x.Call) == fn {
					n++
				}
			case *ssa.Defer:
				if staticCallee(&x.Call) == fn {
					n++
				}
			}
		})
	}
	return n
}

// baseAP: access path of the object a field channel belongs to.
func baseOfFieldValue(v ssa.Value) (string, *types.Var) {
	u, ok := strip(v).(*ssa.UnOp)
	if !ok {
		return "", nil
	}
	fa, ok := u.X.(*ssa.FieldAddr)
	if !ok {
		return "", nil
	}
	return apString(fa.X), fieldOf(fa.X.Type(), fa.Field)
}

func closeOnceRule(c *Ctx, rule string, rels []string, floorN int) {
	P := c.P
	ann := parseLockAnnotations(P)
	nSites := 0
	for _, fn := range P.ModuleFuncs(rels...) {
		if fn.Blocks == nil {
			continue
		}
		var closes []ssa.Instruction
		eachInstr(fn, func(ins ssa.Instruction) {
			var cc *ssa.CallCommon
			switch x := ins.(type) {
			case *ssa.Call:
				cc = &x.Call
			case *ssa.Defer:
				cc = &x.Call
			default:
				return
			}
			if b, isB := cc.Value.(*ssa.Builtin); isB && b.Name() == "close" && len(cc.Args) == 1 {
				if _, f := baseOfFieldValue(cc.Args[0]); f != nil {
					closes = append(closes, ins)
				}
			}
		})
		if len(closes) == 0 {
			continue
		}
		name := FuncName(fn)
		c.Analysed(name)
		mf := ComputeMustFacts(fn)
		held := heldLocks(fn, entryLocks(fn, ann))
		// per-path: at most one close per channel field
		perPathOK := map[*types.Var]bool{}
		complete := true
		_, complete = WalkPaths(fn, PathOpts{MaxVisits: 2, MaxPaths: 20000}, func(p *Path) bool {
			cnt := map[*types.Var]int{}
			seenIns := map[ssa.Instruction]int{}
			p.ForEach(func(i int, ins ssa.Instruction) bool {
				for _, cl := range closes {
					if cl == ins {
						seenIns[ins]++
						if seenIns[ins] > 1 {
							continue // loop re-execution is judged by the election, not here
						}
						_, f := baseOfFieldValue(callCommon(ins).Args[0])
						cnt[f]++
					}
				}
				return true
			})
			for f, n := range cnt {
				if n > 1 {
					perPathOK[f] = false
				} else if _, ok := perPathOK[f]; !ok {
					perPathOK[f] = true
				}
			}
			return true
		})
		for _, cl := range closes {
			nSites++
			base, f := baseOfFieldValue(callCommon(cl).Args[0])
			cons := fmt.Sprintf("close:%s.%s@%s", typeNameOfAP(cl), f.Name(), name)
			idiom := k1Election(mf.At(cl), base)
			// the closes of a local helper that its owner calls once, after winning the election
			if idiom == "" && fn.Parent() == nil {
				if owner := P.OwnerOf(fn); owner != nil && owner != fn {
					if edges := P.Callers(fn); len(edges) == 1 && edges[0].Site != nil && edges[0].Caller.Func.Blocks != nil {
						if site, ok := edges[0].Site.(*ssa.Call); ok && len(site.Call.Args) > 0 && len(fn.Params) > 0 {
							// the helper's receiver is the caller's object
							if root, _ := accessPath(callCommon(cl).Args[0]); lookThrough(root) == ssa.Value(fn.Params[0]) {
								cf := edges[0].Caller.Func
								if id := k1Election(ComputeMustFacts(cf).At(site), apString(lookThrough(site.Call.Args[0]))); id != "" {
									idiom = id + ", established by the owner " + cf.Name() + " before it calls this helper"
								}
							}
						}
					}
				}
			}
			// K3: under a lock of the same object, after a state test on a field the function also assigns
			if idiom == "" {
				st := locksAt(fn, held, cl)
				lockHeld := false
				for ap := range st {
					if strings.HasPrefix(ap, base+".") || ap == base {
						lockHeld = true
					}
				}
				if lockHeld {
					for k := range mf.At(cl) {
						var tested *types.Var
						if k.op == token.EQL && k.y != nil {
							for _, s := range []ssa.Value{k.x, k.y} {
								if lf := lastField(s); lf != nil && strings.HasPrefix(apString(s), base+".") {
									tested = lf
								}
								if call, ok := s.(*ssa.Call); ok && strings.HasSuffix(calleeID(call), ".Load") && strings.HasPrefix(apString(call.Call.Args[0]), base+".") {
									tested = lastField(call.Call.Args[0])
								}
							}
						}
						if tested == nil {
							continue
						}
						// the function (re)assigns that state, to a value the tested fact excludes
						assigned := false
						for _, st3 := range storesToField(fn, tested) {
							var subj ssa.Value
							for _, s := range []ssa.Value{k.x, k.y} {
								if lastField(s) == tested {
									subj = s
								}
							}
							if subj != nil && factExcludes(k, mf.At(cl)[k], subj, st3.Val) {
								assigned = true
							}
						}
						eachInstr(fn, func(ins ssa.Instruction) {
							if call, ok := ins.(*ssa.Call); ok && strings.HasSuffix(calleeID(call), ".Store") && lastField(call.Call.Args[0]) == tested {
								assigned = true
							}
						})
						if assigned {
							idiom = "K3 (state test + assignment under the object's lock)"
						}
					}
				}
				// K4: select { case <-ch: default: close(ch) } under a lock
				if idiom == "" && lockHeld {
					for _, pr := range cl.Block().Preds {
						for _, ins := range pr.Instrs {
							if sel, ok := ins.(*ssa.Select); ok && !sel.Blocking {
								for _, s := range sel.States {
									if s.Dir == types.RecvOnly && apString(s.Chan) == apString(callCommon(cl).Args[0]) {
										idiom = "K4 (non-blocking receive says still open, under the lock)"
									}
								}
							}
						}
					}
					// the channel was just replaced by a fresh one under the lock
					for _, st2 := range storesToField(fn, f) {
						if dominatesInstr(st2, cl) {
							if _, isMk := st2.Val.(*ssa.MakeChan); isMk {
								idiom = "K4 (fresh channel installed under the lock)"
							}
						}
					}
				}
			}
			// K3': the election (state test + assignment under the object's lock) happened earlier and dominates the close
			if idiom == "" {
				for k := range mf.At(cl) {
					if k.op != token.EQL || k.y == nil {
						continue
					}
					for _, s := range []ssa.Value{k.x, k.y} {
						call, ok := s.(*ssa.Call)
						if !ok || !strings.HasSuffix(calleeID(call), ".Load") || !sameRootAP(apString(call.Call.Args[0]), base) {
							continue
						}
						tested := lastField(call.Call.Args[0])
						stTest := locksAt(fn, held, call)
						if len(stTest) == 0 {
							continue
						}
						eachInstr(fn, func(ins ssa.Instruction) {
							c2, ok := ins.(*ssa.Call)
							if !ok || !strings.HasSuffix(calleeID(c2), ".Store") || lastField(c2.Call.Args[0]) != tested || !dominatesInstr(c2, cl) {
								return
							}
							if !factExcludes(k, mf.At(cl)[k], s, c2.Call.Args[1]) {
								return
							}
							st2 := locksAt(fn, held, c2)
							for ap := range st2 {
								if _, also := stTest[ap]; also {
									idiom = "K3 (state test and assignment under the object's lock dominate the close)"
								}
							}
						})
					}
				}
			}
			// K4': the channel was probed (non-blocking receive) under the lock that is still held
			if idiom == "" {
				st := locksAt(fn, held, cl)
				if len(st) > 0 {
					eachInstr(fn, func(ins ssa.Instruction) {
						sel, ok := ins.(*ssa.Select)
						if !ok || sel.Blocking || !dominatesInstr(sel, cl) {
							return
						}
						for _, s := range sel.States {
							if s.Dir == types.RecvOnly && apString(s.Chan) == apString(callCommon(cl).Args[0]) {
								stSel := locksAt(fn, held, sel)
								for ap := range st {
									if _, also := stSel[ap]; also {
										idiom = "K4 (channel probed and, if closed, replaced under the lock that is still held)"
									}
								}
							}
						}
					})
				}
			}
			// K4'': the probe sits in a helper cut out of this function, called under the lock that is still held
			if idiom == "" {
				st := locksAt(fn, held, cl)
				if len(st) > 0 {
					eachInstr(fn, func(ins ssa.Instruction) {
						c2, ok := ins.(*ssa.Call)
						if !ok || !dominatesInstr(c2, cl) {
							return
						}
						g := staticCallee(&c2.Call)
						if g == nil || g == fn || !P.OwnedBy(g, fn) {
							return
						}
						stCall := locksAt(fn, held, c2)
						shared := false
						for ap := range st {
							if _, also := stCall[ap]; also {
								shared = true
							}
						}
						if !shared {
							return
						}
						eachInstr(g, func(gi ssa.Instruction) {
							sel, ok := gi.(*ssa.Select)
							if !ok || sel.Blocking {
								return
							}
							for _, sst := range sel.States {
								if sst.Dir == types.RecvOnly && lastField(sst.Chan) == f && f != nil {
									idiom = "K4 (channel probed and, if closed, replaced by a helper under the lock that is still held)"
								}
							}
						})
					})
				}
			}
			// K2: the function runs once per object (single go site, no direct calls) and closes once per run
			if idiom == "" {
				gos := goSitesOf(P, fn)
				sameParent := len(gos) >= 1
				for _, g2 := range gos {
					if g2.Parent() != gos[0].Parent() {
						sameParent = false
					}
				}
				if sameParent && directCallsOf(P, fn) == 0 && perPathOK[f] && complete && exclusiveWithSpawned(P, fn, f) {
					g := gos[0]
					gf := g.Parent()
					// the go site itself is once-per-object: object constructed in that function, or the site is
					// under the object's lock after a state test, or in a go-once function
					recv := g.Call.Args[0]
					once := len(gos) == 1 && isConstruction(recv)
					if !once && len(gos) == 1 {
						gh := heldLocks(gf, entryLocks(gf, ann))
						st := locksAt(gf, gh, g)
						gbase := apString(recv)
						gmf := ComputeMustFacts(gf)
						for ap := range st {
							if strings.HasPrefix(ap, gbase+".") {
								for k, v := range gmf.At(g) {
									if k.op == token.EQL && k.y != nil && v {
										once = true
									}
									_ = v
								}
							}
						}
					}
					if !once && oncePerObject(P, gf, 0) {
						// started from another once-per-object goroutine, at most once per run of it
						nGoOnPath := 0
						WalkPaths(gf, PathOpts{MaxVisits: 2, MaxPaths: 20000}, func(p *Path) bool {
							n := 0
							seen := map[ssa.Instruction]bool{}
							p.ForEach(func(i int, ins ssa.Instruction) bool {
								for _, g2 := range gos {
									if ins == ssa.Instruction(g2) && !seen[ins] {
										seen[ins] = true
										n++
									}
								}
								return true
							})
							if n > nGoOnPath {
								nGoOnPath = n
							}
							return true
						})
						once = nGoOnPath <= 1
					}
					if once {
						idiom = "K2 (closed once per run of a goroutine that is started once per object)"
					}
				}
			}
			c.Check(idiom != "", rule, cons, P.InstrPos(cl), idiom,
				"no election protects this close: none of the recognised idioms holds (won CAS/Swap on the same object; state test + assignment under the object's lock; select-default under a lock; once-per-object goroutine). Two goroutines reaching it close the channel twice (panic), or close it while another still sends")
		}
	}
	c.Floor(rule, "close sites on field channels in "+strings.Join(rels, ","), nSites, floorN)
}

func otherOf(k atomKey, s ssa.Value) ssa.Value {
	if k.x == s {
		return k.y
	}
	return k.x
}

func typeNameOfAP(cl ssa.Instruction) string {
	u, ok := strip(callCommon(cl).Args[0]).(*ssa.UnOp)
	if !ok {
		return "?"
	}
	fa, ok := u.X.(*ssa.FieldAddr)
	if !ok {
		return "?"
	}
	return typeNameOf(fa.X.Type())
}

func c16More(c *Ctx) {
	P := c.P
	c.Rule("C16.R2", "close-once and no send after close: every close of a field channel in tubes and common is protected by an election idiom (won CAS/Swap on the same object, state test + assignment under the object's lock, select-default under a lock, once-per-object goroutine); every send on sender.sendQueue / prioritySendQueue is dominated by the sender's closed flag found false (E5 + E1)")
	c.Rule("C16.R4", "shutdown order: Muxer.Stop starts the tube closes before publishing the stopping state, closes the queues only after wg.Wait(), and the fallback closes the transport before forcing tubes; enterClosedState marks the tube closed before closing the sender and releases r.l while it waits for the send goroutine; Reliable.Write fails once the tube is closed (E1 order)")
	c.Rule("C16.R5", "the sender is armed only together with its goroutine: sender.closed is set to false only on paths that start the send goroutine before returning or releasing r.l (otherwise enterClosedState waits forever for a sendDone that nobody will close) (E1 pairing)")
	c.Rule("C16.R6", "buffered data survives the close: receiver.buffer is appended to only by processIntoBuffer, consumed only by the receiver's read function, never reset, truncated, exposed or replaced (its bytes were acknowledged to the peer; after a local close reads return them and then end-of-stream) (E4 who-may-call, classified by method)")
	closeOnceRule(c, "C16.R2", []string{"tubes", "common"}, 15)
	recvBufferOwners(c, "C16.R6")
	c.Rule("C16.R7", "no send on the muxer's queue after close: every send on Unreliable.sendQueue forwards an item taken from the tube's own queue (the sender goroutine, joined by Close) or lies in a critical section of lifecycleMu in which u.state was loaded and found not closed (Muxer.Stop closes the queue once every Close has returned; a send outside the critical section panics on the closed queue) (E1 + E5)")
	unreliableSendRule(c, "C16.R7")
	c16R8(c)
	c16R9(c)

	// sends on the sender's queues
	fSQ := P.Field("tubes", "sender", "sendQueue")
	fPQ := P.Field("tubes", "sender", "prioritySendQueue")
	fClosed := P.Field("tubes", "sender", "closed")
	nS := 0
	for _, fn := range P.ModuleFuncs("tubes") {
		mf := ComputeMustFacts(fn)
		for _, fq := range []*types.Var{fSQ, fPQ} {
			if fq == nil {
				continue
			}
			for _, s := range chanSends(fn, fq) {
				nS++
				okv := false
				for k, v := range mf.At(s) {
					if k.op == token.ILLEGAL && !v {
						if call, ok := k.x.(*ssa.Call); ok && calleeID(call) == "(sync/atomic.Bool).Load" && lastField(call.Call.Args[0]) == fClosed {
							okv = true
						}
					}
				}
				// or: the caller guarantees it (function only called where the flag was found false)
				if !okv {
					callers := P.LiveCallers(fn)
					all := len(callers) > 0
					for _, e := range callers {
						if e.Site == nil {
							all = false
							continue
						}
						cmf := ComputeMustFacts(e.Caller.Func)
						g := false
						for k, v := range cmf.At(e.Site) {
							if k.op == token.ILLEGAL && !v {
								if call, ok := k.x.(*ssa.Call); ok && calleeID(call) == "(sync/atomic.Bool).Load" && lastField(call.Call.Args[0]) == fClosed {
									g = true
								}
							}
						}
						if !g {
							all = false
						}
					}
					okv = all
				}
				// or: a tube-state test under the tube lock (enterClosedState marks the tube closed under r.l before it
				// closes the sender queues, so "state found open under r.l" implies "queues open")
				if !okv {
					okv = stateGuarded(P, fn, s, 0)
				}
				c.Check(okv, "C16.R2", fmt.Sprintf("send:sender.%s@%s", fq.Name(), FuncName(fn)), P.InstrPos(s), "sent only after the closed flag was found false",
					"a frame is sent on a sender queue without the sender's closed flag having been found false: after sender.Close() this is a send on a closed channel (panic)")
			}
		}
	}
	c.Floor("C16.R2", "sends on sender.sendQueue / prioritySendQueue", nS, 3)

	// ---- R4: Muxer.Stop
	if stop := P.Func("tubes", "(*Muxer).Stop"); stop == nil {
		c.Undecided("C16.R4", "tubes.(*Muxer).Stop", "function not found")
	} else {
		c.Analysed(FuncName(stop))
		fState := P.Field("tubes", "Muxer", "state")
		fs := newFailSet()
		owners := 0
		qFields := map[*types.Var]bool{P.Field("tubes", "Muxer", "sendQueue"): true, P.Field("tubes", "Muxer", "prioritySendQueue"): true, P.Field("tubes", "Muxer", "tubeQueue"): true}
		ok := walkAllOpts(c, "C16.R4", stop, PathOpts{MaxVisits: 2}, func(p *Path) {
			helpers, published, waited := 0, false, false
			isOwner := false
			p.ForEach(func(i int, ins ssa.Instruction) bool {
				call, ok := ins.(*ssa.Call)
				if !ok {
					return true
				}
				switch calleeID(call) {
				case hopID("tubes", "", "closeTubeHelper"):
					helpers++
					if published {
						fs.add("close-tubes-first", "a tube close is started after the stopping state was published: tubes created in between are never closed and Stop waits forever", ins, p)
					}
				case "(sync/atomic.Value).Store", "(sync/atomic.Uint32).Store", "(sync/atomic.Int32).Store":
					if endsInField(call.Call.Args[0], fState, false) {
						published = true
						isOwner = true
					}
				case "(sync.WaitGroup).Wait":
					waited = true
				}
				if b, isB := call.Call.Value.(*ssa.Builtin); isB && b.Name() == "close" {
					if _, f := baseOfFieldValue(call.Call.Args[0]); f != nil && qFields[f] && !waited {
						fs.add("queues-after-wait", "a muxer queue is closed before every tube has finished closing (wg.Wait): a tube still flushing its FIN sends on a closed channel (panic)", ins, p)
					}
				}
				return true
			})
			if isOwner {
				owners++
			}
		})
		if ok {
			fs.report(c, "C16.R4", FuncName(stop), []string{"close-tubes-first", "queues-after-wait"}, P.Pos(stop.Pos()), "tube closes, then stopping state; queues closed after wg.Wait")
			c.Floor("C16.R4", "owner paths of Muxer.Stop", owners, 1)
		}
		// fallback closure: transport closed before forcing tubes
		for _, a := range stop.AnonFuncs {
			var closeT, force ssa.Instruction
			eachInstrDeep(a, func(_ *ssa.Function, ins ssa.Instruction) {
				if call, ok := ins.(*ssa.Call); ok {
					if f := calleeFunc(&call.Call); f != nil && f.Name() == "Close" && call.Call.IsInvoke() && closeT == nil {
						closeT = ins
					}
					if calleeID(call) == hopID("tubes", "Reliable", "enterClosedState") && force == nil {
						force = ins
					}
				}
			})
			if force != nil {
				okv := closeT != nil && closeT.Parent() == a
				if okv {
					// the transport close must come first in the timer function
					for _, g := range a.AnonFuncs {
						_ = g
					}
					okv = closeT.Block().Index <= func() int {
						for _, b := range a.Blocks {
							for _, ins := range b.Instrs {
								if _, isGo := ins.(*ssa.Go); isGo {
									return b.Index
								}
							}
						}
						return 1 << 30
					}()
				}
				c.Check(okv, "C16.R4", FuncName(a)+"#transport-before-force", P.Pos(a.Pos()), "fallback closes the transport before forcing tubes closed", "the shutdown fallback forces tubes closed without first closing the transport: the forced close can block behind a muxer sender stuck in a transport write, and Stop never completes")
			}
		}
	}
	// enterClosedState
	if ecs := P.Func("tubes", "(*Reliable).enterClosedState"); ecs == nil {
		c.Undecided("C16.R4", "tubes.(*Reliable).enterClosedState", "function not found")
	} else {
		c.Analysed(FuncName(ecs))
		fTS := P.Field("tubes", "Reliable", "tubeState")
		fL := P.Field("tubes", "Reliable", "l")
		fSD := P.Field("tubes", "Reliable", "sendDone")
		fs := newFailSet()
		ok := walkAll(c, "C16.R4", ecs, func(p *Path) {
			marked, held := false, true // +checklocks:r.l at entry
			p.ForEach(func(i int, ins ssa.Instruction) bool {
				if st, ok := ins.(*ssa.Store); ok && endsInField(st.Addr, fTS, false) {
					marked = true
				}
				if call, ok := ins.(*ssa.Call); ok {
					switch calleeID(call) {
					case hopID("tubes", "sender", "Close"):
						if !marked {
							fs.add("closed-before-drain", "the sender queues are closed before the tube is marked closed: a producer that still sees the tube open sends on a closed queue (panic)", ins, p)
						}
					case "(sync.Mutex).Unlock":
						if endsInField(call.Call.Args[0], fL, false) {
							held = false
						}
					case "(sync.Mutex).Lock":
						if endsInField(call.Call.Args[0], fL, false) {
							held = true
						}
					}
				}
				if u, ok := ins.(*ssa.UnOp); ok && u.Op == token.ARROW && endsInField(u.X, fSD, false) && held {
					fs.add("unlock-while-waiting", "enterClosedState waits for the send goroutine while holding r.l, which that goroutine needs to finish: deadlock", ins, p)
				}
				return true
			})
		})
		if ok {
			fs.report(c, "C16.R4", FuncName(ecs), []string{"closed-before-drain", "unlock-while-waiting"}, P.Pos(ecs.Pos()), "closed published first; r.l released while waiting for sendDone")
		}
	}
	// Reliable.Write after close
	if wr := P.Func("tubes", "(*Reliable).Write"); wr != nil {
		fTS := P.Field("tubes", "Reliable", "tubeState")
		c.Analysed(FuncName(wr))
		n := 0
		closedC := pkgConst(P, "tubes", "closed")
		for _, cs := range callSitesIn(wr, false, hopID("tubes", "sender", "write")) {
			n++
			// on every path to the call the tube state was found equal to a state other than closed
			okv := true
			WalkPaths(wr, PathOpts{}, func(p *Path) bool {
				p.ForEach(func(i int, ins ssa.Instruction) bool {
					if ins != ssa.Instruction(cs) {
						return true
					}
					g := false
					for k, v := range p.FactsAt(i) {
						if k.op == token.EQL && k.y != nil && v && (lastField(k.x) == fTS || lastField(k.y) == fTS) {
							for _, s := range []ssa.Value{k.x, k.y} {
								if n2, isC := constInt(s); isC && n2 != closedC {
									g = true
								}
							}
						}
					}
					if !g {
						okv = false
					}
					return true
				})
				return true
			})
			c.Check(okv, "C16.R4", FuncName(wr)+"#write-state", P.InstrPos(cs), "data handed to the sender only in a state that accepts writes", "Reliable.Write hands data to the sender without having found the tube in a writable state: writes after Close would be accepted")
		}
		c.Floor("C16.R4", "sender.write calls in Reliable.Write", n, 1)
	}

	// ---- R5
	nArm := 0
	for _, fn := range P.ModuleFuncs("tubes") {
		var arms []*ssa.Call
		eachInstr(fn, func(ins ssa.Instruction) {
			if call, ok := ins.(*ssa.Call); ok && calleeID(call) == "(sync/atomic.Bool).Store" && lastField(call.Call.Args[0]) == fClosed {
				if v, isC := constBool(call.Call.Args[1]); isC && !v {
					arms = append(arms, call)
				}
			}
		})
		if len(arms) == 0 {
			continue
		}
		fL := P.Field("tubes", "Reliable", "l")
		fs := newFailSet()
		ok := walkAllOpts(c, "C16.R5", fn, PathOpts{MaxVisits: 2}, func(p *Path) {
			armed := false
			var armIns ssa.Instruction
			p.ForEach(func(i int, ins ssa.Instruction) bool {
				for _, a := range arms {
					if ins == ssa.Instruction(a) {
						armed, armIns = true, ins
						nArm++
					}
				}
				if g, ok := ins.(*ssa.Go); ok && calleeID(g) == hopID("tubes", "Reliable", "send") {
					armed = false
				}
				if call, ok := ins.(*ssa.Call); ok && calleeID(call) == "(sync.Mutex).Unlock" && endsInField(call.Call.Args[0], fL, false) && armed {
					fs.add("arm-with-goroutine", "the sender is marked open and r.l is released before the send goroutine is started: a close that lands in between waits forever for sendDone", armIns, p)
					armed = false
				}
				return true
			})
			if armed {
				fs.add("arm-with-goroutine", "the sender is marked open on a path that returns without starting the send goroutine: enterClosedState will wait forever for sendDone", armIns, p)
			}
		})
		if ok {
			fs.report(c, "C16.R5", FuncName(fn), []string{"arm-with-goroutine"}, P.Pos(fn.Pos()), "sender armed only where its goroutine is started under the same hold of r.l")
		}
	}
	c.Floor("C16.R5", "sender arming sites on paths", nArm, 1)
}

func sameRootAP(a, b string) bool {
	ra, rb := a, b
	if i := strings.IndexAny(a, ".["); i >= 0 {
		ra = a[:i]
	}
	if i := strings.IndexAny(b, ".["); i >= 0 {
		rb = b[:i]
	}
	return ra == rb
}

// oncePerObject: fn is only ever started as a goroutine, from one site, where the object is constructed
// (or from another once-per-object function).
func oncePerObject(P *Program, fn *ssa.Function, depth int) bool {
	if depth > 3 {
		return false
	}
	gos := goSitesOf(P, fn)
	if len(gos) != 1 || directCallsOf(P, fn) != 0 || len(gos[0].Call.Args) == 0 {
		return false
	}
	if isConstruction(gos[0].Call.Args[0]) {
		return true
	}
	return oncePerObject(P, gos[0].Parent(), depth+1)
}

// exclusiveWithSpawned: on no path of fn does a close of field f coexist with the start of a goroutine
// (of the same package) that also closes f.
func exclusiveWithSpawned(P *Program, fn *ssa.Function, f *types.Var) bool {
	ok := true
	WalkPaths(fn, PathOpts{MaxVisits: 2, MaxPaths: 20000}, func(p *Path) bool {
		closes, spawns := 0, 0
		seen := map[ssa.Instruction]bool{}
		p.ForEach(func(i int, ins ssa.Instruction) bool {
			if seen[ins] {
				return true
			}
			seen[ins] = true
			if cc := callCommon(ins); cc != nil {
				if b, isB := cc.Value.(*ssa.Builtin); isB && b.Name() == "close" && len(cc.Args) == 1 {
					if _, f2 := baseOfFieldValue(cc.Args[0]); f2 == f {
						closes++
					}
				}
			}
			if g, isGo := ins.(*ssa.Go); isGo {
				if callee := staticCallee(&g.Call); callee != nil {
					for _, b := range callee.Blocks {
						for _, i2 := range b.Instrs {
							if cc := callCommon(i2); cc != nil {
								if bb, isB := cc.Value.(*ssa.Builtin); isB && bb.Name() == "close" && len(cc.Args) == 1 {
									if _, f2 := baseOfFieldValue(cc.Args[0]); f2 == f {
										spawns++
									}
								}
							}
						}
					}
				}
			}
			return true
		})
		if closes+spawns > 1 {
			ok = false
		}
		return true
	})
	return ok
}

// stateGuarded: instruction at (in fn) executes with Reliable.l held and after a tubeState test, here or in every live caller.
func stateGuarded(P *Program, fn *ssa.Function, at ssa.Instruction, depth int) bool {
	if depth > 3 {
		return false
	}
	fTS := P.Field("tubes", "Reliable", "tubeState")
	ann := parseLockAnnotations(P)
	held := heldLocks(fn, entryLocks(fn, ann))
	st := locksAt(fn, held, at)
	lockOK := false
	for ap := range st {
		if strings.HasSuffix(ap, ".l") {
			lockOK = true
		}
	}
	if lockOK {
		found := false
		WalkPaths(fn, PathOpts{MaxVisits: 2, MaxPaths: 20000}, func(p *Path) bool { return true })
		mf := ComputeMustFacts(fn)
		for k, v := range mf.At(at) {
			if excludesClosed(P, k, v, fTS) {
				found = true
			}
		}
		if found {
			return true
		}
	}
	callers := P.LiveCallers(fn)
	if len(callers) == 0 {
		return false
	}
	for _, e := range callers {
		if e.Site == nil {
			return false
		}
		if _, isGo := e.Site.(*ssa.Go); isGo {
			return false // what held when the goroutine was started says nothing about later
		}
		// path-sensitive: every path to the call has a tubeState fact and the lock
		cf := e.Caller.Func
		okAll := true
		cheld := heldLocks(cf, entryLocks(cf, ann))
		cst := locksAt(cf, cheld, e.Site)
		lk := false
		for ap := range cst {
			if strings.HasSuffix(ap, ".l") {
				lk = true
			}
		}
		if !lk {
			if !stateGuarded(P, cf, e.Site, depth+1) {
				return false
			}
			continue
		}
		seenSite := false
		WalkPaths(cf, PathOpts{MaxVisits: 2, MaxPaths: 20000}, func(p *Path) bool {
			p.ForEach(func(i int, ins ssa.Instruction) bool {
				if ins == ssa.Instruction(e.Site) {
					seenSite = true
					g := false
					for k, v := range p.FactsAt(i) {
						if excludesClosed(P, k, v, fTS) {
							g = true
						}
					}
					if !g {
						okAll = false
					}
				}
				return true
			})
			return true
		})
		if !okAll || !seenSite {
			if !stateGuarded(P, cf, e.Site, depth+1) {
				return false
			}
		}
	}
	return true
}
func excludesClosed(P *Program, k atomKey, v bool, fTS *types.Var) bool {
	if k.op != token.EQL || k.y == nil || !(lastField(k.x) == fTS || lastField(k.y) == fTS) {
		return false
	}
	closedC := pkgConst(P, "tubes", "closed")
	for _, s := range []ssa.Value{k.x, k.y} {
		if n, isC := constInt(s); isC {
			if v && n != closedC {
				return true
			}
			if !v && n == closedC {
				return true
			}
		}
	}
	return false
}

// factExcludes: the fact  (subject == C) = val  guarantees that the state differs from the value V that the
// election assigns: either state == C with C != V, or state != V.
func factExcludes(k atomKey, val bool, subject ssa.Value, assigned ssa.Value) bool {
	other := otherOf(k, subject)
	c1, ok1 := constInt(other)
	// atomic.Value.Store(x) wraps x in an interface
	a := assigned
	if mi, ok := a.(*ssa.MakeInterface); ok {
		a = mi.X
	}
	if mi, ok := other.(*ssa.MakeInterface); ok {
		c1, ok1 = constInt(mi.X)
	}
	v, ok2 := constInt(a)
	if !ok1 || !ok2 {
		return false
	}
	if val {
		return c1 != v
	}
	return c1 == v
}

// recvBufferOwners (C16.R6, shared as C08.R7): the reassembled stream has one producer and one consumer.
// Bytes in receiver.buffer were acknowledged to the peer, which has dropped its copy; they leave the
// buffer only by being read. Every method call on that bytes.Buffer in the module is classified:
//
//	appending (Write*, ReadFrom)                      only in processIntoBuffer
//	consuming (Read*, Next, WriteTo)                  only in the receiver's read function
//	discarding / exposing (Reset, Truncate, Bytes)    nowhere
//	observing (Len, Cap, String, Available, Grow)     anywhere
//
// and the field itself is stored only where the receiver is constructed.
func recvBufferOwners(c *Ctx, rule string) {
	P := c.P
	fBuf := P.Field("tubes", "receiver", "buffer")
	producer := P.Func("tubes", "(*receiver).processIntoBuffer")
	consumer := P.Func("tubes", "(*receiver).read")
	if fBuf == nil || producer == nil || consumer == nil {
		c.Undecided(rule, "tubes.receiver.buffer", "field, processIntoBuffer or read not found")
		return
	}
	class := map[string]string{
		"Write": "append", "WriteByte": "append", "WriteRune": "append", "WriteString": "append", "ReadFrom": "append",
		"Read": "consume", "ReadByte": "consume", "ReadBytes": "consume", "ReadRune": "consume", "ReadString": "consume", "Next": "consume", "WriteTo": "consume",
		"Reset": "discard", "Truncate": "discard", "Bytes": "discard", "UnreadByte": "discard", "UnreadRune": "discard", "AvailableBuffer": "discard",
		"Len": "observe", "Cap": "observe", "String": "observe", "Available": "observe", "Grow": "observe",
	}
	n := 0
	cnt := map[string]int{}
	for _, f := range P.ModuleFuncs() {
		if f.Pkg == nil || f.Blocks == nil {
			continue
		}
		eachInstr(f, func(ins ssa.Instruction) {
			switch x := ins.(type) {
			case *ssa.Store:
				fa, ok := x.Addr.(*ssa.FieldAddr)
				if !ok || fieldOf(fa.X.Type(), fa.Field) != fBuf {
					return
				}
				n++
				cnt[FuncName(f)+"#store"]++
				cons := fmt.Sprintf("%s#buffer-store%d", FuncName(f), cnt[FuncName(f)+"#store"])
				// constructing: the receiver object was allocated in this function
				root, _ := accessPath(fa.X)
				_, fresh := lookThrough(root).(*ssa.Alloc)
				c.Check(fresh, rule, cons, P.InstrPos(ins), "set where the receiver is constructed", "the receive buffer of an existing receiver is replaced: bytes that were acknowledged but not yet read are lost")
			case *ssa.Call:
				fn := calleeFunc(&x.Call)
				if fn == nil || x.Call.IsInvoke() || len(x.Call.Args) == 0 || lastField(x.Call.Args[0]) != fBuf {
					return
				}
				n++
				key := FuncName(f) + "#" + fn.Name()
				cnt[key]++
				cons := fmt.Sprintf("%s#buffer.%s%d", FuncName(f), fn.Name(), cnt[key])
				switch class[fn.Name()] {
				case "observe":
					c.OK(rule, cons, P.InstrPos(ins), "observes the buffer")
				case "append":
					c.Check(P.OwnedBy(f, producer), rule, cons, P.InstrPos(ins), "appended by the in-order producer", "bytes are appended to the receive buffer outside processIntoBuffer: the stream the application reads is no longer the in-order reassembly")
				case "consume":
					c.Check(P.OwnedBy(f, consumer), rule, cons, P.InstrPos(ins), "consumed by the reader", "bytes are taken out of the receive buffer outside the receiver's read function: they were acknowledged to the peer and never reach the application")
				default:
					c.Fail(rule, cons, P.InstrPos(ins), fmt.Sprintf("the receive buffer is discarded or exposed (%s) outside reading: bytes that were acknowledged to the peer but not yet read are lost (after a local close reads must still return the buffered data before end-of-stream)", fn.Name()))
				}
			}
		})
	}
	c.Floor(rule, "uses of receiver.buffer", n, 4)
}

// unreliableSendRule (C16.R7, shared as C11.R6): nothing is sent on the muxer's queue once the tube may have
// finished closing. Muxer.Stop closes that queue after every tube's Close has returned; Unreliable.Close
// takes lifecycleMu, so a producer that tests the state and sends inside one critical section of
// lifecycleMu cannot overlap with a completed Close. Every send on Unreliable.sendQueue must therefore
//   - forward an item taken from the tube's own queue (the sender goroutine, which Close joins), or
//   - happen with lifecycleMu held, after u.state was loaded in the same critical section and found
//     not closed on the path.
//
// A send outside the critical section can hit the closed queue: "send on closed channel" in the muxer's
// receive goroutine, triggered by a peer that repeats its REQ while the local side shuts down.
func unreliableSendRule(c *Ctx, rule string) {
	P := c.P
	fSQ := P.Field("tubes", "Unreliable", "sendQueue")
	fMu := P.Field("tubes", "Unreliable", "lifecycleMu")
	fState := P.Field("tubes", "Unreliable", "state")
	if fSQ == nil || fMu == nil || fState == nil {
		c.Undecided(rule, "tubes.Unreliable.sendQueue", "fields not found")
		return
	}
	closedC := pkgConst(P, "tubes", "closed")
	constOf := func(v ssa.Value) (int64, bool) {
		if mi, ok := v.(*ssa.MakeInterface); ok {
			v = mi.X
		}
		return constInt(v)
	}
	nSends := 0
	sendsHere := func(f *ssa.Function) bool {
		has := false
		eachInstr(f, func(ins ssa.Instruction) {
			if s, ok := ins.(*ssa.Send); ok && lastField(s.Chan) == fSQ {
				has = true
			}
		})
		return has
	}
	// a sending helper shared by several callers (unexported, only static calls from this package) is
	// judged where it is called: the path walker enters it, so its send appears on the callers' paths
	isSharedHelper := func(f *ssa.Function) bool {
		if f.Parent() != nil || ast.IsExported(f.Name()) {
			return false
		}
		edges := P.Callers(f)
		if len(edges) == 0 {
			return false
		}
		for _, e := range edges {
			if e.Site == nil || e.Site.Common().StaticCallee() != f || e.Caller.Func.Pkg != f.Pkg {
				return false
			}
			if _, isGo := e.Site.(*ssa.Go); isGo {
				return false
			}
			if !localHelper(e.Caller.Func, f) {
				return false
			}
		}
		return true
	}
	roots := map[*ssa.Function]bool{}
	for _, f := range P.ModuleFuncs("tubes") {
		if !sendsHere(f) {
			continue
		}
		if isSharedHelper(f) {
			for _, e := range P.Callers(f) {
				roots[e.Caller.Func] = true
			}
			continue
		}
		roots[f] = true
	}
	var rootList []*ssa.Function
	for f := range roots {
		rootList = append(rootList, f)
	}
	sort.Slice(rootList, func(i, j int) bool { return FuncName(rootList[i]) < FuncName(rootList[j]) })
	for _, f := range rootList {
		name := FuncName(f)
		c.Analysed(name)
		fs := newFailSet()
		n := 0
		ok := walkAllOpts(c, rule, f, PathOpts{MaxVisits: 1, EmitTruncated: true}, func(p *Path) {
			held, epoch := false, 0
			type ld struct {
				call  *ssa.Call
				epoch int
			}
			var loads []ld
			p.ForEach(func(i int, ins ssa.Instruction) bool {
				switch x := ins.(type) {
				case *ssa.Call:
					if fn := calleeFunc(&x.Call); fn != nil && !x.Call.IsInvoke() && len(x.Call.Args) > 0 {
						switch {
						case fn.Name() == "Lock" && lastField(x.Call.Args[0]) == fMu:
							held = true
							epoch++
						case fn.Name() == "Unlock" && lastField(x.Call.Args[0]) == fMu:
							held = false
						case fn.Name() == "Load" && lastField(x.Call.Args[0]) == fState:
							loads = append(loads, ld{x, epoch})
						}
					}
				case *ssa.Send:
					if lastField(x.Chan) != fSQ {
						return true
					}
					n++
					// the drain: forwards what it took from a channel
					_, _, nodes := provenanceNodes(p, x.X, i)
					for _, nd := range nodes {
						if u, ok := nd.(*ssa.UnOp); ok && u.Op == token.ARROW {
							return true
						}
						if _, ok := nd.(*ssa.Next); ok {
							return true
						}
					}
					if !held {
						fs.add("send-in-critical-section", "a frame is sent on the muxer's queue without holding lifecycleMu: Close (and then Muxer.Stop, which closes the queue) can complete between the state test and the send, and the send panics on the closed queue", x, p)
						return true
					}
					okState := false
					for _, l := range loads {
						if l.epoch != epoch {
							continue
						}
						for key, val := range p.FactsAt(i) {
							if key.op != token.EQL || key.y == nil {
								continue
							}
							for _, pr := range [][2]ssa.Value{{key.x, key.y}, {key.y, key.x}} {
								if strip(pr[0]) != ssa.Value(l.call) {
									continue
								}
								if k, isC := constOf(pr[1]); isC && ((k == closedC && !val) || (k != closedC && val)) {
									okState = true
								}
							}
						}
					}
					if !okState {
						fs.add("send-in-critical-section", "a frame is sent on the muxer's queue in a critical section of lifecycleMu that did not find the tube state different from closed", x, p)
					}
				}
				return true
			})
		})
		nSends += n
		if ok {
			fs.report(c, rule, name, []string{"send-in-critical-section"}, P.Pos(f.Pos()), "every send is the drain or lies in a critical section that found the tube not closed")
		}
	}
	c.Floor(rule, "sends on Unreliable.sendQueue on paths", nSends, 3)
}

// c16R8: no tube joins a muxer that has begun to stop. Muxer.Stop publishes the stopping state and takes
// its snapshot of the tubes to close in one critical section of m.m; the tube constructors run under m.m
// too. A tube inserted after that snapshot is closed by nobody: Stop closes the queues under it, its
// goroutines leak, and a later write or close on it sends on a closed queue. So on every path of
// make...TubeWithID that reaches addTube, m.state was loaded and found equal to the running state.
func c16R8(c *Ctx) {
	P := c.P
	const rule = "C16.R8"
	c.Rule(rule, "no tube joins a stopping muxer: every path of makeReliableTubeWithID / makeUnreliableTubeWithID that inserts the tube (addTube) has loaded m.state and found it equal to muxerRunning, whoever asked for the tube (Stop's snapshot of the tubes to close is taken when the stopping state is published; a tube added later is never closed and outlives the queues) (E1 decision table)")
	fState := P.Field("tubes", "Muxer", "state")
	addT := hopID("tubes", "Muxer", "addTube")
	running := pkgConst(P, "tubes", "muxerRunning")
	if fState == nil {
		c.Undecided(rule, "tubes.Muxer.state", "field not found")
		return
	}
	total := 0
	for _, fname := range []string{"(*Muxer).makeReliableTubeWithID", "(*Muxer).makeUnreliableTubeWithID"} {
		fn := P.Func("tubes", fname)
		if fn == nil {
			c.Undecided(rule, "tubes."+fname, "function not found")
			continue
		}
		name := FuncName(fn)
		c.Analysed(name)
		fs := newFailSet()
		n := 0
		ok := walkAll(c, rule, fn, func(p *Path) {
			var loads []*ssa.Call
			p.ForEach(func(i int, ins ssa.Instruction) bool {
				call, isCall := ins.(*ssa.Call)
				if !isCall {
					return true
				}
				if f := calleeFunc(&call.Call); f != nil && f.Name() == "Load" && !call.Call.IsInvoke() && len(call.Call.Args) == 1 && lastField(call.Call.Args[0]) == fState {
					loads = append(loads, call)
				}
				if calleeID(call) != addT {
					return true
				}
				n++
				okState := false
				for key, val := range p.FactsAt(i) {
					if key.op != token.EQL || key.y == nil {
						continue
					}
					for _, pr := range [][2]ssa.Value{{key.x, key.y}, {key.y, key.x}} {
						for _, l := range loads {
							v := strip(pr[0])
							if cv, ok := v.(*ssa.Convert); ok {
								v = strip(cv.X)
							}
							if v != ssa.Value(l) {
								continue
							}
							if k, isC := constInt(pr[1]); isC && k == running && val {
								okState = true
							}
						}
					}
				}
				if !okState {
					fs.add("running", "a tube is inserted into the muxer on a path where m.state was not found equal to muxerRunning: a tube created while the muxer is stopping is missing from Stop's snapshot, is never closed, and outlives the queues Stop closes", ins, p)
				}
				return true
			})
		})
		total += n
		if ok {
			fs.report(c, rule, name, []string{"running"}, P.Pos(fn.Pos()), "inserted only while running")
		}
	}
	c.Floor(rule, "addTube calls on paths of the tube constructors", total, 2)
}

// c16R9: join the producer before waiting under the lock. Unreliable.Close swaps the state, then takes
// lifecycleMu again and, holding it, waits for senderDone. senderDone is closed by the sender goroutine
// or by initiate, and initiate takes lifecycleMu in its loop: if initiate is still running when Close
// re-acquires the mutex, Close waits for a channel that only a goroutine blocked on that mutex can close.
// initiate announces its end by closing initiateDone (deferred), whatever state it observed. Rule: on every
// path of Close, a receive from initiateDone lies between the state swap and every later acquisition of
// lifecycleMu — not only on the path where the tube was still in the created state.
func c16R9(c *Ctx) {
	P := c.P
	const rule = "C16.R9"
	c.Rule(rule, "join the producer before waiting under the lock: on every path of Unreliable.Close a receive from initiateDone lies between the state swap and every later Lock of lifecycleMu (initiate takes that mutex and is the one that closes senderDone in some states; re-acquiring the mutex while it still runs and then waiting for senderDone deadlocks Close, WaitForClose and Muxer.Stop) (E1 order)")
	fn := P.Func("tubes", "(*Unreliable).Close")
	fMu := P.Field("tubes", "Unreliable", "lifecycleMu")
	fDone := P.Field("tubes", "Unreliable", "initiateDone")
	fState := P.Field("tubes", "Unreliable", "state")
	if fn == nil || fMu == nil || fDone == nil || fState == nil {
		c.Undecided(rule, "tubes.(*Unreliable).Close", "function or fields not found")
		return
	}
	name := FuncName(fn)
	c.Analysed(name)
	fs := newFailSet()
	n := 0
	ok := walkAll(c, rule, fn, func(p *Path) {
		swapped, joined := false, false
		p.ForEach(func(i int, ins ssa.Instruction) bool {
			switch x := ins.(type) {
			case *ssa.Call:
				f := calleeFunc(&x.Call)
				if f == nil || x.Call.IsInvoke() || len(x.Call.Args) == 0 {
					return true
				}
				if (f.Name() == "Swap" || f.Name() == "CompareAndSwap" || f.Name() == "Store") && lastField(x.Call.Args[0]) == fState {
					swapped, joined = true, false
				}
				if f.Name() == "Lock" && lastField(x.Call.Args[0]) == fMu && swapped {
					n++
					if !joined {
						fs.add("joined", "Close re-acquires lifecycleMu after the state swap on a path that has not waited for initiateDone: a still-running initiate needs that mutex to finish, and Close then waits under it for senderDone, which only initiate closes in that state", ins, p)
					}
				}
			case *ssa.UnOp:
				if x.Op == token.ARROW && lastField(x.X) == fDone {
					joined = true
				}
			case *ssa.Select:
				for _, st := range x.States {
					if st.Dir == types.RecvOnly && lastField(st.Chan) == fDone && x.Blocking && len(x.States) == 1 {
						joined = true
					}
				}
			}
			return true
		})
	})
	if ok {
		fs.report(c, rule, name, []string{"joined"}, P.Pos(fn.Pos()), "initiate joined before the mutex is taken again")
		c.Floor(rule, "re-acquisitions of lifecycleMu after the swap on paths of Close", n, 1)
	}
}

// k1Election: the facts that hold at a point say that this caller won an election on an atomic of the
// object rooted at base: a CompareAndSwap found true, or the result of a Swap found different from (or
// identified by) a constant state. The Swap may sit in a local helper that returns its result unchanged
// (markClosed() returns u.state.Swap(closed)).
func k1Election(facts map[atomKey]bool, base string) string {
	isSwap := func(s ssa.Value) bool {
		call, ok := s.(*ssa.Call)
		if !ok {
			return false
		}
		if strings.HasSuffix(calleeID(call), ".Swap") && len(call.Call.Args) > 0 && sameRootAP(apString(call.Call.Args[0]), base) {
			return true
		}
		// a helper of the same object that hands back the Swap result
		g := staticCallee(&call.Call)
		if g == nil || !InModule(g) || len(g.Blocks) == 0 || ast.IsExported(g.Name()) || len(call.Call.Args) == 0 || len(g.Params) == 0 {
			return false
		}
		if !sameRootAP(apString(lookThrough(call.Call.Args[0])), base) || g.Signature.Results().Len() != 1 {
			return false
		}
		n := 0
		for _, b := range g.Blocks {
			r, ok := b.Instrs[len(b.Instrs)-1].(*ssa.Return)
			if !ok {
				continue
			}
			n++
			rv := lookThrough(r.Results[0])
			// a defer-spilled result: the single value stored into the result slot
			if u, isLoad := rv.(*ssa.UnOp); isLoad && u.Op == token.MUL {
				if a, isAlloc := u.X.(*ssa.Alloc); isAlloc {
					if sv := singleStore(a); sv != nil {
						rv = strip(sv)
					}
				}
			}
			sc, ok := rv.(*ssa.Call)
			if !ok || !strings.HasSuffix(calleeID(sc), ".Swap") || len(sc.Call.Args) == 0 {
				return false
			}
			if root, _ := accessPath(sc.Call.Args[0]); lookThrough(root) != ssa.Value(g.Params[0]) {
				return false
			}
		}
		return n > 0
	}
	for k, v := range facts {
		if k.op == token.ILLEGAL && v {
			if call, ok := k.x.(*ssa.Call); ok && strings.HasSuffix(calleeID(call), ".CompareAndSwap") && sameRootAP(apString(call.Call.Args[0]), base) {
				return "K1 (won CompareAndSwap)"
			}
		}
		if k.op == token.EQL && k.y != nil && !v {
			for _, s := range []ssa.Value{k.x, k.y} {
				if isSwap(s) {
					return "K1 (Swap returned a different previous state)"
				}
			}
		}
		if k.op == token.EQL && k.y != nil && v {
			// oldState == created  where oldState is the Swap result: a sub-case of the winner
			for _, s := range []ssa.Value{k.x, k.y} {
				if isSwap(s) {
					if _, isC := constInt(otherOf(k, s)); isC {
						return "K1 (Swap result identifies the winner)"
					}
				}
			}
		}
	}
	return ""
}
