package main

// Self-validation for the thorough tier: the committed mutants of a property
// (source overlays that each break one rule instance, or that must stay silent)
// are analysed by fresh runs of this checker against the tree under test. The
// outcome is recorded in the evidence; it never changes the verdict (a mutant
// whose anchor text no longer occurs in the tree is stale, not a failure).

import (
	"encoding/json"
	"fmt"
	"os"
	"os/exec"
	"path/filepath"
	"regexp"
	"sort"
	"strings"
	"sync"
)

type mutantEdit struct {
	File    string `json:"file"`
	Find    string `json:"find"`
	Replace string `json:"replace"`
}

type mutantSpec struct {
	Name    string       `json:"name"`
	File    string       `json:"file"`
	Find    string       `json:"find"`
	Replace string       `json:"replace"`
	Expect  string       `json:"expect"`
	Rule    string       `json:"rule"`
	Edits   []mutantEdit `json:"edits"`
	Rename  *struct {
		Dir string `json:"dir"`
		Old string `json:"old"`
		New string `json:"new"`
	} `json:"rename"`
}

func selfValidate(prop, repo, vd string, overlayActive bool) map[string]interface{} {
	if overlayActive {
		return nil
	}
	b, err := os.ReadFile(filepath.Join(verifDir(), "mutants", prop+".json"))
	if err != nil {
		return map[string]interface{}{"mutants": 0, "note": "no mutant file for this property"}
	}
	var ms []mutantSpec
	if err := json.Unmarshal(b, &ms); err != nil {
		return map[string]interface{}{"mutants": 0, "note": "mutant file unreadable: " + err.Error()}
	}
	tmp, err := os.MkdirTemp("", "hopverif-sv")
	if err != nil {
		return map[string]interface{}{"mutants": 0, "note": err.Error()}
	}
	defer os.RemoveAll(tmp)
	self, _ := os.Executable()
	type res struct{ status, info string }
	out := make([]res, len(ms))
	sem := make(chan struct{}, 6)
	var wg sync.WaitGroup
	for i := range ms {
		wg.Add(1)
		go func(i int) {
			defer wg.Done()
			sem <- struct{}{}
			defer func() { <-sem }()
			m := ms[i]
			edits := m.Edits
			if len(edits) == 0 {
				edits = []mutantEdit{{m.File, m.Find, m.Replace}}
			}
			cur := map[string]string{}
			if m.Rename != nil {
				// identifier renamed in every non-test file of one directory
				edits = nil
				re := regexp.MustCompile(`\b` + regexp.QuoteMeta(m.Rename.Old) + `\b`)
				ents, _ := os.ReadDir(filepath.Join(repo, m.Rename.Dir))
				for _, en := range ents {
					n := en.Name()
					if !strings.HasSuffix(n, ".go") || strings.HasSuffix(n, "_test.go") {
						continue
					}
					path := filepath.Join(repo, m.Rename.Dir, n)
					bb, err := os.ReadFile(path)
					if err != nil {
						continue
					}
					if out := re.ReplaceAllString(string(bb), m.Rename.New); out != string(bb) {
						cur[path] = out
					}
				}
				if len(cur) == 0 {
					out[i] = res{"stale", "identifier not found"}
					return
				}
			}
			for _, e := range edits {
				path := filepath.Join(repo, e.File)
				src, ok := cur[path]
				if !ok {
					bb, err := os.ReadFile(path)
					if err != nil {
						out[i] = res{"stale", "file missing"}
						return
					}
					src = string(bb)
				}
				if strings.Count(src, e.Find) != 1 {
					out[i] = res{"stale", "anchor text not unique in this tree"}
					return
				}
				cur[path] = strings.Replace(src, e.Find, e.Replace, 1)
			}
			var ov []string
			k := 0
			for path, src := range cur {
				f := filepath.Join(tmp, fmt.Sprintf("m%d_%d.go", i, k))
				k++
				if err := os.WriteFile(f, []byte(src), 0o644); err != nil {
					out[i] = res{"error", err.Error()}
					return
				}
				ov = append(ov, path+"="+f)
			}
			evd := filepath.Join(tmp, fmt.Sprintf("ev%d", i))
			os.MkdirAll(evd, 0o755)
			cmd := exec.Command(self, "check", "--prop", prop, "--tier", "quick", "--repo", repo, "--overlay", strings.Join(ov, ","), "--out", evd)
			ob, _ := cmd.CombinedOutput()
			code := cmd.ProcessState.ExitCode()
			failed := ""
			for _, l := range strings.Split(string(ob), "\n") {
				if strings.HasPrefix(l, "FAILED") || strings.HasPrefix(l, "UNDECIDED") {
					if m.Rule == "" || strings.Contains(l, m.Rule) {
						failed = l
						break
					}
				}
			}
			switch {
			case m.Expect == "kill" && code == 1 && failed != "":
				out[i] = res{"killed", ""}
			case m.Expect == "kill" && code == 1:
				out[i] = res{"killed-by-other-rule", ""}
			case m.Expect == "kill":
				out[i] = res{"survived", fmt.Sprintf("exit %d", code)}
			case code == 0:
				out[i] = res{"silent", ""}
			default:
				out[i] = res{"false-alarm", fmt.Sprintf("exit %d", code)}
			}
		}(i)
	}
	wg.Wait()
	counts := map[string]int{}
	var unexpected []string
	for i, r := range out {
		counts[r.status]++
		if r.status == "survived" || r.status == "false-alarm" || r.status == "error" {
			unexpected = append(unexpected, ms[i].Name+": "+r.status+" "+r.info)
		}
	}
	sort.Strings(unexpected)
	fmt.Printf("SELF-VALIDATION property=%s mutants=%d killed=%d killed-by-other-rule=%d silent-as-expected=%d stale=%d survived=%d false-alarm=%d\n",
		prop, len(ms), counts["killed"], counts["killed-by-other-rule"], counts["silent"], counts["stale"], counts["survived"], counts["false-alarm"])
	for _, u := range unexpected {
		fmt.Println("  self-validation note: " + u)
	}
	return map[string]interface{}{
		"mutants": len(ms), "killed": counts["killed"], "killed_by_other_rule": counts["killed-by-other-rule"],
		"silent_as_expected": counts["silent"], "stale": counts["stale"], "survived": counts["survived"], "false_alarm": counts["false-alarm"],
		"unexpected": unexpected,
		"rule":       "each committed mutant is a source overlay of the tree under test analysed by a fresh run of this checker; 'killed' = the run reported a violation of the named rule; the outcome is informative and does not change the verdict",
	}
}
