package main

// E3 — ranges for narrowing conversions and allocation sizes (built on the
// linear forms and path facts of E2).

import (
	"fmt"
	"go/token"
	"go/types"
	"sort"

	"golang.org/x/tools/go/ssa"
)

func hasLenSym(f lin) bool {
	for s := range f.t {
		if s.kind == 'l' {
			return true
		}
	}
	return false
}

// derivesFromLen: v is computed from a len(...) through arithmetic, phis,
// conversions or module functions that return such a value (sizes summed in a loop).
func derivesFromLen(v ssa.Value, depth int, seen map[ssa.Value]bool) bool {
	if v == nil || depth > 10 || seen[v] {
		return false
	}
	seen[v] = true
	switch x := v.(type) {
	case *ssa.Call:
		if b, ok := x.Call.Value.(*ssa.Builtin); ok {
			return b.Name() == "len"
		}
		if g := staticCallee(&x.Call); g != nil && InModule(g) && g.Blocks != nil && isIntType(x.Type()) {
			for _, b := range g.Blocks {
				if r, ok := b.Instrs[len(b.Instrs)-1].(*ssa.Return); ok && len(r.Results) >= 1 {
					if derivesFromLen(r.Results[0], depth+1, seen) {
						return true
					}
				}
			}
		}
	case *ssa.BinOp:
		switch x.Op {
		case token.ADD, token.SUB, token.MUL, token.SHL:
			return derivesFromLen(x.X, depth+1, seen) || derivesFromLen(x.Y, depth+1, seen)
		}
	case *ssa.Convert:
		return derivesFromLen(x.X, depth+1, seen)
	case *ssa.ChangeType:
		return derivesFromLen(x.X, depth+1, seen)
	case *ssa.Phi:
		for _, e := range x.Edges {
			if derivesFromLen(e, depth+1, seen) {
				return true
			}
		}
	}
	return false
}

// narrowingObs: obligations for conversions to uint8/uint16 of length-derived values.
func narrowingObs(a *boundsAn, ins ssa.Instruction) []boundsOb {
	cv, ok := ins.(*ssa.Convert)
	if !ok {
		return nil
	}
	dl, dh, ok := typeRange(cv.Type())
	if !ok || dl != 0 || (dh != 255 && dh != 65535) {
		return nil
	}
	sl, sh, ok := typeRange(cv.X.Type())
	if !ok || (sl >= dl && sh <= dh) {
		return nil // not narrowing
	}
	operand := cv.X
	limit := dh
	// byte(x >> k): the value that must fit is x itself, in 8+k bits
	if b, isB := operand.(*ssa.BinOp); isB && b.Op == token.SHR {
		if k, isC := constInt(b.Y); isC && k > 0 && k < 48 {
			f := a.formOf(b.X)
			if !hasLenSym(f) && !derivesFromLen(b.X, 0, map[ssa.Value]bool{}) {
				return nil
			}
			return []boundsOb{{ins, fmt.Sprintf("length fits %d bits before narrowing", 8+k), linConst((int64(1) << uint(8+k)) - 1).sub(f)}}
		}
	}
	f := a.formOf(operand)
	if !hasLenSym(f) && !derivesFromLen(operand, 0, map[ssa.Value]bool{}) {
		return nil
	}
	// low byte of a multi-byte encoding: byte(x) next to byte(x >> k) in the same function
	if dh == 255 {
		for _, r := range *operand.Referrers() {
			if b, isB := r.(*ssa.BinOp); isB && b.Op == token.SHR && b.X == operand {
				for _, rr := range *b.Referrers() {
					if c2, isC := rr.(*ssa.Convert); isC {
						if _, h2, ok := typeRange(c2.Type()); ok && h2 == 255 {
							return nil
						}
					}
				}
			}
		}
	}
	return []boundsOb{{ins, fmt.Sprintf("length <= %d before narrowing", limit), linConst(limit).sub(f)}}
}

// peerSized: v derives from bytes read from the peer (binary.*.UintNN / binary.Read target / byte loads).
func derivesFromWire(v ssa.Value, depth int) bool {
	if v == nil || depth > 8 {
		return false
	}
	switch x := v.(type) {
	case *ssa.Call:
		switch calleeID(x) {
		case "(encoding/binary.bigEndian).Uint16", "(encoding/binary.bigEndian).Uint32", "(encoding/binary.bigEndian).Uint64",
			"(encoding/binary.littleEndian).Uint16", "(encoding/binary.littleEndian).Uint32", "(encoding/binary.littleEndian).Uint64":
			return true
		}
	case *ssa.Convert:
		return derivesFromWire(x.X, depth+1)
	case *ssa.ChangeType:
		return derivesFromWire(x.X, depth+1)
	case *ssa.BinOp:
		return derivesFromWire(x.X, depth+1) || derivesFromWire(x.Y, depth+1)
	case *ssa.UnOp:
		if x.Op == token.MUL {
			// load of a byte from a buffer, or of a variable filled by binary.Read
			if ia, ok := x.X.(*ssa.IndexAddr); ok {
				_ = ia
				return true
			}
			if al, ok := x.X.(*ssa.Alloc); ok {
				for _, r := range *al.Referrers() {
					if call, ok := r.(*ssa.Call); ok && calleeID(call) == "encoding/binary.Read" {
						return true
					}
					if mi, ok := r.(*ssa.MakeInterface); ok {
						for _, rr := range *mi.Referrers() {
							if call, ok := rr.(*ssa.Call); ok && calleeID(call) == "encoding/binary.Read" {
								return true
							}
						}
					}
				}
			}
			if fa, ok := x.X.(*ssa.FieldAddr); ok {
				// field filled by binary.Read(&x.f)
				for _, r := range *fa.Referrers() {
					if mi, ok := r.(*ssa.MakeInterface); ok {
						for _, rr := range *mi.Referrers() {
							if call, ok := rr.(*ssa.Call); ok && calleeID(call) == "encoding/binary.Read" {
								return true
							}
						}
					}
				}
			}
		}
	case *ssa.Phi:
		for _, e := range x.Edges {
			if derivesFromWire(e, depth+1) {
				return true
			}
		}
	}
	return false
}

const maxDatagram = 65535

// allocObs: allocation sizes chosen by the peer must be bounded by one datagram.
func allocObs(a *boundsAn, ins ssa.Instruction) []boundsOb {
	ms, ok := ins.(*ssa.MakeSlice)
	if !ok {
		return nil
	}
	var out []boundsOb
	for i, sz := range []ssa.Value{ms.Len, ms.Cap} {
		if sz == nil || (i == 1 && ms.Cap == ms.Len) {
			continue
		}
		if _, isC := sz.(*ssa.Const); isC {
			continue
		}
		if !derivesFromWire(sz, 0) {
			continue
		}
		out = append(out, boundsOb{ins, fmt.Sprintf("peer-chosen allocation size <= %d", maxDatagram), linConst(maxDatagram).sub(a.formOf(sz))})
	}
	return out
}

// rangeRule runs the engine with an extra-obligation generator over fns.
func rangeRule(c *Ctx, rule string, fns []*ssa.Function, gen func(a *boundsAn, ins ssa.Instruction) []boundsOb, msg string, floorWhat string, floorN int) {
	rangeRuleAssuming(c, rule, fns, gen, nil, msg, floorWhat, floorN)
}

// rangeRuleAssuming: as rangeRule, with facts the caller has established at every call site of the
// analysed functions.
func rangeRuleAssuming(c *Ctx, rule string, fns []*ssa.Function, gen func(a *boundsAn, ins ssa.Instruction) []boundsOb, assume func(a *boundsAn), msg string, floorWhat string, floorN int) {
	P := c.P
	eng := newBoundsEngine(P)
	eng.extra = gen
	eng.assume = assume
	sort.Slice(fns, func(i, j int) bool { return FuncName(fns[i]) < FuncName(fns[j]) })
	total := 0
	for _, f := range fns {
		if f == nil || f.Blocks == nil {
			continue
		}
		sum := eng.summary(f)
		if sum == nil {
			continue
		}
		if sum.extraOK+len(sum.extraBad) == 0 {
			continue
		}
		name := FuncName(f)
		c.Analysed(name)
		total += sum.extraOK + len(sum.extraBad)
		cnt := map[string]int{}
		for _, ob := range sum.extraBad {
			cnt[ob.what]++
			c.Fail(rule, fmt.Sprintf("%s#%s#%d", name, ob.what, cnt[ob.what]), P.InstrPos(ob.ins), fmt.Sprintf("%s: cannot show %s here (needs %s >= 0)", msg, ob.what, ob.e.String()))
		}
		if len(sum.extraBad) == 0 {
			c.OK(rule, name+"#ranges", P.Pos(f.Pos()), fmt.Sprintf("%d site(s) bounded at the point of use", sum.extraOK))
		}
	}
	c.Floor(rule, floorWhat, total, floorN)
}

func pkgFuncs(P *Program, live bool, rels ...string) []*ssa.Function {
	var out []*ssa.Function
	lv := P.Live()
	for _, f := range P.ModuleFuncs(rels...) {
		if live && !lv[f] {
			continue
		}
		out = append(out, f)
	}
	return out
}

var _ = types.Typ

// shiftObs: a shift by a variable amount that can reach the width of the shifted value yields 0 in Go
// (no trap): in byte-packing code that silently drops the operand. Obligation: count <= width-1.
func shiftObs(a *boundsAn, ins ssa.Instruction) []boundsOb {
	b, ok := ins.(*ssa.BinOp)
	if !ok || (b.Op != token.SHL && b.Op != token.SHR) {
		return nil
	}
	if _, isC := b.Y.(*ssa.Const); isC {
		return nil
	}
	bt, ok := b.X.Type().Underlying().(*types.Basic)
	if !ok {
		return nil
	}
	width := int64(0)
	switch bt.Kind() {
	case types.Int8, types.Uint8:
		width = 8
	case types.Int16, types.Uint16:
		width = 16
	case types.Int32, types.Uint32:
		width = 32
	case types.Int64, types.Uint64, types.Int, types.Uint, types.Uintptr:
		width = 64
	default:
		return nil
	}
	return []boundsOb{{ins, fmt.Sprintf("shift count < %d", width), linConst(width - 1).sub(a.formOf(b.Y))}}
}

// narrowArithObs: an addition, constant multiplication or constant left shift carried out IN an 8- or
// 16-bit unsigned type on a value read from the wire or derived from a length, whose result is an
// operand of a comparison (a bound test), must not wrap above the type's range at that point: a
// decoder's test written as `n+3 > size` in byte arithmetic lets n = 253..255 through. Sums that
// feed a slice expression are not covered here (the run-time bounds check sees the wrapped value
// and panics: C10's subject), nor are subtractions (guarded by a test on a value that go/ssa
// reloads from memory; the engine does not merge those loads).
func narrowArithObs(a *boundsAn, ins ssa.Instruction) []boundsOb {
	b, ok := ins.(*ssa.BinOp)
	if !ok {
		return nil
	}
	switch b.Op {
	case token.ADD:
	case token.MUL:
		_, cx := constInt(b.X)
		_, cy := constInt(b.Y)
		if !cx && !cy {
			return nil
		}
	case token.SHL:
		if _, cy := constInt(b.Y); !cy {
			return nil
		}
	default:
		return nil
	}
	lo, hi, ok := typeRange(b.Type())
	if !ok || lo != 0 || (hi != 255 && hi != 65535) {
		return nil
	}
	if !derivesFromWire(b.X, 0) && !derivesFromWire(b.Y, 0) &&
		!derivesFromLen(b.X, 0, map[ssa.Value]bool{}) && !derivesFromLen(b.Y, 0, map[ssa.Value]bool{}) {
		return nil
	}
	if !feedsComparison(b, 0) {
		return nil
	}
	var f lin
	switch b.Op {
	case token.ADD:
		f = a.formOf(reachingLocal(b.X)).add(a.formOf(reachingLocal(b.Y)))
	case token.MUL:
		if n, ok := constInt(b.Y); ok {
			f = a.formOf(reachingLocal(b.X)).scale(n)
		} else {
			n, _ := constInt(b.X)
			f = a.formOf(reachingLocal(b.Y)).scale(n)
		}
	default:
		n, _ := constInt(b.Y)
		if n < 0 || n >= 16 {
			return nil
		}
		f = a.formOf(reachingLocal(b.X)).scale(1 << uint(n))
	}
	return []boundsOb{{ins, fmt.Sprintf("no wrap above %d in %d-bit arithmetic feeding a bound test", hi, bitsOf(hi)), linConst(hi).sub(f)}}
}

// reachingLocal: go/ssa reloads a local whose address was taken (binary.Read(r, order, &n)) at every
// use. A load of such a local holds what the closest preceding load of the same local saw when only
// a unique-predecessor chain without stores to it and without calls lies between the two: the value
// the guard tested is the value the sum uses.
func reachingLocal(v ssa.Value) ssa.Value {
	ld, ok := v.(*ssa.UnOp)
	if !ok || ld.Op != token.MUL {
		return v
	}
	al, ok := ld.X.(*ssa.Alloc)
	if !ok {
		return v
	}
	b := ld.Block()
	idx := instrIndex(ld)
	first := ssa.Value(ld)
	for hops := 0; hops < 8; hops++ {
		for k := idx - 1; k >= 0; k-- {
			switch x := b.Instrs[k].(type) {
			case *ssa.Store:
				if x.Addr == ssa.Value(al) {
					return first
				}
			case *ssa.UnOp:
				if x.Op == token.MUL && x.X == ssa.Value(al) {
					first = x
				}
			case *ssa.Call:
				if _, isB := x.Call.Value.(*ssa.Builtin); !isB {
					return first
				}
			case *ssa.Go, *ssa.Defer:
				return first
			}
		}
		if len(b.Preds) != 1 {
			return first
		}
		b = b.Preds[0]
		idx = len(b.Instrs)
	}
	return first
}

// feedsComparison: v, possibly widened by conversions, is an operand of an ordering or equality test.
func feedsComparison(v ssa.Value, depth int) bool {
	if depth > 3 || v.Referrers() == nil {
		return false
	}
	for _, r := range *v.Referrers() {
		switch x := r.(type) {
		case *ssa.BinOp:
			switch x.Op {
			case token.LSS, token.LEQ, token.GTR, token.GEQ, token.EQL, token.NEQ:
				return true
			}
		case *ssa.Convert:
			if feedsComparison(x, depth+1) {
				return true
			}
		case *ssa.ChangeType:
			if feedsComparison(x, depth+1) {
				return true
			}
		}
	}
	return false
}

func bitsOf(hi int64) int {
	if hi == 255 {
		return 8
	}
	return 16
}
