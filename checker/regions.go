package main

// E2 regions: which byte ranges of a message buffer each duplex / compare /
// copy event consumes, path-sensitively, for the transcript tiling rules of C02.

import (
	"fmt"
	"go/token"
	"go/types"
	"sort"

	"golang.org/x/tools/go/ssa"
)

type bufRegion struct {
	kind   string // A absorbed, D decrypted, K decapsulated, M mac-compared, C cookie, W written kinds for writers
	off    lin
	length lin
	ins    ssa.Instruction
	ord    int
}

func (r bufRegion) String() string {
	return fmt.Sprintf("%s[%s, +%s)", r.kind, r.off.String(), r.length.String())
}

type mirrorWin struct {
	dOff, bufOff, length lin
	ord                  int
}

type regionWalk struct {
	an      *boundsAn
	p       *Path
	bufKey  string
	mirrors map[string][]mirrorWin // root key -> windows mirroring the message buffer
	rebase  lin                    // after copy(b, rest): b[k] == original[k+rebase]
	dirty   map[string]int         // root key -> ordinal of the last element store into it
}

func newAn(P *Program, fn *ssa.Function) *boundsAn {
	eng := newBoundsEngine(P)
	return &boundsAn{eng: eng, fn: fn, forms: map[ssa.Value]lin{}, lens: map[ssa.Value]lin{}, defSeen: map[string]bool{}, in: map[*ssa.BasicBlock]factSet{}}
}

// rootKeyOf gives a stable identity for the storage a slice value views.
func rootKeyOf(v ssa.Value) string {
	switch x := v.(type) {
	case *ssa.Parameter:
		return "param:" + x.Name()
	case *ssa.Alloc:
		return "alloc:" + x.Name()
	case *ssa.MakeSlice:
		return "make:" + x.Name()
	case *ssa.FieldAddr:
		return "field:" + apString(x)
	case *ssa.UnOp:
		if x.Op == token.MUL {
			if _, ok := x.X.(*ssa.FieldAddr); ok {
				return "field:" + apString(x)
			}
		}
	case *ssa.Call:
		return "call:" + x.Name()
	case *ssa.Extract:
		return "call:" + x.Tuple.Name() + "#" + fmt.Sprint(x.Index)
	}
	return "val:" + v.Name()
}

// loc resolves slice value v (at block ordinal at) to (root key, offset, length).
func (w *regionWalk) loc(v ssa.Value, at int) (string, lin, lin, bool) {
	off := linConst(0)
	var length *lin
	for i := 0; i < 32; i++ {
		v = w.p.Resolve(strip(v), at)
		switch x := v.(type) {
		case *ssa.Slice:
			lo := linConst(0)
			if x.Low != nil {
				lo = w.an.formOf(x.Low)
			}
			if length == nil {
				var l lin
				if x.High != nil {
					l = w.an.formOf(x.High).sub(lo)
				} else {
					// until the end of the underlying view: computed after locating it
					_, _, ul, ok := w.loc(x.X, at)
					if !ok {
						return "", lin{}, lin{}, false
					}
					l = ul.sub(lo)
				}
				length = &l
			}
			off = off.add(lo)
			v = x.X
			continue
		case *ssa.Convert, *ssa.ChangeType:
			return "", lin{}, lin{}, false
		case *ssa.SliceToArrayPointer:
			v = x.X
			continue
		}
		break
	}
	l := w.an.lenOf(v)
	if n, ok := arrayLen(v.Type()); ok {
		l = linConst(n)
	}
	if length == nil {
		length = &l
	}
	// a load of a local slice variable: resolve through the last store on the path
	if u, ok := v.(*ssa.UnOp); ok && u.Op == token.MUL {
		if _, isAlloc := u.X.(*ssa.Alloc); isAlloc {
			if d := w.p.Deref(v, at); d != v {
				rk, o2, _, ok := w.loc(d, at)
				if ok {
					return rk, o2.add(off), *length, true
				}
			}
		}
	}
	return rootKeyOf(v), off, *length, true
}

// onBuffer maps a located view to an offset in the original message, directly or through a mirror.
func (w *regionWalk) onBuffer(key string, off, length lin, ord int) (lin, bool) {
	if key == w.bufKey {
		return off.add(w.rebase), true
	}
	wins := w.mirrors[key]
	for i := len(wins) - 1; i >= 0; i-- {
		m := wins[i]
		if last, dirty := w.dirty[key]; dirty && last > m.ord {
			continue // modified after it was copied: no longer a faithful mirror
		}
		// the view starts at or after the window start: offsets are sums of
		// non-negative quantities (slice bounds panic otherwise)
		d := off.sub(m.dOff)
		neg := d.c < 0
		for _, k := range d.t {
			if k < 0 {
				neg = true
			}
		}
		if neg {
			continue
		}
		// containment when both are constant
		if m.length.isConst() && length.isConst() && d.c+length.c > m.length.c {
			continue
		}
		return m.bufOff.add(d), true
	}
	return lin{}, false
}

// readerRegions walks path p of a message reader and returns the regions of parameter buf
// (by name) touched by transcript events, plus diagnostics for unrecognised absorbs.
func readerRegions(P *Program, an *boundsAn, p *Path, bufParam *ssa.Parameter, macBuf *types.Var) (regs []bufRegion, problems []string, lastMac int) {
	w := &regionWalk{an: an, p: p, bufKey: rootKeyOf(bufParam), mirrors: map[string][]mirrorWin{}, rebase: linConst(0), dirty: map[string]int{}}
	ord := 0
	add := func(kind string, off, length lin, ins ssa.Instruction) {
		regs = append(regs, bufRegion{kind, off, length, ins, ord})
	}
	secrets := map[ssa.Value]bool{}       // values that are DH / KEM secrets
	decapsCT := map[ssa.Value]bufRegion{} // secret -> ciphertext region
	absorbed := map[ssa.Value]bool{}
	lastMac = -1
	p.ForEach(func(i int, ins ssa.Instruction) bool {
		ord++
		switch x := ins.(type) {
		case *ssa.Store:
			// element stores into a mirror make it unfaithful
			if ia, ok := x.Addr.(*ssa.IndexAddr); ok {
				w.dirty[rootKeyOf(w.p.Resolve(strip(ia.X), i))] = ord
				if fa, ok := ia.X.(*ssa.FieldAddr); ok {
					w.dirty["field:"+apString(fa)] = ord
				}
			}
		case *ssa.Call:
			args := x.Call.Args
			if b, isB := x.Call.Value.(*ssa.Builtin); isB && b.Name() == "copy" && len(args) == 2 {
				sk, so, sl, ok1 := w.loc(args[1], i)
				dk, do, dl, ok2 := w.loc(args[0], i)
				if ok1 && ok2 {
					if bo, on := w.onBuffer(sk, so, sl, ord); on {
						if dk == w.bufKey {
							// copy(b, rest): the message is re-based
							w.rebase = bo.sub(do)
						} else {
							ln := sl
							if dl.isConst() && (!sl.isConst() || dl.c < sl.c) {
								ln = dl
							}
							w.mirrors[dk] = append(w.mirrors[dk], mirrorWin{do, bo, ln, ord})
						}
					}
				}
				return true
			}
			id := calleeID(x)
			switch {
			case duplexOp(x) == "InitializeEmpty" || duplexOp(x) == "Initialize":
				// the transcript restarts: nothing consumed so far is bound to later MACs
				regs, lastMac = nil, -1
				secrets, decapsCT, absorbed = map[ssa.Value]bool{}, map[ssa.Value]bufRegion{}, map[ssa.Value]bool{}
			case duplexOp(x) == "Absorb" && len(args) == 2:
				v := p.Deref(args[1], i)
				if secrets[v] || secrets[strip(v)] {
					absorbed[v] = true
					absorbed[strip(v)] = true
					if r, ok := decapsCT[v]; ok {
						add("K", r.off, r.length, r.ins)
					}
					return true
				}
				// parse -> marshal -> absorb of the KEM key
				if mc, _ := fromCall(v); mc != nil && calleeFunc(&mc.Call) != nil && calleeFunc(&mc.Call).Name() == "MarshalBinary" {
					recv := callArgs(&mc.Call)[0]
					root, _ := accessPath(p.Deref(recv, i))
					if pc, _ := fromCall(p.Deref(root, i)); pc != nil && calleeID(pc) == hopID("keys", "", "ParseKEMPublicKeyFromBytes") {
						if k, o, l, ok := w.loc(pc.Call.Args[0], i); ok {
							if bo, on := w.onBuffer(k, o, l, ord); on {
								add("A", bo, l, ins)
								return true
							}
						}
					}
				}
				if cv, ok := strip(v).(*ssa.Convert); ok {
					if _, isConst := cv.X.(*ssa.Const); isConst {
						return true // protocol name
					}
				}
				if sl, ok := strip(v).(*ssa.Slice); ok {
					if a, ok := strip(sl.X).(*ssa.Alloc); ok {
						// a literal []byte{...} of constants (replayed headers)
						_ = a
					}
				}
				k, o, l, ok := w.loc(args[1], i)
				if ok {
					if bo, on := w.onBuffer(k, o, l, ord); on {
						add("A", bo, l, ins)
						return true
					}
				}
				problems = append(problems, fmt.Sprintf("%s: absorbs bytes that are not a region of the received message (nor a faithful copy of one)", P.InstrPos(ins)))
			case (duplexOp(x) == "Decrypt") && len(args) == 3:
				if k, o, l, ok := w.loc(args[2], i); ok {
					if bo, on := w.onBuffer(k, o, l, ord); on {
						add("D", bo, l, ins)
					}
				}
			case id == hopID("transport", "", "DecryptCertificates") && len(args) == 2:
				if k, o, l, ok := w.loc(args[1], i); ok {
					if bo, on := w.onBuffer(k, o, l, ord); on {
						add("D", bo, l, ins)
					}
				}
			case id == hopID("keys", "KEMKeyPair", "Decapsulate") && len(args) == 2:
				if k, o, l, ok := w.loc(args[1], i); ok {
					if bo, on := w.onBuffer(k, o, l, ord); on {
						if sv := extractOf(x, 0); sv != nil {
							secrets[sv] = true
							decapsCT[sv] = bufRegion{"K", bo, l, ins, ord}
						}
					}
				}
			case id == hopID("keys", "X25519KeyPair", "DH") || id == hopID("keys", "X25519KeyPair", "Agree") || id == hopID("keys", "Exchangable", "Agree"):
				if sv := extractOf(x, 0); sv != nil {
					secrets[sv] = true
				}
			case id == hopID("transport", "Server", "ReplayPQDuplexFromCookie") && len(args) == 4:
				if k, o, l, ok := w.loc(args[1], i); ok {
					if bo, on := w.onBuffer(k, o, l, ord); on {
						add("C", bo, l, ins)
					}
				}
			default:
				if ci := macCompare(x, macBuf); ci != nil {
					if k, o, l, ok := w.loc(ci.otherArg, i); ok {
						if bo, on := w.onBuffer(k, o, l, ord); on {
							add("M", bo, l, ins)
							lastMac = ord
						}
					}
				}
			}
		}
		return true
	})
	// a decapsulated secret that is never absorbed does not bind its ciphertext
	for sv, r := range decapsCT {
		if !absorbed[sv] {
			problems = append(problems, fmt.Sprintf("%s: the KEM ciphertext is decapsulated but the shared secret is never absorbed (those bytes are not bound to any MAC)", P.InstrPos(r.ins)))
		}
	}
	return
}

// tile checks that regs cover [0, n) without gaps. Returns "" or a description of the first gap.
func tile(regs []bufRegion, n lin) string {
	// dedupe identical ranges
	var rs []bufRegion
	for _, r := range regs {
		dup := false
		for _, q := range rs {
			if q.off.equal(r.off) && q.length.equal(r.length) {
				dup = true
			}
		}
		if !dup {
			rs = append(rs, r)
		}
	}
	sort.SliceStable(rs, func(i, j int) bool {
		d := rs[i].off.sub(rs[j].off)
		if d.isConst() {
			return d.c < 0
		}
		// symbolic: fewer symbols first, then constant part
		if len(rs[i].off.t) != len(rs[j].off.t) {
			return len(rs[i].off.t) < len(rs[j].off.t)
		}
		return rs[i].off.c < rs[j].off.c
	})
	cur := linConst(0)
	for _, r := range rs {
		if !r.off.equal(cur) {
			d := r.off.sub(cur)
			if d.isConst() && d.c < 0 {
				// overlap with what is already covered: fine if it ends inside
				end := r.off.add(r.length)
				e := end.sub(cur)
				if e.isConst() && e.c <= 0 {
					continue
				}
			}
			return fmt.Sprintf("bytes [%s, %s) of the message are not covered by any absorb / decrypt / decapsulate / MAC event (next event covers %s)", cur.String(), r.off.String(), r.String())
		}
		cur = r.off.add(r.length)
	}
	if !cur.equal(n) {
		return fmt.Sprintf("the events cover [0, %s) but the reader reports %s bytes consumed: the tail is not bound to any MAC", cur.String(), n.String())
	}
	return ""
}
