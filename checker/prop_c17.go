package main

// C17 (continued): election / publication, close-before-wait, queue semantics, armed handshake reads.

import (
	"fmt"
	"go/token"
	"go/types"
	"strings"

	"golang.org/x/tools/go/ssa"
)

// closeSitesOf lists close(ch) builtin calls in fn whose channel is a load of field f.
func closeSitesOf(fn *ssa.Function, f *types.Var) []*ssa.Call {
	var out []*ssa.Call
	eachInstr(fn, func(ins ssa.Instruction) {
		if call, ok := ins.(*ssa.Call); ok {
			if b, isB := call.Call.Value.(*ssa.Builtin); isB && b.Name() == "close" && len(call.Call.Args) == 1 && endsInField(call.Call.Args[0], f, false) {
				out = append(out, call)
			}
		}
	})
	return out
}

// isRecvOn: ins receives from a channel loaded from field f.
func isRecvOn(ins ssa.Instruction, f *types.Var) bool {
	switch x := ins.(type) {
	case *ssa.UnOp:
		return x.Op == token.ARROW && endsInField(x.X, f, false)
	case *ssa.Select:
		for _, st := range x.States {
			if st.Dir == types.RecvOnly && endsInField(st.Chan, f, false) {
				return true
			}
		}
	}
	return false
}

func c17R3R4(c *Ctx) {
	P := c.P
	c.Rule("C17.R3", "election and publication: the completion channels (Client.handshakeDone, Client.closeDone, Server.closeDone) are closed only by the caller that won the state CAS, after every store to the result fields they publish (c.err, c.closeErr, s.closeErr); c.err is stored before the CAS that publishes the Error state; other readers of those fields first receive from the channel or see the publishing state; wg.Add precedes the go it counts (E1 order + dominance)")
	c.Rule("C17.R4", "close unblocks before it waits: on the owner path of Client.Close and Server.Close the underlying Close() (and close(stopCookieRotate)) precede every blocking wait; non-owners only wait on closeDone (E1 order)")
	type pub struct {
		fn      string
		done    *types.Var
		results []*types.Var
	}
	cl := func(f string) *types.Var { return P.Field("transport", "Client", f) }
	sv := func(f string) *types.Var { return P.Field("transport", "Server", f) }
	pubs := []pub{
		{"(*Client).Handshake", cl("handshakeDone"), []*types.Var{cl("err"), cl("hs"), cl("ss")}},
		{"(*Client).Close", cl("closeDone"), []*types.Var{cl("closeErr")}},
		{"(*Server).Close", sv("closeDone"), []*types.Var{sv("closeErr")}},
	}
	casID := "(sync/atomic.Uint32).CompareAndSwap"
	for _, pb := range pubs {
		fn := P.Func("transport", pb.fn)
		if fn == nil || pb.done == nil {
			c.Undecided("C17.R3", "transport."+pb.fn, "function or field not found")
			continue
		}
		name := FuncName(fn)
		c.Analysed(name)
		fs := newFailSet()
		nClose := 0
		ok := walkAllOpts(c, "C17.R3", fn, PathOpts{MaxVisits: 2}, func(p *Path) {
			closed := false
			elected := false
			p.ForEach(func(i int, ins ssa.Instruction) bool {
				if call, ok := ins.(*ssa.Call); ok {
					if calleeID(call) == casID {
						if v, known := boolAfter(p, call, i); known && v {
							elected = true
						}
					}
					if b, isB := call.Call.Value.(*ssa.Builtin); isB && b.Name() == "close" && endsInField(call.Call.Args[0], pb.done, false) {
						nClose++
						if closed {
							fs.add("once", "the completion channel can be closed twice on one path (panic: close of closed channel)", ins, p)
						}
						if !elected {
							fs.add("elected", "the completion channel is closed on a path where no state CAS was won: two callers can both close it (panic) or publish an unfinished result", ins, p)
						}
						closed = true
					}
				}
				if st, ok := ins.(*ssa.Store); ok && closed {
					for _, rf := range pb.results {
						if rf != nil && endsInField(st.Addr, rf, false) {
							fs.add("publish-after-store", "a result field ("+rf.Name()+") is stored after the completion channel was closed: waiters released by the close can read the old value", ins, p)
						}
					}
				}
				return true
			})
		})
		if ok {
			fs.report(c, "C17.R3", name, []string{"elected", "once", "publish-after-store"}, P.Pos(fn.Pos()), "closed once by the elected caller, after the result stores")
			c.Floor("C17.R3", "closes of "+pb.done.Name()+" on paths of "+name, nClose, 1)
		}
		// nobody else closes it
		for _, f := range P.ModuleFuncs("transport") {
			if f == fn || (f.Parent() == nil && P.OwnedBy(f, fn)) {
				continue // the owner, or a local helper cut out of it (its close is judged on the owner's paths)
			}
			for _, cs := range closeSitesOf(f, pb.done) {
				c.Fail("C17.R3", "close:"+pb.done.Name()+"@"+FuncName(f), P.InstrPos(cs), "the completion channel is closed outside its owner function")
			}
		}
		// readers of the result fields elsewhere: after a receive on the channel or under the publishing state
		for _, rf := range pb.results {
			if rf == nil || rf.Name() == "hs" || rf.Name() == "ss" {
				continue // hs/ss are read by the I/O paths after Handshake() returned nil (state Open)
			}
			for _, f := range P.ModuleFuncs("transport") {
				var recvs []ssa.Instruction
				eachInstr(f, func(ins ssa.Instruction) {
					if isRecvOn(ins, pb.done) {
						recvs = append(recvs, ins)
					}
				})
				mf := ComputeMustFacts(f)
				eachInstr(f, func(ins ssa.Instruction) {
					u, ok := ins.(*ssa.UnOp)
					if !ok || u.Op != token.MUL || !endsInField(u, rf, false) {
						return
					}
					if _, isFA := u.X.(*ssa.FieldAddr); !isFA {
						return
					}
					okv := false
					for _, r := range recvs {
						if dominatesInstr(r, ins) {
							okv = true
						}
					}
					// owner: a store to the field in this function dominates the load
					for _, st := range storesToField(f, rf) {
						if dominatesInstr(st, ins) {
							okv = true
						}
					}
					// c.err: read under state == clientStateError
					if rf.Name() == "err" {
						for k, v := range mf.At(ins) {
							if k.op == token.EQL && k.y != nil && v {
								if n, isC := constInt(k.y); isC && n == 5 {
									okv = true
								}
								if n, isC := constInt(k.x); isC && n == 5 {
									okv = true
								}
							}
						}
					}
					c.Check(okv, "C17.R3", fmt.Sprintf("read:%s@%s", rf.Name(), FuncName(f)), P.InstrPos(ins), "read after the publication (receive on the completion channel / publishing state / own store)",
						"a published result field ("+rf.Name()+") is read on a path that neither received from its completion channel nor observed the publishing state: the value may not have been stored yet (data race, callers see different results)")
				})
			}
		}
	}
	// c.err stored before CAS(Handshaking -> Error)
	if hsf := P.Func("transport", "(*Client).Handshake"); hsf != nil {
		fErr := cl("err")
		fs := newFailSet()
		n := 0
		ok := walkAllOpts(c, "C17.R3", hsf, PathOpts{MaxVisits: 2}, func(p *Path) {
			stored := false
			p.ForEach(func(i int, ins ssa.Instruction) bool {
				if st, ok := ins.(*ssa.Store); ok && endsInField(st.Addr, fErr, false) {
					stored = true
				}
				if call, ok := ins.(*ssa.Call); ok && calleeID(call) == casID && len(call.Call.Args) == 3 {
					if to, isC := constInt(call.Call.Args[2]); isC && to == 5 {
						n++
						if !stored {
							fs.add("err-before-state", "the Error state is published before c.err is stored: a concurrent Handshake caller that sees the Error state returns an unset error", ins, p)
						}
					}
				}
				return true
			})
		})
		if ok {
			fs.report(c, "C17.R3", FuncName(hsf), []string{"err-before-state"}, P.Pos(hsf.Pos()), "c.err stored before the state that publishes it")
			c.Floor("C17.R3", "transitions to the Error state on paths of Handshake", n, 1)
		}
	}
	// wg.Add before go
	for _, spec := range []struct{ fn, goCallee string }{{"(*Client).clientHandshakeLocked", hopID("transport", "Client", "listen")}} {
		fn := P.Func("transport", spec.fn)
		if fn == nil {
			continue
		}
		for _, b := range fn.Blocks {
			for _, ins := range b.Instrs {
				g, ok := ins.(*ssa.Go)
				if !ok || calleeID(g) != spec.goCallee {
					continue
				}
				added := false
				for _, cs := range callSitesIn(fn, false, "(sync.WaitGroup).Add") {
					if dominatesInstr(cs, g) {
						added = true
					}
				}
				c.Check(added, "C17.R3", FuncName(fn)+"#wg-add-before-go", P.InstrPos(g), "wg.Add dominates the go statement it counts", "the listener goroutine is started without a preceding wg.Add: Close's wg.Wait can return while the goroutine still runs (or Done drives the counter negative)")
			}
		}
	}
	if srv := P.Func("transport", "(*Server).Serve"); srv != nil {
		var firstGo ssa.Instruction
		eachInstr(srv, func(ins ssa.Instruction) {
			if _, ok := ins.(*ssa.Go); ok && firstGo == nil {
				firstGo = ins
			}
		})
		added := false
		if firstGo != nil {
			for _, cs := range callSitesIn(srv, false, "(sync.WaitGroup).Add") {
				if dominatesInstr(cs, firstGo) {
					if n, isC := constInt(cs.Common().Args[1]); isC && n == 2 {
						added = true
					}
				}
			}
		}
		c.Check(added, "C17.R3", FuncName(srv)+"#wg-add-before-go", P.Pos(srv.Pos()), "wg.Add(2) dominates both worker starts", "Serve starts its workers without a preceding wg.Add(2)")
	}

	// ---- R4
	for _, spec := range []struct {
		fn       string
		closeID  []string
		preClose *types.Var // channel that must also be closed before waiting (stopCookieRotate)
		nonOwner *types.Var
	}{
		{"(*Client).Close", []string{hopID("transport", "UDPLike", "Close"), "(net.Conn).Close", "(io.Closer).Close"}, nil, cl("closeDone")},
		{"(*Server).Close", []string{hopID("transport", "UDPLike", "Close"), "(net.Conn).Close", "(io.Closer).Close"}, sv("stopCookieRotate"), sv("closeDone")},
	} {
		fn := P.Func("transport", spec.fn)
		if fn == nil {
			c.Undecided("C17.R4", "transport."+spec.fn, "function not found")
			continue
		}
		name := FuncName(fn)
		fs := newFailSet()
		owners := 0
		ok := walkAllOpts(c, "C17.R4", fn, PathOpts{MaxVisits: 2}, func(p *Path) {
			elected, sockClosed, preClosed := false, false, spec.preClose == nil
			p.ForEach(func(i int, ins ssa.Instruction) bool {
				call, isCall := ins.(*ssa.Call)
				if isCall && calleeID(call) == casID {
					if v, known := boolAfter(p, call, i); known && v {
						elected = true
						owners++
					}
				}
				if isCall && isCall2(call, spec.closeID) {
					sockClosed = true
				}
				if isCall && spec.preClose != nil {
					if b, isB := call.Call.Value.(*ssa.Builtin); isB && b.Name() == "close" && endsInField(call.Call.Args[0], spec.preClose, false) {
						preClosed = true
					}
				}
				blocking := ""
				if isCall && calleeID(call) == "(sync.WaitGroup).Wait" {
					blocking = "wg.Wait"
				}
				if u, ok := ins.(*ssa.UnOp); ok && u.Op == token.ARROW {
					blocking = "channel receive"
					if !elected && spec.nonOwner != nil && !endsInField(u.X, spec.nonOwner, false) {
						fs.add("non-owner", "a caller that did not win the close election waits on something other than closeDone", ins, p)
					}
				}
				if isCall && calleeID(call) == "(sync.Mutex).Lock" || isCall && calleeID(call) == "(sync.RWMutex).Lock" {
					if elected && !endsInField(call.Call.Args[0], P.Field("transport", "Server", "lifecycleMu"), false) {
						blocking = "lock acquisition"
					}
				}
				if blocking != "" && elected && !(sockClosed && preClosed) {
					fs.add("close-first", "the close owner blocks ("+blocking+") before closing the underlying connection"+map[bool]string{true: "", false: " and the cookie-rotation stop channel"}[spec.preClose == nil]+": a reader or handshake blocked on the socket is never released and Close never returns", ins, p)
				}
				return true
			})
		})
		if ok {
			fs.report(c, "C17.R4", name, []string{"close-first", "non-owner"}, P.Pos(fn.Pos()), "owner closes the socket before any blocking wait; others wait on closeDone only")
			c.Floor("C17.R4", "owner paths of "+name, owners, 1)
		}
	}
}

func isCall2(call *ssa.Call, ids []string) bool {
	id := calleeID(call)
	for _, x := range ids {
		if id == x {
			return true
		}
	}
	return false
}

func c17R5(c *Ctx) {
	P := c.P
	c.Rule("C17.R5", "queue semantics order: DeadlineChan.Recv first tries the buffered channel without blocking, then consults the closed flag (EOF), and only then the deadline; Send tests the closed flag under d.m before it can enqueue; Close sets the flag and then cancels the deadline with EOF, under d.m, and never closes C (E1 order)")
	fC := P.Field("common", "DeadlineChan", "C")
	fClosed := P.Field("common", "DeadlineChan", "closed")
	fDl := P.Field("common", "DeadlineChan", "deadline")
	fM := P.Field("common", "DeadlineChan", "m")
	recv := P.Func("common", "(*DeadlineChan).Recv")
	send := P.Func("common", "(*DeadlineChan).Send")
	cls := P.Func("common", "(*DeadlineChan).Close")
	if fC == nil || fClosed == nil || fDl == nil || fM == nil || recv == nil || send == nil || cls == nil || recv.Blocks == nil {
		c.Undecided("C17.R5", "common.DeadlineChan", "type, fields or methods not found")
		return
	}
	closedLoad := func(ins ssa.Instruction) *ssa.Call {
		call, ok := ins.(*ssa.Call)
		if ok && calleeID(call) == "(sync/atomic.Bool).Load" && endsInField(call.Call.Args[0], fClosed, false) {
			return call
		}
		return nil
	}
	usesDeadline := func(ins ssa.Instruction) bool {
		call, ok := ins.(*ssa.Call)
		if !ok {
			return false
		}
		id := calleeID(call)
		return (id == hopID("common", "Deadline", "Done") || id == hopID("common", "Deadline", "Err")) && hasField(call.Call.Args[0], fDl)
	}
	// Recv
	{
		c.Analysed(FuncName(recv))
		fs := newFailSet()
		nDl := 0
		ok := walkAll(c, "C17.R5", recv, func(p *Path) {
			triedBuffered := false
			closedFalse := false
			p.ForEach(func(i int, ins ssa.Instruction) bool {
				if sel, ok := ins.(*ssa.Select); ok {
					recvC := false
					for _, st := range sel.States {
						if st.Dir == types.RecvOnly && endsInField(st.Chan, fC, false) {
							recvC = true
						}
					}
					if recvC && !sel.Blocking && len(sel.States) == 1 {
						triedBuffered = true
					} else if !triedBuffered {
						fs.add("buffered-first", "Recv waits (or looks at the deadline) before a non-blocking attempt on the buffered channel: data queued before Close or before the deadline expired would be lost to EOF / timeout", ins, p)
					}
				}
				if cl := closedLoad(ins); cl != nil {
					if !triedBuffered {
						fs.add("buffered-first", "Recv consults the closed flag before trying the buffered channel: data queued before Close would never be returned", ins, p)
					}
					if v, known := boolAfter(p, cl, i); known && !v {
						closedFalse = true
					}
				}
				if usesDeadline(ins) {
					nDl++
					if !closedFalse {
						fs.add("closed-before-deadline", "Recv reaches the deadline without having found the queue open: after Close a stale deadline error (timeout) can be returned instead of end-of-stream, forever", ins, p)
					}
				}
				return true
			})
			// closed => EOF
			for _, pc := range callsOnPath(p) {
				if cl := closedLoad(pc.call); cl != nil {
					if v, known := boolAfter(p, cl, pc.at); known && v && errReturnClass(p) != nonNil {
						fs.add("closed-before-deadline", "Recv does not return an error when the queue is closed and empty", p.Exit(), p)
					}
				}
			}
		})
		if ok {
			fs.report(c, "C17.R5", FuncName(recv), []string{"buffered-first", "closed-before-deadline"}, P.Pos(recv.Pos()), "buffered data, then closed flag, then deadline")
			c.Floor("C17.R5", "deadline consultations on paths of Recv", nDl, 1)
		}
	}
	// Send
	{
		c.Analysed(FuncName(send))
		fs := newFailSet()
		nSend := 0
		ok := walkAll(c, "C17.R5", send, func(p *Path) {
			held, closedFalse := false, false
			p.ForEach(func(i int, ins ssa.Instruction) bool {
				if call, ok := ins.(*ssa.Call); ok && calleeID(call) == "(sync.Mutex).Lock" && endsInField(call.Call.Args[0], fM, false) {
					held = true
				}
				if cl := closedLoad(ins); cl != nil {
					if v, known := boolAfter(p, cl, i); known && !v && held {
						closedFalse = true
					}
				}
				if sel, ok := ins.(*ssa.Select); ok {
					for _, st := range sel.States {
						if st.Dir == types.SendOnly && endsInField(st.Chan, fC, false) {
							nSend++
							if !closedFalse {
								fs.add("send-open-only", "Send can enqueue without having found the queue open under d.m: an item could be queued after Close (never delivered, or delivered after end-of-stream)", ins, p)
							}
						}
					}
				}
				if s, ok := ins.(*ssa.Send); ok && endsInField(s.Chan, fC, false) {
					nSend++
					if !closedFalse {
						fs.add("send-open-only", "Send can enqueue without having found the queue open under d.m", ins, p)
					}
				}
				return true
			})
		})
		if ok {
			fs.report(c, "C17.R5", FuncName(send), []string{"send-open-only"}, P.Pos(send.Pos()), "enqueue only after closed==false under d.m")
			c.Floor("C17.R5", "enqueue sites on paths of Send", nSend, 1)
		}
	}
	// Close
	{
		c.Analysed(FuncName(cls))
		fs := newFailSet()
		ok := walkAll(c, "C17.R5", cls, func(p *Path) {
			if !isSuccess(p) {
				return
			}
			held, set, cancelled := false, false, false
			p.ForEach(func(i int, ins ssa.Instruction) bool {
				call, ok := ins.(*ssa.Call)
				if !ok {
					return true
				}
				switch calleeID(call) {
				case "(sync.Mutex).Lock":
					if endsInField(call.Call.Args[0], fM, false) {
						held = true
					}
				case "(sync/atomic.Bool).Store":
					if endsInField(call.Call.Args[0], fClosed, false) && held {
						set = true
					}
				case hopID("common", "Deadline", "Cancel"):
					if !set {
						fs.add("close-order", "Close cancels the deadline before setting the closed flag: a receiver woken by the cancel can still find the queue open and block again", ins, p)
					}
					cancelled = true
				}
				return true
			})
			if !set || !cancelled {
				fs.add("close-order", "a successful Close does not both set the closed flag (under d.m) and cancel the deadline (blocked callers would not be released)", p.Exit(), p)
			}
		})
		if ok {
			fs.report(c, "C17.R5", FuncName(cls), []string{"close-order"}, P.Pos(cls.Pos()), "flag set under d.m, then deadline cancelled")
		}
	}
	// nobody closes C
	n := 0
	for _, f := range P.ModuleFuncs() {
		for _, cs := range closeSitesOf(f, fC) {
			// Unreliable.Close closes send.C as part of its own protocol (C16); the queue's own methods must not
			if relPkg(f) == "common" {
				n++
				c.Fail("C17.R5", "close:DeadlineChan.C@"+FuncName(f), P.InstrPos(cs), "the queue's data channel is closed by the queue itself: a concurrent Send panics (send on closed channel)")
			}
		}
	}
	if n == 0 {
		c.OK("C17.R5", "close:DeadlineChan.C", "-", "no method of the queue closes its data channel")
	}
}

func c17R6(c *Ctx) {
	P := c.P
	c.Rule("C17.R6", "handshake reads are armed: in every begin*Handshake function, after each WriteMsgUDP a setHSDeadline() precedes the next ReadMsgUDP, so HSTimeout / HSDeadline bound every wait for the server (E1 typestate)")
	for _, fname := range []string{"(*Client).beginPQDiscoverableHandshake", "(*Client).beginPQHiddenHandshake"} {
		fn := P.Func("transport", fname)
		if fn == nil {
			c.Undecided("C17.R6", "transport."+fname, "function not found")
			continue
		}
		name := FuncName(fn)
		c.Analysed(name)
		fs := newFailSet()
		reads := 0
		ok := walkAll(c, "C17.R6", fn, func(p *Path) {
			armed := false
			nRead := 0
			p.ForEach(func(i int, ins ssa.Instruction) bool {
				call, ok := ins.(*ssa.Call)
				if !ok {
					return true
				}
				switch calleeID(call) {
				case hopID("transport", "UDPLike", "WriteMsgUDP"):
					armed = false
				case hopID("transport", "Client", "setHSDeadline"):
					armed = true
				case hopID("transport", "UDPLike", "ReadMsgUDP"):
					reads++
					nRead++
					if !armed {
						fs.add(fmt.Sprintf("read%d", nRead), "the client waits for the server's answer without arming the handshake deadline after its last write: against a silent server Handshake ignores HSTimeout / HSDeadline and never returns", ins, p)
					}
				}
				return true
			})
		})
		if ok {
			keys := []string{"read1"}
			if fname == "(*Client).beginPQDiscoverableHandshake" {
				keys = []string{"read1", "read2"}
			}
			fs.report(c, "C17.R6", name, keys, P.Pos(fn.Pos()), "every read armed after the preceding write")
			c.Floor("C17.R6", "reads on paths of "+name, reads, 1)
		}
	}
}

// c17R7: Close releases whoever waits on the session. The handle is created by the handshake before the
// state becomes open, so which state Close took over from says nothing about whether a handle exists.
// On every path of Client.Close that publishes completion (close(c.closeDone)), the handle's Close was
// called, or c.ss / c.ss.handle was found nil on that path. A handle left open keeps Read / ReadMsg on the
// closed client blocked for ever (its queue has no close, no deadline and no producer).
func c17R7(c *Ctx) {
	P := c.P
	const rule = "C17.R7"
	c.Rule(rule, "close releases the session's readers: every path of Client.Close that closes closeDone has called Close on c.ss.handle, unless c.ss or c.ss.handle was found nil on that path (a built handle that is not closed leaves Read on the closed client blocked for ever) (E1 decision table)")
	fn := P.Func("transport", "(*Client).Close")
	fSS := P.Field("transport", "Client", "ss")
	fHandle := P.Field("transport", "SessionState", "handle")
	fDone := P.Field("transport", "Client", "closeDone")
	if fn == nil || fSS == nil || fHandle == nil || fDone == nil {
		c.Undecided(rule, "transport.(*Client).Close", "function or fields not found")
		return
	}
	handleClose := hopID("transport", "Handle", "Close")
	name := FuncName(fn)
	c.Analysed(name)
	fs := newFailSet()
	owners := 0
	ok := walkAll(c, rule, fn, func(p *Path) {
		publishes := -1
		closed := false
		var pub ssa.Instruction
		p.ForEach(func(i int, ins ssa.Instruction) bool {
			call, ok := ins.(*ssa.Call)
			if !ok {
				return true
			}
			if b, ok := call.Call.Value.(*ssa.Builtin); ok && b.Name() == "close" && len(call.Call.Args) == 1 && lastField(call.Call.Args[0]) == fDone {
				publishes, pub = i, ins
				return false
			}
			if calleeID(call) == handleClose && len(call.Call.Args) > 0 && lastField(call.Call.Args[0]) == fHandle {
				closed = true
			}
			return true
		})
		if publishes < 0 {
			return
		}
		owners++
		if closed {
			return
		}
		for key, val := range p.FactsAt(publishes) {
			if key.op == token.EQL && key.y == nil && val {
				if f := lastField(key.x); f == fSS || f == fHandle {
					return // nothing to close
				}
			}
		}
		fs.add("handle-closed", "Client.Close completes without closing the session handle on a path where neither c.ss nor c.ss.handle was found nil: a handle built by a handshake that lost the race with Close stays open and Read on the closed client never returns", pub, p)
	})
	if ok {
		fs.report(c, rule, name, []string{"handle-closed"}, P.Pos(fn.Pos()), fmt.Sprintf("holds on all %d completing paths", owners))
		c.Floor(rule, "completing paths of Client.Close", owners, 1)
	}
}

// c17R8: what Handshake reports follows from the state it observed last. The stored handshake error c.err
// is the raw error of the attempt; whether a caller is told that error, nil or end-of-stream depends on
// the lifecycle state after the attempt (Close may have taken over meanwhile). So c.err is returned only
// on paths where the most recent load of c.state, made after any wait on handshakeDone, was found equal
// to the error state. A waiter that returns c.err right after the wait reports "use of closed network
// connection" instead of end-of-stream when Close interrupted the handshake.
func c17R8(c *Ctx) {
	P := c.P
	const rule = "C17.R8"
	c.Rule(rule, "results follow the state observed last: Client.Handshake returns the stored error c.err only where the latest load of c.state, made after any wait on handshakeDone, was found to be the error state (a waiter released by Close must re-evaluate the state and report end-of-stream) (E1 decision table)")
	fn := P.Func("transport", "(*Client).Handshake")
	fErr := P.Field("transport", "Client", "err")
	fState := P.Field("transport", "Client", "state")
	fDone := P.Field("transport", "Client", "handshakeDone")
	if fn == nil || fErr == nil || fState == nil || fDone == nil {
		c.Undecided(rule, "transport.(*Client).Handshake", "function or fields not found")
		return
	}
	errState := pkgConst(P, "transport", "clientStateError")
	name := FuncName(fn)
	c.Analysed(name)
	fs := newFailSet()
	n := 0
	ok := walkAll(c, rule, fn, func(p *Path) {
		r := p.Returns()
		if r == nil || len(r.Results) != 1 {
			return
		}
		last := len(p.Blocks) - 1
		v := p.Resolve(r.Results[0], last)
		if u, isLoad := strip(v).(*ssa.UnOp); !isLoad || u.Op != token.MUL || lastField(u) != fErr {
			return
		}
		n++
		// the latest state load on the path, and whether a wait on handshakeDone follows it
		var latest *ssa.Call
		waitedAfter := false
		p.ForEach(func(i int, ins ssa.Instruction) bool {
			switch x := ins.(type) {
			case *ssa.Call:
				if f := calleeFunc(&x.Call); f != nil && f.Name() == "Load" && !x.Call.IsInvoke() && len(x.Call.Args) == 1 && lastField(x.Call.Args[0]) == fState {
					latest, waitedAfter = x, false
				}
			case *ssa.UnOp:
				if x.Op == token.ARROW && lastField(x.X) == fDone {
					waitedAfter = true
				}
			}
			return true
		})
		okState := false
		if latest != nil && !waitedAfter {
			for key, val := range p.FactsAt(last) {
				if key.op != token.EQL || key.y == nil || !val {
					continue
				}
				for _, pr := range [][2]ssa.Value{{key.x, key.y}, {key.y, key.x}} {
					if strip(pr[0]) == ssa.Value(latest) {
						if k, isC := constInt(pr[1]); isC && k == errState {
							okState = true
						}
					}
				}
			}
		}
		if !okState {
			fs.add("err-only-in-error-state", "Handshake returns the stored error c.err on a path where the state loaded last (after any wait on handshakeDone) was not found to be the error state: a caller released by Close is told the raw socket error instead of end-of-stream", p.Exit(), p)
		}
	})
	if ok {
		fs.report(c, rule, name, []string{"err-only-in-error-state"}, P.Pos(fn.Pos()), fmt.Sprintf("holds on all %d paths that return c.err", n))
		c.Floor(rule, "paths of Handshake that return c.err", n, 1)
	}
}

// c17R9: a timer callback acts on what it finds, not on what it remembers. The tables of handshakes and
// sessions change between the arming of a timer and its expiry (a retransmitted ClientAck replaces the
// pending handshake of an address; a session completes or is closed). A callback given to
// time.AfterFunc in package transport therefore looks the state up again under the lock and captures
// only what it needs for the lookup (the server / client object, addresses, ids): it has no free
// variable holding a *HandshakeState or *SessionState. One that does removes or closes the object that
// armed the timer even when another one took its place — an established session disappears from the
// table, Server.Close no longer closes its handle, and a blocked Read on it is never released.
func c17R9(c *Ctx) {
	P := c.P
	const rule = "C17.R9"
	c.Rule(rule, "timer callbacks act on what they find: a function literal given to time.AfterFunc in package transport captures no *HandshakeState / *SessionState (it re-fetches them under the lock); acting on a captured object removes the state that armed the timer even after another took its place (def-use of closure bindings)")
	isState := func(t types.Type) bool {
		for i := 0; i < 3; i++ {
			if p, ok := t.(*types.Pointer); ok {
				t = p.Elem()
				continue
			}
			break
		}
		n, ok := t.(*types.Named)
		return ok && n.Obj().Pkg() != nil && strings.HasSuffix(n.Obj().Pkg().Path(), "/transport") && (n.Obj().Name() == "HandshakeState" || n.Obj().Name() == "SessionState")
	}
	n := 0
	for _, f := range P.ModuleFuncs("transport") {
		if f.Blocks == nil {
			continue
		}
		eachInstr(f, func(ins ssa.Instruction) {
			call, ok := ins.(*ssa.Call)
			if !ok || calleeID(call) != "time.AfterFunc" || len(call.Call.Args) != 2 {
				return
			}
			mc, ok := call.Call.Args[1].(*ssa.MakeClosure)
			if !ok {
				return // a method value or a function without bindings: nothing captured
			}
			n++
			cons := fmt.Sprintf("%s#timer%d", FuncName(f), n)
			bad := ""
			for i, b := range mc.Bindings {
				if isState(b.Type()) {
					name := "?"
					if fn2, ok := mc.Fn.(*ssa.Function); ok && i < len(fn2.FreeVars) {
						name = fn2.FreeVars[i].Name()
					}
					bad = name
				}
			}
			c.Check(bad == "", rule, cons, P.InstrPos(call), "captures no handshake / session object", "the timer callback captures the handshake / session object "+bad+" that armed it instead of fetching the current one under the lock: when another handshake took its place the callback removes the wrong session (an established one leaves the table; Close never closes its handle)")
		})
	}
	c.Floor(rule, "time.AfterFunc callbacks in transport", n, 1)
}
