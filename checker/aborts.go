package main

// E4 — abort reachability and receive-loop survival.

import (
	"fmt"
	"go/token"
	"go/types"
	"sort"
	"strings"

	"golang.org/x/tools/go/ssa"
)

type abortSite struct {
	fn   *ssa.Function
	ins  ssa.Instruction
	kind string // "panic", "logrus.Panicf", "type-assert", "division", ...
	key  string // function|kind|ordinal
}

// abortSitesIn lists the abort sites of fn.
func abortSitesIn(fn *ssa.Function) []abortSite {
	var out []abortSite
	count := map[string]int{}
	add := func(ins ssa.Instruction, kind string) {
		count[kind]++
		out = append(out, abortSite{fn, ins, kind, fmt.Sprintf("%s|%s|%d", FuncName(fn), kind, count[kind])})
	}
	eachInstr(fn, func(ins ssa.Instruction) {
		switch x := ins.(type) {
		case *ssa.Panic:
			if !x.Pos().IsValid() && fn.Synthetic != "" {
				return
			}
			if !x.Pos().IsValid() {
				// go/ssa artefact after a blocking select: unreachable
				if mi, ok := x.X.(*ssa.MakeInterface); ok {
					if cst, ok := mi.X.(*ssa.Const); ok && cst.Value != nil && strings.Contains(cst.Value.ExactString(), "blocking select matched no case") {
						return
					}
				}
			}
			add(ins, "panic")
		case *ssa.Call:
			f := calleeFunc(&x.Call)
			if f == nil || f.Pkg() == nil {
				return
			}
			p, n := f.Pkg().Path(), f.Name()
			switch {
			case p == "github.com/sirupsen/logrus" && (strings.HasPrefix(n, "Panic") || strings.HasPrefix(n, "Fatal") || n == "Exit"):
				add(ins, "logrus."+n)
			case p == "log" && (strings.HasPrefix(n, "Fatal") || strings.HasPrefix(n, "Panic")):
				add(ins, "log."+n)
			case p == "os" && n == "Exit":
				add(ins, "os.Exit")
			}
		case *ssa.TypeAssert:
			if !x.CommaOk {
				add(ins, "type-assert")
			}
		case *ssa.BinOp:
			if x.Op == token.QUO || x.Op == token.REM {
				if b, ok := x.X.Type().Underlying().(*types.Basic); ok && b.Info()&types.IsInteger != 0 {
					if _, isC := x.Y.(*ssa.Const); !isC {
						add(ins, "division")
					}
				}
			}
		}
	})
	return out
}

// abortReach evaluates the no-reachable-abort rule.
// scope: package rel-paths whose functions are followed and judged.
// table: key -> reason why peer input cannot reach / trigger it.
func abortReach(c *Ctx, rule string, roots []*ssa.Function, scope map[string]bool, table map[string]string) {
	P := c.P
	for _, r := range roots {
		if r == nil {
			c.Undecided(rule, "entry function", "an entry function of the reachability set was not found")
			return
		}
	}
	parent := P.Reach(roots, func(caller, callee *ssa.Function) bool {
		if !InModule(callee) || callee.Synthetic != "" && callee.Blocks == nil {
			return false
		}
		rp := relPkg(callee)
		return scope[rp]
	})
	var fns []*ssa.Function
	for f := range parent {
		fns = append(fns, f)
	}
	sort.Slice(fns, func(i, j int) bool { return FuncName(fns[i]) < FuncName(fns[j]) })
	nSites := 0
	used := map[string]bool{}
	for _, f := range fns {
		if f.Synthetic != "" {
			continue
		}
		for _, s := range abortSitesIn(f) {
			nSites++
			cons := "abort:" + s.key
			if why, ok := table[s.key]; ok {
				used[s.key] = true
				c.OK(rule, cons, P.InstrPos(s.ins), "tabled assertion: "+why)
				continue
			}
			c.Fail(rule, cons, P.InstrPos(s.ins), fmt.Sprintf("an abort (%s) is reachable from the peer-input entry points and is not on the assertion table: peer-controlled input may crash the process", s.kind), chain(parent, f)...)
		}
	}
	c.extra[rule+"_reachable_functions"] = len(fns)
	c.extra[rule+"_abort_sites"] = nSites
	var names []string
	for _, f := range fns {
		names = append(names, FuncName(f))
	}
	if len(names) > 400 {
		names = names[:400]
	}
	c.extra[rule+"_functions"] = names
	if len(scope) > 1 {
		c.Floor(rule, "functions reachable from the entry points", len(fns), 20)
	}
}

// loopSurvival: within fn, every call to one of handlerIDs sits in a loop, and
// no path from a non-nil error of that call leaves the loop (returns / breaks)
// except under the state test that legitimately ends the loop.
// exitOK(ins) says whether a return/exit instruction is an accepted loop exit.
func inLoop(b *ssa.BasicBlock) bool {
	// b is in a cycle iff b reaches itself
	seen := map[*ssa.BasicBlock]bool{}
	var stack []*ssa.BasicBlock
	stack = append(stack, b.Succs...)
	for len(stack) > 0 {
		x := stack[len(stack)-1]
		stack = stack[:len(stack)-1]
		if x == b {
			return true
		}
		if seen[x] {
			continue
		}
		seen[x] = true
		stack = append(stack, x.Succs...)
	}
	return false
}

// reachesWithoutPassing: can control flow from block 'from' reach an exit block
// (Return/Panic) without passing through block 'via'?
func escapesLoop(from *ssa.BasicBlock, header *ssa.BasicBlock) *ssa.BasicBlock {
	seen := map[*ssa.BasicBlock]bool{}
	stack := []*ssa.BasicBlock{from}
	for len(stack) > 0 {
		x := stack[len(stack)-1]
		stack = stack[:len(stack)-1]
		if seen[x] || x == header {
			continue
		}
		seen[x] = true
		last := x.Instrs[len(x.Instrs)-1]
		switch last.(type) {
		case *ssa.Return, *ssa.Panic:
			return x
		}
		stack = append(stack, x.Succs...)
	}
	return nil
}
