package main

import (
	"fmt"
	"go/token"
	"go/types"

	"golang.org/x/tools/go/ssa"
)

// c18HostPort (C18.R5): host:port text on the wire is written by the inverse of what parses it.
//
// A package whose decoder takes an address apart with net.SplitHostPort (or hands it to a net.Resolve*Addr
// / netip.ParseAddrPort) must build the address text it sends with net.JoinHostPort or the String method
// of an address type: those bracket an IPv6 host. Text assembled with fmt.Sprint* or string concatenation
// from a net.IP / netip.Addr has no brackets, and the decoder refuses it ("too many colons"), so an IPv6
// request does not round-trip. The rule follows every string that such a package turns into bytes (string
// -> []byte conversion, WriteString) backwards through phis and conversions to the operations that made
// it, and reports an assembling operation one of whose operands is an IP address.
func c18HostPort(c *Ctx) {
	P := c.P
	const rule = "C18.R5"
	c.Rule(rule, "host:port text agrees between encoder and decoder: in a package whose decoder splits addresses with net.SplitHostPort / net.Resolve*Addr, every string turned into wire bytes that is assembled from an IP address is assembled by net.JoinHostPort or an address type's String method, never by fmt.Sprint* or concatenation (an unbracketed IPv6 host does not decode) (def-use, sibling agreement)")
	isIPType := func(t types.Type) bool {
		if p, ok := t.(*types.Pointer); ok {
			t = p.Elem()
		}
		n, ok := t.(*types.Named)
		if !ok || n.Obj().Pkg() == nil {
			return false
		}
		pk, nm := n.Obj().Pkg().Path(), n.Obj().Name()
		return (pk == "net" && (nm == "IP" || nm == "IPAddr")) || (pk == "net/netip" && nm == "Addr")
	}
	splitters := map[string]bool{"net.SplitHostPort": true, "net.ResolveTCPAddr": true, "net.ResolveUDPAddr": true, "net/netip.ParseAddrPort": true}
	nDecoders, nStrings := 0, 0
	for _, rel := range []string{"portforwarding", "authgrants", "codex", "userauth", "common", "certs"} {
		var decoders []*ssa.Function
		for _, f := range pkgFuncs(P, true, rel) {
			eachInstr(f, func(ins ssa.Instruction) {
				if call, ok := ins.(*ssa.Call); ok && splitters[calleeID(call)] {
					// the argument comes from received bytes (a []byte -> string conversion somewhere behind it)
					arg := call.Call.Args[len(call.Call.Args)-1]
					if fromBytesConv(arg, 0, map[ssa.Value]bool{}) {
						decoders = append(decoders, f)
					} else if k := paramIndex(f, arg); k >= 0 {
						// a parsing helper: the text is its parameter; look at what its callers hand it
						for _, e := range P.Callers(f) {
							if e.Site != nil && k < len(e.Site.Common().Args) && fromBytesConv(e.Site.Common().Args[k], 0, map[ssa.Value]bool{}) {
								decoders = append(decoders, f)
								break
							}
						}
					}
				}
			})
		}
		if len(decoders) == 0 {
			continue
		}
		nDecoders += len(decoders)
		for _, f := range pkgFuncs(P, true, rel) {
			k := 0
			eachInstr(f, func(ins ssa.Instruction) {
				var src ssa.Value
				switch x := ins.(type) {
				case *ssa.Convert:
					if isByteSlice(x.Type()) {
						if b, ok := x.X.Type().Underlying().(*types.Basic); ok && b.Info()&types.IsString != 0 {
							src = x.X
						}
					}
				case *ssa.Call:
					if fn := calleeFunc(&x.Call); fn != nil && fn.Name() == "WriteString" {
						src = x.Call.Args[len(x.Call.Args)-1]
					}
				}
				if src == nil {
					return
				}
				k++
				nStrings++
				c.Analysed(FuncName(f))
				cons := fmt.Sprintf("%s#wire-string%d", FuncName(f), k)
				bad := assembledFromIP(src, isIPType)
				if bad != nil {
					c.Fail(rule, cons, P.InstrPos(bad), "address text sent on the wire is assembled from an IP address by formatting or concatenation, while "+FuncName(decoders[0])+" takes it apart with net.SplitHostPort: an IPv6 host is written without brackets and does not decode")
				} else {
					c.OK(rule, cons, P.InstrPos(ins), "no hand-assembled host:port text")
				}
			})
		}
	}
	c.Floor(rule, "decoders that split host:port text", nDecoders, 1)
	c.Floor(rule, "strings turned into wire bytes in those packages", nStrings, 1)
}

// fromBytesConv: v derives from a []byte -> string conversion.
func fromBytesConv(v ssa.Value, depth int, seen map[ssa.Value]bool) bool {
	if v == nil || depth > 12 || seen[v] {
		return false
	}
	seen[v] = true
	switch x := v.(type) {
	case *ssa.Convert:
		if isByteSlice(x.X.Type()) {
			return true
		}
		return fromBytesConv(x.X, depth+1, seen)
	case *ssa.Phi:
		for _, e := range x.Edges {
			if fromBytesConv(e, depth+1, seen) {
				return true
			}
		}
	case *ssa.Slice:
		return fromBytesConv(x.X, depth+1, seen)
	case *ssa.UnOp:
		if a, ok := x.X.(*ssa.Alloc); ok && x.Op == token.MUL {
			for _, r := range *a.Referrers() {
				if st, ok := r.(*ssa.Store); ok && st.Addr == ssa.Value(a) && fromBytesConv(st.Val, depth+1, seen) {
					return true
				}
			}
		}
	case *ssa.Call:
		for _, a := range x.Call.Args {
			if b, ok := a.Type().Underlying().(*types.Basic); ok && b.Info()&types.IsString != 0 && fromBytesConv(a, depth+1, seen) {
				return true
			}
		}
	}
	return false
}

// assembledFromIP follows a string back to the operations that made it; it returns the first formatting
// call / concatenation one of whose operands is (or is printed from) an IP address, nil if there is none.
func assembledFromIP(v ssa.Value, isIPType func(types.Type) bool) ssa.Instruction {
	seen := map[ssa.Value]bool{}
	var hasIP func(v ssa.Value, depth int) bool
	hasIP = func(v ssa.Value, depth int) bool {
		if v == nil || depth > 10 {
			return false
		}
		if isIPType(v.Type()) {
			return true
		}
		switch x := v.(type) {
		case *ssa.MakeInterface:
			return hasIP(x.X, depth+1)
		case *ssa.ChangeType:
			return hasIP(x.X, depth+1)
		case *ssa.Convert:
			return hasIP(x.X, depth+1)
		case *ssa.UnOp:
			return hasIP(x.X, depth+1)
		case *ssa.FieldAddr:
			return isIPType(x.Type())
		case *ssa.Call:
			// ip.String(), ip.To4().String(): printed from an IP
			for _, a := range callArgs(&x.Call) {
				if isIPType(a.Type()) {
					return true
				}
			}
		case *ssa.Slice:
			// variadic argument slice: look at what was stored into its array
			if a, ok := x.X.(*ssa.Alloc); ok {
				for _, r := range *a.Referrers() {
					if ia, ok := r.(*ssa.IndexAddr); ok {
						for _, rr := range *ia.Referrers() {
							if st, ok := rr.(*ssa.Store); ok && hasIP(st.Val, depth+1) {
								return true
							}
						}
					}
				}
			}
		}
		return false
	}
	var walk func(v ssa.Value, depth int) ssa.Instruction
	walk = func(v ssa.Value, depth int) ssa.Instruction {
		if v == nil || depth > 16 || seen[v] {
			return nil
		}
		seen[v] = true
		switch x := v.(type) {
		case *ssa.Parameter:
			// the string is handed in: look at what the (static) callers hand over
			if curProgram != nil && x.Parent() != nil {
				idx := -1
				for i, q := range x.Parent().Params {
					if q == x {
						idx = i
					}
				}
				for _, e := range curProgram.Callers(x.Parent()) {
					if e.Site != nil && idx >= 0 && idx < len(e.Site.Common().Args) && e.Site.Common().StaticCallee() == x.Parent() {
						if bad := walk(e.Site.Common().Args[idx], depth+1); bad != nil {
							return bad
						}
					}
				}
			}
		case *ssa.Phi:
			for _, e := range x.Edges {
				if bad := walk(e, depth+1); bad != nil {
					return bad
				}
			}
		case *ssa.Convert:
			return walk(x.X, depth+1)
		case *ssa.ChangeType:
			return walk(x.X, depth+1)
		case *ssa.Slice:
			return walk(x.X, depth+1)
		case *ssa.UnOp:
			if a, ok := x.X.(*ssa.Alloc); ok && x.Op == token.MUL {
				for _, r := range *a.Referrers() {
					if st, ok := r.(*ssa.Store); ok && st.Addr == ssa.Value(a) {
						if bad := walk(st.Val, depth+1); bad != nil {
							return bad
						}
					}
				}
			}
		case *ssa.BinOp:
			if x.Op == token.ADD {
				if hasIP(x.X, 0) || hasIP(x.Y, 0) {
					return x
				}
				if bad := walk(x.X, depth+1); bad != nil {
					return bad
				}
				return walk(x.Y, depth+1)
			}
		case *ssa.Call:
			id := calleeID(x)
			switch id {
			case "net.JoinHostPort":
				return nil
			case "fmt.Sprintf", "fmt.Sprint", "fmt.Sprintln", "strings.Join":
				for _, a := range x.Call.Args {
					if hasIP(a, 0) {
						return x
					}
				}
			default:
				// a formatting helper of the module: what it returns
				if g := staticCallee(&x.Call); g != nil && InModule(g) && len(g.Blocks) > 0 {
					for _, b := range g.Blocks {
						if r, ok := b.Instrs[len(b.Instrs)-1].(*ssa.Return); ok && len(r.Results) > 0 {
							if bad := walk(r.Results[0], depth+1); bad != nil {
								return bad
							}
						}
					}
				}
			}
		}
		return nil
	}
	return walk(v, 0)
}
