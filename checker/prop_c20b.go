package main

import (
	"fmt"
	"go/token"

	"golang.org/x/tools/go/ssa"
)

// c20R4: lookups are independent. "Exactly the blocks that match the requested host" is a statement about
// each result of MatchHost; it stops being true if one lookup can change the configuration the next one
// starts from, or the result an earlier one handed out. Structurally:
//
//	fresh      MatchHost returns a value it allocated itself (a copy of the global block), never a
//	           pointer into the configuration;
//	read-only  neither MatchHost nor the merge function it calls stores through memory reached from the
//	           configuration (the receiver of MatchHost, the 'other' block of the merge);
//	clipped    the copy is shallow, so its slice fields still share their backing arrays with the
//	           configuration: every append the merge function applies to such a field must first clip the
//	           capacity (s[:len(s):len(s)] or slices.Clip), otherwise the element is written into spare
//	           capacity shared by all results.
func c20R4(c *Ctx) {
	P := c.P
	const rule = "C20.R4"
	c.Rule(rule, "lookups are independent: MatchHost returns a value it allocated (a copy of the global block), nothing on the way stores through memory reached from the configuration, and appends to the slice fields of the shallow copy clip the capacity first (a result that aliases the configuration makes a later lookup apply blocks that matched an earlier host) (def-use + E4 who-may-write)")
	mh := P.Func("config", "(*ClientConfig).MatchHost")
	if mh == nil {
		c.Undecided(rule, "config.(*ClientConfig).MatchHost", "function not found")
		return
	}
	name := FuncName(mh)
	c.Analysed(name)
	// fresh
	var targets []ssa.Value
	fresh := true
	var badRet ssa.Instruction
	var visit func(v ssa.Value, depth int) bool
	visit = func(v ssa.Value, depth int) bool {
		if depth > 8 {
			return false
		}
		switch x := lookThrough(v).(type) {
		case *ssa.Alloc:
			targets = append(targets, x)
			return true
		case *ssa.Phi:
			all := true
			for _, e := range x.Edges {
				if !visit(e, depth+1) {
					all = false
				}
			}
			return all
		default:
			targets = append(targets, x)
		}
		return false
	}
	nRet := 0
	for _, b := range mh.Blocks {
		ret, ok := b.Instrs[len(b.Instrs)-1].(*ssa.Return)
		if !ok || len(ret.Results) == 0 {
			continue
		}
		nRet++
		if !visit(ret.Results[0], 0) {
			fresh = false
			badRet = ret
		}
	}
	if nRet == 0 {
		c.Undecided(rule, name, "MatchHost has no result")
		return
	}
	site := P.Pos(mh.Pos())
	if badRet != nil {
		site = P.InstrPos(badRet)
	}
	c.Check(fresh, rule, name+"#fresh", site, "every return hands out a value allocated in MatchHost", "MatchHost returns a pointer that is not to a value it allocated itself (it points into the configuration): blocks merged for one host stay applied for every later lookup")
	isTarget := func(v ssa.Value) bool {
		a := lookThrough(v)
		for _, t := range targets {
			if t == a {
				return true
			}
		}
		return false
	}
	// read-only in MatchHost itself: every store goes to a local
	roOK := true
	var roSite ssa.Instruction
	eachInstr(mh, func(ins ssa.Instruction) {
		var addr ssa.Value
		switch x := ins.(type) {
		case *ssa.Store:
			addr = x.Addr
		case *ssa.MapUpdate:
			addr = x.Map
		default:
			return
		}
		root, _ := accessPath(addr)
		if _, isAlloc := lookThrough(root).(*ssa.Alloc); !isAlloc {
			if _, isAlloc2 := root.(*ssa.Alloc); !isAlloc2 {
				roOK = false
				roSite = ins
			}
		}
	})
	// the merge functions: module callees that receive the target
	type mergeCall struct {
		g   *ssa.Function
		tgt int
	}
	var merges []mergeCall
	seen := map[string]bool{}
	eachInstr(mh, func(ins ssa.Instruction) {
		call, ok := ins.(*ssa.Call)
		if !ok {
			return
		}
		g := staticCallee(&call.Call)
		if g == nil || !InModule(g) || g.Blocks == nil {
			return
		}
		for k, a := range call.Call.Args {
			if isTarget(a) && k < len(g.Params) {
				key := fmt.Sprintf("%p|%d", g, k)
				if !seen[key] {
					seen[key] = true
					merges = append(merges, mergeCall{g, k})
				}
			}
		}
	})
	nAppend := 0
	for _, m := range merges {
		g := m.g
		gname := FuncName(g)
		c.Analysed(gname)
		tgt := g.Params[m.tgt]
		rootIsTarget := func(v ssa.Value) bool {
			root, _ := accessPath(v)
			return lookThrough(root) == ssa.Value(tgt)
		}
		eachInstr(g, func(ins ssa.Instruction) {
			switch x := ins.(type) {
			case *ssa.Store:
				root, _ := accessPath(x.Addr)
				r := lookThrough(root)
				if _, isAlloc := r.(*ssa.Alloc); isAlloc || r == ssa.Value(tgt) {
					return
				}
				roOK = false
				roSite = ins
			case *ssa.MapUpdate:
				roOK = false
				roSite = ins
			case *ssa.Call:
				b, ok := x.Call.Value.(*ssa.Builtin)
				if !ok || b.Name() != "append" || len(x.Call.Args) == 0 {
					return
				}
				base := x.Call.Args[0]
				if !rootIsTarget(base) {
					// slices.Clip(hc.F) / slices.Clone(hc.F) as the base: look at its operand
					if bc, ok := strip(base).(*ssa.Call); ok && len(bc.Call.Args) == 1 {
						if f := calleeFunc(&bc.Call); f != nil && f.Pkg() != nil && f.Pkg().Path() == "slices" && rootIsTarget(bc.Call.Args[0]) {
							goto counted
						}
					}
					return
				}
			counted:
				nAppend++
				cons := fmt.Sprintf("%s#append%d", gname, nAppend)
				clipped := false
				switch s := strip(base).(type) {
				case *ssa.Slice:
					if s.Max != nil && s.High != nil {
						// s[:n:n] with the same n
						if s.Max == s.High {
							clipped = true
						} else if a, ok1 := constInt(s.Max); ok1 {
							if b2, ok2 := constInt(s.High); ok2 && a == b2 {
								clipped = true
							}
						} else {
							la, lb := lenArg(s.Max), lenArg(s.High)
							if la != nil && lb != nil && apString(la) == apString(lb) && apString(la) != "" {
								clipped = true
							}
						}
					}
				case *ssa.Call:
					if f := calleeFunc(&s.Call); f != nil && f.Pkg() != nil && f.Pkg().Path() == "slices" && (f.Name() == "Clip" || f.Name() == "Clone") {
						clipped = true
					}
				}
				c.Check(clipped, rule, cons, P.InstrPos(x), "capacity clipped before the append", "append to a slice field of the shallow copy without clipping its capacity: the copy shares the backing array with the configuration, so the appended element lands in spare capacity common to all results and a later lookup overwrites what an earlier one returned")
			}
		})
	}
	site = P.Pos(mh.Pos())
	if roSite != nil {
		site = P.InstrPos(roSite)
	}
	c.Check(roOK, rule, name+"#read-only", site, "stores go to the local copy only", "a lookup stores through memory reached from the configuration: later lookups start from a changed configuration")
	c.Floor(rule, "merge functions receiving the copy", len(merges), 1)
	c.Floor(rule, "appends to slice fields of the copy", nAppend, 1)
}

// lenArg: v is len(x) -> x.
func lenArg(v ssa.Value) ssa.Value {
	call, ok := strip(v).(*ssa.Call)
	if !ok {
		return nil
	}
	if b, ok := call.Call.Value.(*ssa.Builtin); ok && b.Name() == "len" && len(call.Call.Args) == 1 {
		return call.Call.Args[0]
	}
	return nil
}

var _ = token.ADD
