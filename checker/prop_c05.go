package main

// C05 — User login is granted only by a listed key or a live grant, failing closed.

import (
	"fmt"
	"go/token"
	"go/types"
	"sort"

	"golang.org/x/tools/go/ssa"
)

func init() { register("C05", checkC05) }

func checkC05(c *Ctx) {
	P := c.P
	c.Rule("C05.R1", "HopServer.AuthorizeKey returns nil only when Allowed(publicKey) was true for the caller's key on a list whose provenance on that path is the core parser applied, during this call, to a file derived from the user argument, with every fallible call on that chain found nil (E1 decision table + value provenance)")
	c.Rule("C05.R2", "ParseAuthorizedKeys returns (nil, err) on any malformed line; Allowed is an equality scan against its argument; ParseDHPublicKey rejects wrong prefix, bad base64 and length != 32 (E1)")
	c.Rule("C05.R3", "checkAuthorization admits (returns true / stores sess.user / writes the confirmation) only after AuthorizeKey==nil, or EnableAuthgrants and AuthorizeKeyAuthGrant==nil, for the same username and the transport-authenticated key; sess.start dispatches tubes only after it returned true (E1)")
	c.Rule("C05.R4", "AuthorizeKeyAuthGrant succeeds only with EnableAuthgrants and a grant entry that RemoveAuthgrants deleted before returning it; the grant map is touched only by its two accessors (E1 + E4)")
	c.Rule("C05.R5", "the transport-level key set is fed fail-closed: AddKey in NewHopServer is dominated by the nil edges of user.Lookup and ParseAuthorizedKeysFile; AddKey has no other callers than AddAuthGrant (E1 dominance + E4 who-may-call)")
	c.Decides("fail-closed shape of every step between the authorized-keys file / grant map and the admit decision")
	c.NotDecided("file-system behaviour; what fs.FS delivers")

	// ---- R1
	if fn := P.Func("hopserver", "(*HopServer).AuthorizeKey"); fn == nil {
		c.Undecided("C05.R1", "hopserver.(*HopServer).AuthorizeKey", "function not found")
	} else {
		name := FuncName(fn)
		c.Analysed(name)
		fs := newFailSet()
		succ := 0
		allowedID := hopID("core", "AuthorizedKeys", "Allowed")
		parseID, parseFileID := hopID("core", "", "ParseAuthorizedKeys"), hopID("core", "", "ParseAuthorizedKeysFile")
		chainChecked := map[*ssa.Function]bool{}
		chainFails := newFailSet()
		ok := walkAll(c, "C05.R1", fn, func(p *Path) {
			if !isSuccess(p) {
				return
			}
			succ++
			var member *pathCall
			for _, pc := range callsOnPath(p) {
				pc := pc
				if calleeID(pc.call) == allowedID {
					args := callArgs(&pc.call.Call)
					if len(args) == 2 && paramIndex(fn, p.Resolve(args[1], pc.at)) == 2 {
						if v, known := boolOnPath(p, pc.call); known && v {
							member = &pc
						}
					}
				}
			}
			var list ssa.Value
			listAt := len(p.Blocks) - 1
			var listSite ssa.Instruction = p.Exit()
			if member != nil {
				list, listAt, listSite = callArgs(&member.call.Call)[0], member.at, member.call
			} else {
				// the scan written out: an element of the list was found equal to the caller's key
				for _, pr := range knownEqual(p, listAt) {
					for k := 0; k < 2; k++ {
						if paramIndex(fn, p.Resolve(pr[k], listAt)) != 2 {
							continue
						}
						other := strip(pr[1-k])
						if u, ok := other.(*ssa.UnOp); ok && u.Op == token.MUL {
							if ia, ok := u.X.(*ssa.IndexAddr); ok {
								list = ia.X
							}
						}
						if ix, ok := other.(*ssa.Index); ok {
							list = ix.X
						}
					}
				}
			}
			if list == nil {
				fs.add("membership", "AuthorizeKey returns success on a path where Allowed(publicKey) was not found true for the caller's key", p.Exit(), p)
				return
			}
			// the list consulted is the one parsed, during this call, from the file of this user:
			// its provenance on the path passes through the core parser and ends in the user parameter,
			// and every call on that chain that can fail was found to have succeeded.
			p.throughCalls = true
			calls, leaves := provenance(p, list, listAt)
			p.throughCalls = false
			parsed, forUser := false, false
			last := len(p.Blocks) - 1
			for _, call := range calls {
				if id := calleeID(call); id == parseID || id == parseFileID {
					parsed = true
				}
				if errorResultIndex(call.Call.Signature()) < 0 {
					continue
				}
				if ev := errResultOf(call); ev == nil || p.Nilness(ev, last) != isNil {
					fs.add("fail-closed", "fail-open: AuthorizeKey returns success on a path where the error of "+describeCall(P, call)+" is not nil-checked (an unreadable or malformed authorized_keys file would admit the key)", p.Exit(), p)
				}
			}
			for _, l := range leaves {
				if paramIndex(fn, l) == 1 {
					forUser = true
				}
			}
			// the module functions on the chain that turn the user into a location must themselves answer for
			// that user: on every success path their result derives from the parameter that received it
			for _, call := range calls {
				g := staticCallee(&call.Call)
				if g == nil || !InModule(g) || len(g.Blocks) == 0 || calleeID(call) == parseID || calleeID(call) == parseFileID || chainChecked[g] {
					continue
				}
				chainChecked[g] = true
				for k, a := range call.Call.Args {
					if k >= len(g.Params) {
						continue
					}
					_, ls := provenance(p, a, len(p.Blocks)-1)
					fromUser := false
					for _, l := range ls {
						if paramIndex(fn, l) == 1 {
							fromUser = true
						}
					}
					if !fromUser {
						continue
					}
					kk := k
					gname := FuncName(g)
					c.Analysed(gname)
					walkAll(c, "C05.R1", g, func(q *Path) {
						if !isSuccess(q) {
							return
						}
						r := q.Returns()
						if r == nil || len(r.Results) == 0 {
							return
						}
						q.throughCalls = true
						_, rl := provenance(q, resolveSpill(q, r.Results[0]), len(q.Blocks)-1)
						q.throughCalls = false
						dep := false
						for _, l := range rl {
							if paramIndex(g, l) == kk {
								dep = true
							}
						}
						if !dep {
							chainFails.add("for-this-user:"+gname, gname+" succeeds on a path where what it returns does not depend on the user it was asked about: a login under that name is checked against somebody else's authorized_keys file", q.Exit(), q)
						}
					})
				}
			}
			if !parsed {
				fs.add("provenance", "AuthorizeKey returns success on a path where the key list given to Allowed was not parsed from the authorized_keys file during this call ("+describeLeaves(P, leaves)+"): a key removed from the file can still be admitted", listSite, p)
			} else if !forUser {
				fs.add("provenance", "the authorized_keys file parsed by AuthorizeKey is not derived from its user argument", listSite, p)
			}
		})
		if ok {
			var chainKeys []string
			for g := range chainChecked {
				chainKeys = append(chainKeys, "for-this-user:"+FuncName(g))
			}
			sort.Strings(chainKeys)
			if len(chainKeys) > 0 {
				chainFails.report(c, "C05.R1", name, chainKeys, P.Pos(fn.Pos()), "the location functions on the chain answer for the user they are asked about")
			}
			fs.report(c, "C05.R1", name, []string{"fail-closed", "membership", "provenance"}, P.Pos(fn.Pos()), fmt.Sprintf("holds on all %d success paths", succ))
			c.Floor("C05.R1", "success paths of AuthorizeKey", succ, 1)
		}
	}

	// ---- R2
	if fn := P.Func("core", "ParseAuthorizedKeys"); fn == nil {
		c.Undecided("C05.R2", "core.ParseAuthorizedKeys", "function not found")
	} else {
		name := FuncName(fn)
		c.Analysed(name)
		fs := newFailSet()
		parseID := hopID("keys", "", "ParseDHPublicKey")
		nparse := 0
		ok := walkAll(c, "C05.R2", fn, func(p *Path) {
			last := len(p.Blocks) - 1
			for _, pc := range callsOnPath(p) {
				if calleeID(pc.call) != parseID {
					continue
				}
				nparse++
				ev := errResultOf(pc.call)
				if ev == nil {
					fs.add("parse-error", "the error of ParseDHPublicKey is discarded", pc.call, p)
					continue
				}
				st := p.Nilness(ev, last)
				r := p.Returns()
				if st == nonNil && r != nil {
					if errReturnClass(p) != nonNil {
						fs.add("parse-error", "a malformed line does not make ParseAuthorizedKeys fail", p.Exit(), p)
					}
					// result list must be nil (nothing parsed so far may leak out)
					if len(r.Results) > 0 && !isNilConst(p.Resolve(resolveSpill(p, r.Results[0]), last)) {
						fs.add("parse-error", "on a malformed line ParseAuthorizedKeys returns the keys parsed so far instead of nil", p.Exit(), p)
					}
				}
				if st == nilUnknown && isSuccess(p) {
					// only acceptable if this occurrence was overwritten by a later iteration that was checked
					fs.add("parse-error", "ParseDHPublicKey's error is not tested on a success path", p.Exit(), p)
				}
			}
		})
		if ok {
			fs.report(c, "C05.R2", name, []string{"parse-error"}, P.Pos(fn.Pos()), "malformed line => (nil, err)")
			c.Floor("C05.R2", "ParseDHPublicKey calls on paths of ParseAuthorizedKeys", nparse, 1)
		}
	}
	if fn := P.Func("core", "AuthorizedKeys.Allowed"); fn == nil {
		c.Undecided("C05.R2", "core.AuthorizedKeys.Allowed", "function not found")
	} else {
		name := FuncName(fn)
		c.Analysed(name)
		fs := newFailSet()
		trues := 0
		ok := walkAll(c, "C05.R2", fn, func(p *Path) {
			r := p.Returns()
			if r == nil || len(r.Results) != 1 {
				return
			}
			v, isConst := pathBool(p, r.Results[0], len(p.Blocks)-1)
			if isConst && !v {
				return
			}
			trues++
			eq := false
			for _, pr := range knownEqual(p, len(p.Blocks)-1) {
				for _, side := range pr {
					// a comparison made in an inlined helper speaks about the helper's parameter: map it back
					side = p.Resolve(side, len(p.Blocks)-1)
					root, _ := accessPath(side)
					root = p.Resolve(root, len(p.Blocks)-1)
					if paramIndex(fn, side) == 1 || paramIndex(fn, root) == 1 {
						eq = true
					}
				}
			}
			if !eq {
				fs.add("equality", "Allowed can return true on a path that does not pass an equality test against its key argument", p.Exit(), p)
			}
		})
		if ok {
			fs.report(c, "C05.R2", name, []string{"equality"}, P.Pos(fn.Pos()), "true only through k == pk")
			c.Floor("C05.R2", "true-returning paths of Allowed", trues, 1)
		}
	}
	if fn := P.Func("keys", "ParseDHPublicKey"); fn == nil {
		c.Undecided("C05.R2", "keys.ParseDHPublicKey", "function not found")
	} else {
		name := FuncName(fn)
		c.Analysed(name)
		fs := newFailSet()
		succ := 0
		ok := walkAll(c, "C05.R2", fn, func(p *Path) {
			if !isSuccess(p) {
				return
			}
			succ++
			for _, sc := range swallowedErrors(p, nil) {
				fs.add("reject", "ParseDHPublicKey succeeds although "+describeCall(P, sc)+" failed", p.Exit(), p)
			}
			prefix, length := false, false
			for _, pc := range callsOnPath(p) {
				if calleeID(pc.call) == "strings.HasPrefix" {
					if v, known := boolOnPath(p, pc.call); known && v {
						prefix = true
					}
				}
			}
			for k, val := range p.FactsAt(len(p.Blocks) - 1) {
				if k.op == token.EQL && k.y != nil && val {
					for _, side := range []ssa.Value{k.x, k.y} {
						if n, ok := constInt(side); ok && n == 32 {
							length = true
						}
					}
				}
			}
			if !prefix {
				fs.add("reject", "ParseDHPublicKey succeeds on a path that does not require the key prefix", p.Exit(), p)
			}
			if !length {
				fs.add("reject", "ParseDHPublicKey succeeds on a path that does not require a 32-byte key", p.Exit(), p)
			}
		})
		if ok {
			fs.report(c, "C05.R2", name, []string{"reject"}, P.Pos(fn.Pos()), fmt.Sprintf("prefix, base64 and length enforced on all %d success paths", succ))
		}
	}

	c05R3(c)
	c05R4(c)
	c05R5(c)
}

// resolveSpill maps a load of a defer-spilled / named result to the stored value on the path.
func resolveSpill(p *Path, v ssa.Value) ssa.Value {
	last := len(p.Blocks) - 1
	for i := 0; i < 4; i++ {
		u, ok := v.(*ssa.UnOp)
		if !ok || u.Op != token.MUL {
			return v
		}
		a, ok := u.X.(*ssa.Alloc)
		if !ok {
			return v
		}
		st, bi := p.lastStoreBefore(a, last, u)
		if st == nil {
			// never stored: zero value
			return ssa.NewConst(nil, a.Type().Underlying().(*types.Pointer).Elem())
		}
		v = p.Resolve(st.Val, bi)
	}
	return v
}

// ---------------------------------------------------------------------------

func c05R3(c *Ctx) {
	P := c.P
	fn := P.Func("hopserver", "(*hopSession).checkAuthorization")
	if fn == nil {
		c.Undecided("C05.R3", "hopserver.(*hopSession).checkAuthorization", "function not found")
		return
	}
	name := FuncName(fn)
	c.Analysed(name)
	fUser := P.Field("hopserver", "hopSession", "user")
	fEnable := P.Field("config", "ServerConfig", "EnableAuthgrants")
	fPub := P.Field("certs", "Certificate", "PublicKey")
	if fUser == nil || fEnable == nil || fPub == nil {
		c.Undecided("C05.R3", "hopSession.user / ServerConfig.EnableAuthgrants / Certificate.PublicKey", "field not found")
		return
	}
	authKey := hopID("hopserver", "HopServer", "AuthorizeKey")
	authGrant := hopID("hopserver", "HopServer", "AuthorizeKeyAuthGrant")
	fetchLeaf := hopID("transport", "Handle", "FetchClientLeaf")
	getInit := hopID("userauth", "", "GetInitMsg")
	fs := newFailSet()
	admits := 0
	ok := walkAll(c, "C05.R3", fn, func(p *Path) {
		last := len(p.Blocks) - 1
		// is this an admitting path? returns true, stores sess.user, or writes on the tube
		admit := false
		var admitSite ssa.Instruction
		if r := p.Returns(); r != nil && len(r.Results) == 1 {
			if v, isC := constBool(p.Resolve(resolveSpill(p, r.Results[0]), last)); !isC || v {
				admit, admitSite = true, r
			}
		}
		p.ForEach(func(i int, ins ssa.Instruction) bool {
			if st, ok := ins.(*ssa.Store); ok && endsInField(st.Addr, fUser, false) {
				admit, admitSite = true, ins
			}
			if call, ok := ins.(*ssa.Call); ok && calleeID(call) == hopID("tubes", "Reliable", "Write") {
				admit, admitSite = true, ins
			}
			return true
		})
		if !admit {
			return
		}
		admits++
		byKey, byGrant := false, false
		for _, pc := range callsOnPath(p) {
			id := calleeID(pc.call)
			if id != authKey && id != authGrant {
				continue
			}
			args := callArgs(&pc.call.Call)
			if len(args) != 3 {
				continue
			}
			// username: result of GetInitMsg; key: FetchClientLeaf().PublicKey
			uc, _ := fromCall(p.Resolve(args[1], pc.at))
			userOK := uc != nil && calleeID(uc) == getInit
			keyV := p.Deref(args[2], pc.at)
			root, _ := accessPath(keyV)
			kc, _ := fromCall(root)
			keyOK := kc != nil && calleeID(kc) == fetchLeaf && endsInField(keyV, fPub, false)
			if !userOK {
				fs.add("same-subject", "the authorization call is not made for the user name received from the client", pc.call, p)
			}
			if !keyOK {
				fs.add("same-subject", "the authorization call is not made for the transport-authenticated key (FetchClientLeaf().PublicKey)", pc.call, p)
			}
			ev := errResultOf(pc.call)
			if ev == nil || p.Nilness(ev, last) != isNil {
				continue
			}
			if id == authKey {
				byKey = true
			} else {
				if v, known := fieldBoolFact(p.FactsAt(last), fEnable); known && v {
					byGrant = true
				}
			}
		}
		if !byKey && !byGrant {
			fs.add("admit", "checkAuthorization admits the client on a path where neither AuthorizeKey returned nil nor (EnableAuthgrants and AuthorizeKeyAuthGrant returned nil)", admitSite, p)
		}
	})
	if ok {
		fs.report(c, "C05.R3", name, []string{"admit", "same-subject"}, P.Pos(fn.Pos()), fmt.Sprintf("holds on all %d admitting paths", admits))
		c.Floor("C05.R3", "admitting paths of checkAuthorization", admits, 2)
	}
	// sess.start: dispatch only after checkAuthorization() returned true
	st := P.Func("hopserver", "(*hopSession).start")
	if st == nil {
		c.Undecided("C05.R3", "hopserver.(*hopSession).start", "function not found")
		return
	}
	c.Analysed(FuncName(st))
	var authCall *ssa.Call
	for _, cs := range callSitesIn(st, false, hopID("hopserver", "hopSession", "checkAuthorization")) {
		if cc, ok := cs.(*ssa.Call); ok {
			authCall = cc
		}
	}
	if authCall == nil {
		c.Fail("C05.R3", FuncName(st)+"#gate", P.Pos(st.Pos()), "sess.start no longer calls checkAuthorization before serving tubes")
		return
	}
	mf := ComputeMustFacts(st)
	n := 0
	bad := false
	eachInstr(st, func(ins ssa.Instruction) {
		isDispatch := false
		if _, ok := ins.(*ssa.Go); ok {
			isDispatch = true
		}
		if call, ok := ins.(*ssa.Call); ok && calleeID(call) == hopID("tubes", "Muxer", "Accept") {
			isDispatch = true
		}
		if !isDispatch {
			return
		}
		n++
		if v, known := mf.CondAt(ins, authCall); !(known && v) {
			bad = true
			c.Fail("C05.R3", FuncName(st)+"#gate", P.InstrPos(ins), "a tube is accepted / a handler is started in sess.start without checkAuthorization() having returned true")
		}
	})
	if !bad {
		c.OK("C05.R3", FuncName(st)+"#gate", P.InstrPos(authCall), fmt.Sprintf("%d accept/dispatch sites dominated by the true edge of checkAuthorization()", n))
	}
	c.Floor("C05.R3", "accept/dispatch sites in sess.start", n, 5)
}

func c05R4(c *Ctx) {
	P := c.P
	fn := P.Func("hopserver", "(*HopServer).AuthorizeKeyAuthGrant")
	fEnable := P.Field("config", "ServerConfig", "EnableAuthgrants")
	if fn == nil || fEnable == nil {
		c.Undecided("C05.R4", "hopserver.(*HopServer).AuthorizeKeyAuthGrant", "function or field not found")
	} else {
		name := FuncName(fn)
		c.Analysed(name)
		fs := newFailSet()
		succ := 0
		removeID := hopID("authgrants", "AuthgrantMapSync", "RemoveAuthgrants")
		ok := walkAll(c, "C05.R4", fn, func(p *Path) {
			if !isSuccess(p) {
				return
			}
			succ++
			last := len(p.Blocks) - 1
			if v, known := fieldBoolFact(p.FactsAt(last), fEnable); !(known && v) {
				fs.add("enabled", "AuthorizeKeyAuthGrant can succeed on a path where EnableAuthgrants was not found true", p.Exit(), p)
			}
			removed := false
			ret := returnedErr(p)
			for _, pc := range callsOnPath(p) {
				if calleeID(pc.call) != removeID {
					continue
				}
				args := callArgs(&pc.call.Call)
				if len(args) == 3 && paramIndex(fn, p.Resolve(args[1], pc.at)) == 1 && paramIndex(fn, p.Resolve(args[2], pc.at)) == 2 {
					ev := errResultOf(pc.call)
					if ev != nil && (p.Nilness(ev, last) == isNil || (ret != nil && strip(ret) == strip(ev))) {
						removed = true
					}
					// returned through an inlined helper: the caller's result is what the helper returned
					if ev != nil && ret != nil && !removed {
						p.throughCalls = true
						if strip(p.Resolve(ret, last)) == strip(ev) {
							removed = true
						}
						p.throughCalls = false
					}
				}
			}
			if !removed {
				fs.add("consumed", "AuthorizeKeyAuthGrant can succeed without a successful RemoveAuthgrants(user, publicKey) for its own arguments (grant not consumed / wrong subject)", p.Exit(), p)
			}
		})
		if ok {
			fs.report(c, "C05.R4", name, []string{"enabled", "consumed"}, P.Pos(fn.Pos()), fmt.Sprintf("holds on all %d non-failing paths", succ))
		}
	}
	removeAuthgrantsRule(c, "C05.R4")
	// who touches the grant map
	agMap := P.Field("authgrants", "AuthgrantMapSync", "agMap")
	if agMap == nil {
		c.Undecided("C05.R4", "authgrants.AuthgrantMapSync.agMap", "field not found")
		return
	}
	allowed := map[string]bool{
		"authgrants.(*AuthgrantMapSync).RemoveAuthgrants": true,
		"authgrants.(*AuthgrantMapSync).AddAuthGrant":     true,
		"authgrants.NewAuthgrantMapSync":                  true,
	}
	n := 0
	for _, f := range P.ModuleFuncs() {
		eachInstr(f, func(ins ssa.Instruction) {
			if fa, ok := ins.(*ssa.FieldAddr); ok && fieldOf(fa.X.Type(), fa.Field) == agMap {
				n++
				okOwner := allowed[FuncName(f)]
				if !okOwner {
					if o := P.OwnerOf(f); o != nil && o != f && allowed[FuncName(o)] {
						okOwner = true // a local helper cut out of an accessor
					}
				}
				c.Check(okOwner, "C05.R4", "access:agMap@"+FuncName(f), P.InstrPos(ins), "grant map accessed by its accessor",
					"the grant map is read or written outside RemoveAuthgrants / AddAuthGrant: grants could be consulted without being consumed")
			}
		})
	}
	c.Floor("C05.R4", "accesses of AuthgrantMapSync.agMap", n, 3)
}

func c05R5(c *Ctx) {
	P := c.P
	addKey := hopID("authkeys", "SyncAuthKeySet", "AddKey")
	allowed := map[string]bool{"hopserver.NewHopServer": true, "hopserver.(*HopServer).AddAuthGrant": true}
	n := 0
	for _, f := range P.ModuleFuncs() {
		for _, cs := range callSitesIn(f, false, addKey) {
			n++
			name := FuncName(f)
			cons := "call:AddKey@" + name
			if !allowed[name] {
				c.Fail("C05.R5", cons, P.InstrPos(cs), "a key is added to the transport-level trusted key set outside NewHopServer / AddAuthGrant")
				continue
			}
			if name == "hopserver.NewHopServer" {
				mf := ComputeMustFacts(f)
				var need []string
				for _, id := range []string{"os/user.Lookup", hopID("core", "", "ParseAuthorizedKeysFile")} {
					found := false
					for _, dc := range callSitesIn(f, false, id) {
						call, ok := dc.(*ssa.Call)
						if !ok {
							continue
						}
						ev := errResultOf(call)
						if ev != nil && dominatesInstr(call, cs) && mf.NilAt(cs, ev) == isNil {
							found = true
						}
					}
					if !found {
						need = append(need, id)
					}
				}
				if len(need) > 0 {
					c.Fail("C05.R5", cons, P.InstrPos(cs), fmt.Sprintf("AddKey is reachable without a nil-checked %v: an unreadable or malformed authorized_keys file could contribute keys", need))
				} else {
					c.OK("C05.R5", cons, P.InstrPos(cs), "dominated by nil edges of user.Lookup and ParseAuthorizedKeysFile")
				}
			} else {
				c.OK("C05.R5", cons, P.InstrPos(cs), "grant path (C06/C07)")
			}
		}
	}
	c.Floor("C05.R5", "call sites of SyncAuthKeySet.AddKey", n, 2)
	// AddAuthGrant: key/grant added only when enabled
	if fn := P.Func("hopserver", "(*HopServer).AddAuthGrant"); fn != nil {
		fEnable := P.Field("config", "ServerConfig", "EnableAuthgrants")
		mf := ComputeMustFacts(fn)
		for _, cs := range callSitesIn(fn, false, addKey, hopID("authgrants", "AuthgrantMapSync", "AddAuthGrant")) {
			v, known := fieldBoolFact(mf.At(cs), fEnable)
			c.Check(known && v, "C05.R5", "enabled:"+shortCallee(cs.Common())+"@"+FuncName(fn), P.InstrPos(cs), "only when EnableAuthgrants",
				"AddAuthGrant stores a grant / trusted key without EnableAuthgrants having been found true")
		}
	}
}

// removeAuthgrantsRule (shared by C05.R4 and C07.R5): RemoveAuthgrants hands out grants only
//
//	exact-entry: taken from agMap[user][key] for its own two arguments, and found there (comma-ok true,
//	             or the value found non-empty / non-nil on the path);
//	single-use:  after delete(…, key) on the same path;
//	atomic:      with the read and the delete inside one critical section of the map's lock, so that two
//	             concurrent admissions cannot both take the same grants.
func removeAuthgrantsRule(c *Ctx, rule string) {
	P := c.P
	rm := P.Func("authgrants", "(*AuthgrantMapSync).RemoveAuthgrants")
	if rm == nil {
		c.Undecided(rule, "authgrants.(*AuthgrantMapSync).RemoveAuthgrants", "function not found")
		return
	}
	name := FuncName(rm)
	c.Analysed(name)
	fs := newFailSet()
	succ := 0
	isLockOp := func(ins ssa.Instruction) string {
		cc := callCommon(ins)
		if cc == nil {
			return ""
		}
		if _, isDefer := ins.(*ssa.Defer); isDefer {
			return ""
		}
		f := calleeFunc(cc)
		if f == nil || f.Pkg() == nil || f.Pkg().Path() != "sync" {
			return ""
		}
		switch f.Name() {
		case "Lock", "RLock":
			return "lock"
		case "Unlock", "RUnlock":
			return "unlock"
		}
		return ""
	}
	ok := walkAll(c, rule, rm, func(p *Path) {
		if !isSuccess(p) {
			return
		}
		succ++
		last := len(p.Blocks) - 1
		r := p.Returns()
		if r == nil || len(r.Results) == 0 {
			return
		}
		p.throughCalls = true
		_, _, nodes := provenanceNodes(p, resolveSpill(p, r.Results[0]), last)
		p.throughCalls = false
		// the key lookup whose X is the user lookup
		var keyLookup *ssa.Lookup
		for _, n := range nodes {
			lk, ok := n.(*ssa.Lookup)
			if !ok || paramIndex(rm, p.Resolve(lk.Index, last)) != 2 {
				continue
			}
			p.throughCalls = true
			_, _, inner := provenanceNodes(p, lk.X, last)
			p.throughCalls = false
			for _, m := range inner {
				if l1, ok := m.(*ssa.Lookup); ok && paramIndex(rm, p.Resolve(l1.Index, last)) == 1 {
					keyLookup = lk
				}
			}
		}
		found := false
		if keyLookup != nil {
			if keyLookup.CommaOk {
				if okv := extractIdx(keyLookup, 1); okv != nil {
					if v, known := boolOnPath(p, okv); known && v {
						found = true
					}
				}
			}
			// or: a value that comes from that lookup was found non-empty / non-nil
			fromLookup := func(v ssa.Value) bool {
				if v == nil {
					return false
				}
				p.throughCalls = true
				_, _, ns := provenanceNodes(p, v, last)
				p.throughCalls = false
				for _, n := range ns {
					if n == ssa.Value(keyLookup) {
						return true
					}
				}
				return false
			}
			lenOf := func(v ssa.Value) ssa.Value {
				if call, ok := strip(v).(*ssa.Call); ok {
					if b, ok := call.Call.Value.(*ssa.Builtin); ok && b.Name() == "len" && len(call.Call.Args) == 1 {
						return call.Call.Args[0]
					}
				}
				return nil
			}
			isZero := func(v ssa.Value) bool { k, ok := constInt(v); return ok && k == 0 }
			isOne := func(v ssa.Value) bool { k, ok := constInt(v); return ok && k == 1 }
			for key, val := range p.FactsAt(last) {
				switch {
				case key.op == token.EQL && key.y == nil && !val && fromLookup(key.x):
					found = true // != nil
				case key.op == token.EQL && key.y != nil && !val && ((isZero(key.y) && fromLookup(lenOf(key.x))) || (isZero(key.x) && fromLookup(lenOf(key.y)))):
					found = true // len != 0
				case key.op == token.LSS && val && isZero(key.x) && fromLookup(lenOf(key.y)):
					found = true // 0 < len
				case key.op == token.LSS && !val && isOne(key.y) && fromLookup(lenOf(key.x)):
					found = true // !(len < 1)
				}
			}
		}
		if !found {
			fs.add("exact-entry", "RemoveAuthgrants succeeds without the grants it returns having been found in agMap[user][key] for its own arguments", p.Exit(), p)
		}
		// delete(…, key) and the critical sections
		deleted := false
		epoch, held := 0, false
		readEpoch, delEpoch := -1, -2
		readHeld, delHeld := false, false
		p.ForEach(func(i int, ins ssa.Instruction) bool {
			switch isLockOp(ins) {
			case "lock":
				epoch++
				held = true
			case "unlock":
				held = false
			}
			if keyLookup != nil && ins == ssa.Instruction(keyLookup) {
				readEpoch, readHeld = epoch, held
			}
			if call, ok := ins.(*ssa.Call); ok {
				if b, ok := call.Call.Value.(*ssa.Builtin); ok && b.Name() == "delete" && len(call.Call.Args) == 2 && paramIndex(rm, p.Resolve(call.Call.Args[1], i)) == 2 {
					deleted = true
					delEpoch, delHeld = epoch, held
				}
			}
			return true
		})
		if !deleted {
			fs.add("single-use", "RemoveAuthgrants returns grants without deleting the entry for that key (grants would be reusable)", p.Exit(), p)
		} else if keyLookup != nil && (!readHeld || !delHeld || readEpoch != delEpoch) {
			fs.add("atomic", "RemoveAuthgrants reads the grants it returns and deletes the entry in different critical sections of the map's lock: two concurrent admissions can both be handed the same single-use grants", p.Exit(), p)
		}
	})
	if ok {
		fs.report(c, rule, name, []string{"single-use", "exact-entry", "atomic"}, P.Pos(rm.Pos()), fmt.Sprintf("holds on all %d success paths", succ))
		c.Floor(rule, "success paths of RemoveAuthgrants", succ, 1)
	}
}
