package main

// E1 — path facts.
//
// (A) bounded path enumeration over the SSA CFG of one function, with phi
//     resolution, nil-ness tracking, pruning of infeasible edges;
// (B) must-facts: branch conditions (with polarity) that hold on every path
//     from the entry to a block (dominance with polarity), as a forward
//     intersection dataflow.

import (
	"fmt"
	"go/token"
	"go/types"

	"golang.org/x/tools/go/ssa"
)

// atomKey is a normalised branch condition.
type atomKey struct {
	op   token.Token // EQL, LSS, or ILLEGAL for an opaque boolean value
	x, y ssa.Value   // y == nil for nil tests and opaque values
}

// normCond normalises cond into (key, polarity): cond is true iff key holds == pol.
func normCond(cond ssa.Value) (atomKey, bool) {
	pol := true
	for {
		if u, ok := cond.(*ssa.UnOp); ok && u.Op == token.NOT {
			cond = u.X
			pol = !pol
			continue
		}
		break
	}
	if b, ok := cond.(*ssa.BinOp); ok {
		x, y := canon(stripKeepTypedNil(b.X)), canon(stripKeepTypedNil(b.Y))
		switch b.Op {
		case token.EQL, token.NEQ:
			if b.Op == token.NEQ {
				pol = !pol
			}
			plainNil := func(v ssa.Value) bool {
				c, ok := v.(*ssa.Const)
				return ok && c.Value == nil && isNillable(c.Type())
			}
			if plainNil(x) {
				x, y = y, x
			}
			if plainNil(y) {
				return atomKey{token.EQL, x, nil}, pol
			}
			if lessValue(y, x) {
				x, y = y, x
			}
			return atomKey{token.EQL, x, y}, pol
		case token.LSS:
			return atomKey{token.LSS, x, y}, pol
		case token.GEQ:
			return atomKey{token.LSS, x, y}, !pol
		case token.GTR:
			return atomKey{token.LSS, y, x}, pol
		case token.LEQ:
			return atomKey{token.LSS, y, x}, !pol
		}
	}
	return atomKey{token.ILLEGAL, canon(cond), nil}, pol
}

// canon maps a load of a field path (rooted at a parameter / free variable)
// to the first load of the same access path in the function, provided the
// function itself never stores to any field on that path. Two reads of
// hs.certVerify.AuthKeysAllowed are then one value. (Assumption, listed in
// evidence: no concurrent mutation and no callee side effect on such fields
// between the reads.)
var canonCache = map[*ssa.Function]map[string]ssa.Value{}
var canonStored = map[*ssa.Function]map[*types.Var]bool{}
var canonReps = map[ssa.Value]bool{} // representatives: function-invariant values

func canon(v ssa.Value) ssa.Value {
	u, ok := v.(*ssa.UnOp)
	if !ok || u.Op != token.MUL {
		return v
	}
	if _, ok := u.X.(*ssa.FieldAddr); !ok {
		return v
	}
	fn := u.Parent()
	if fn == nil {
		return v
	}
	root, sels := accessPath(u)
	switch root.(type) {
	case *ssa.Parameter, *ssa.FreeVar:
	default:
		return v
	}
	stored, ok := canonStored[fn]
	if !ok {
		stored = map[*types.Var]bool{}
		eachInstr(fn, func(ins ssa.Instruction) {
			if st, ok := ins.(*ssa.Store); ok {
				if fa, ok := st.Addr.(*ssa.FieldAddr); ok {
					stored[fieldOf(fa.X.Type(), fa.Field)] = true
				}
			}
		})
		canonStored[fn] = stored
	}
	for _, s := range sels {
		if s.Field == nil || stored[s.Field] {
			return v
		}
	}
	cache := canonCache[fn]
	if cache == nil {
		cache = map[string]ssa.Value{}
		canonCache[fn] = cache
	}
	key := apString(u)
	if c, ok := cache[key]; ok {
		return c
	}
	// first load with this access path in block order
	var first ssa.Value
	for _, b := range fn.Blocks {
		for _, ins := range b.Instrs {
			if l, ok := ins.(*ssa.UnOp); ok && l.Op == token.MUL {
				if _, ok := l.X.(*ssa.FieldAddr); ok && apString(l) == key {
					first = l
					break
				}
			}
		}
		if first != nil {
			break
		}
	}
	if first == nil {
		first = v
	}
	cache[key] = first
	canonReps[first] = true
	return first
}

func lessValue(a, b ssa.Value) bool {
	// any deterministic order within a function
	ca, aok := a.(*ssa.Const)
	cb, bok := b.(*ssa.Const)
	if aok != bok {
		return bok // non-const first
	}
	if aok && bok {
		return ca.String() < cb.String()
	}
	if a.Name() != b.Name() {
		return a.Name() < b.Name()
	}
	return a.Pos() < b.Pos()
}

// definedIn reports whether v is defined by an instruction of block b.
func definedIn(v ssa.Value, b *ssa.BasicBlock) bool {
	if v == nil || canonReps[v] {
		return false
	}
	if ins, ok := v.(ssa.Instruction); ok {
		return ins.Block() == b
	}
	return false
}

type nilState int

const (
	nilUnknown nilState = iota
	isNil
	nonNil
)

// Path is one entry-to-exit path of a function.
type Path struct {
	Fn     *ssa.Function
	Blocks []*ssa.BasicBlock
	facts  []map[atomKey]bool // facts known at entry of Blocks[i] (shared, copy-on-write)
}

// Exit returns the final instruction (Return, Panic) of the path.
func (p *Path) Exit() ssa.Instruction {
	b := p.Blocks[len(p.Blocks)-1]
	return b.Instrs[len(b.Instrs)-1]
}

// Returns reports whether the path ends in a Return.
func (p *Path) Returns() *ssa.Return {
	r, _ := p.Exit().(*ssa.Return)
	return r
}

// ForEach visits the instructions of the path in order; i is the block ordinal.
func (p *Path) ForEach(f func(i int, ins ssa.Instruction) bool) {
	for i, b := range p.Blocks {
		for _, ins := range b.Instrs {
			if !f(i, ins) {
				return
			}
		}
	}
}

// Resolve maps phis to the operand selected by the path, as seen at block ordinal at.
func (p *Path) Resolve(v ssa.Value, at int) ssa.Value {
	for k := 0; k < 32; k++ {
		v = strip(v)
		phi, ok := v.(*ssa.Phi)
		if !ok {
			return v
		}
		// latest occurrence of phi's block at or before 'at'
		j := -1
		for i := min(at, len(p.Blocks)-1); i >= 0; i-- {
			if p.Blocks[i] == phi.Block() {
				j = i
				break
			}
		}
		if j <= 0 {
			return v
		}
		pred := p.Blocks[j-1]
		idx := -1
		for i, pb := range phi.Block().Preds {
			if pb == pred {
				idx = i
				break
			}
		}
		if idx < 0 {
			return v
		}
		v = phi.Edges[idx]
		at = j - 1
	}
	return v
}

// Took reports the branch taken at the If ending block ordinal i (true edge?).
func (p *Path) Took(i int) (isIf bool, trueEdge bool) {
	if i+1 >= len(p.Blocks) {
		return false, false
	}
	b := p.Blocks[i]
	if _, ok := b.Instrs[len(b.Instrs)-1].(*ssa.If); !ok {
		return false, false
	}
	return true, b.Succs[0] == p.Blocks[i+1]
}

// FactsAt returns the atoms known at the entry of block ordinal i.
func (p *Path) FactsAt(i int) map[atomKey]bool { return p.facts[i] }

// Holds reports whether cond is known on the path at block ordinal i.
func (p *Path) Holds(cond ssa.Value, i int) (val, known bool) {
	return evalCond(p, cond, i, p.facts[i])
}

// Nilness classifies v at block ordinal i.
func (p *Path) Nilness(v ssa.Value, i int) nilState {
	return nilness(p, v, i, p.facts[i], 0)
}

// lastStoreBefore finds, walking the path backwards from (block ordinal i,
// before instruction 'before' if in that block), the last Store to addr.
func (p *Path) lastStoreBefore(addr ssa.Value, i int, before ssa.Instruction) (*ssa.Store, int) {
	for bi := i; bi >= 0; bi-- {
		instrs := p.Blocks[bi].Instrs
		end := len(instrs)
		if bi == i && before != nil {
			for k, ins := range instrs {
				if ins == before {
					end = k
					break
				}
			}
		}
		for k := end - 1; k >= 0; k-- {
			if st, ok := instrs[k].(*ssa.Store); ok && st.Addr == addr {
				return st, bi
			}
		}
	}
	return nil, -1
}

func nilness(p *Path, v ssa.Value, at int, facts map[atomKey]bool, depth int) nilState {
	if depth > 8 || v == nil {
		return nilUnknown
	}
	orig := strip(v)
	if p != nil {
		v = p.Resolve(v, at)
	} else {
		v = strip(v)
	}
	if isNilConst(v) {
		return isNil
	}
	for _, cand := range []ssa.Value{canon(orig), canon(v)} {
		if b, ok := facts[atomKey{token.EQL, cand, nil}]; ok {
			if b {
				return isNil
			}
			return nonNil
		}
	}
	switch x := v.(type) {
	case *ssa.Alloc, *ssa.FieldAddr, *ssa.IndexAddr, *ssa.MakeClosure, *ssa.Function, *ssa.MakeSlice, *ssa.MakeMap, *ssa.MakeChan, *ssa.Global:
		return nonNil
	case *ssa.Const:
		if x.Value != nil {
			return nonNil
		}
	case *ssa.UnOp:
		if x.Op == token.MUL {
			if g, ok := x.X.(*ssa.Global); ok {
				// package-level error sentinel (ErrXxx = errors.New(...)): assumed never nil
				if isErrorType(g.Type().(*types.Pointer).Elem()) {
					return nonNil
				}
			}
			if a, ok := x.X.(*ssa.Alloc); ok && p != nil {
				// load of a local / named result: classify the last store on the path
				if st, bi := p.lastStoreBefore(a, at, x); st != nil {
					return nilness(p, st.Val, bi, p.facts[bi], depth+1)
				}
				if _, bi := p.lastStoreBefore(a, at, x); bi < 0 && isNillable(a.Type().(*types.Pointer).Elem()) {
					return isNil // zero value, never stored on this path
				}
			}
		}
	case *ssa.Call:
		switch calleeID(x) {
		case "errors.New", "fmt.Errorf", "github.com/pkg/errors.New", "github.com/pkg/errors.Errorf":
			return nonNil
		}
		if g := staticCallee(&x.Call); g != nil && x.Call.Signature().Results().Len() == 1 && alwaysNonNil(g, 0, 0) {
			return nonNil
		}
	case *ssa.Extract:
		if call, ok := x.Tuple.(*ssa.Call); ok {
			if g := staticCallee(&call.Call); g != nil && alwaysNonNil(g, x.Index, 0) {
				return nonNil
			}
		}
	}
	// original (pre-strip) MakeInterface of a concrete value is a non-nil interface
	if mi, ok := p.resolveNoStrip(orig, at).(*ssa.MakeInterface); ok {
		_ = mi
		return nonNil
	}
	return nilUnknown
}

// resolveNoStrip resolves phis but keeps MakeInterface wrappers.
func (p *Path) resolveNoStrip(v ssa.Value, at int) ssa.Value {
	if p == nil {
		return v
	}
	for k := 0; k < 32; k++ {
		phi, ok := v.(*ssa.Phi)
		if !ok {
			return v
		}
		j := -1
		for i := min(at, len(p.Blocks)-1); i >= 0; i-- {
			if p.Blocks[i] == phi.Block() {
				j = i
				break
			}
		}
		if j <= 0 {
			return v
		}
		pred := p.Blocks[j-1]
		idx := -1
		for i, pb := range phi.Block().Preds {
			if pb == pred {
				idx = i
				break
			}
		}
		if idx < 0 {
			return v
		}
		v = phi.Edges[idx]
		at = j - 1
	}
	return v
}

// evalCond tries to decide cond from constants, phi resolution, nil-ness and known atoms.
func evalCond(p *Path, cond ssa.Value, at int, facts map[atomKey]bool) (val, known bool) {
	if b, ok := constBool(cond); ok {
		return b, true
	}
	if p != nil {
		if r := p.resolveNoStrip(cond, at); r != cond {
			return evalCond(p, r, at, facts)
		}
	}
	if u, ok := cond.(*ssa.UnOp); ok && u.Op == token.NOT {
		v, k := evalCond(p, u.X, at, facts)
		return !v, k
	}
	key, pol := normCond(cond)
	if b, ok := facts[key]; ok {
		return b == pol, true
	}
	if key.op == token.EQL && key.y != nil {
		// x == C is false when x == D (D != C) is known
		for _, pr := range [][2]ssa.Value{{key.x, key.y}, {key.y, key.x}} {
			cst, ok := pr[1].(*ssa.Const)
			if !ok || cst.Value == nil {
				continue
			}
			for k2, v2 := range facts {
				if !v2 || k2.op != token.EQL || k2.y == nil {
					continue
				}
				for _, pr2 := range [][2]ssa.Value{{k2.x, k2.y}, {k2.y, k2.x}} {
					if pr2[0] != pr[0] {
						continue
					}
					if c2, ok := pr2[1].(*ssa.Const); ok && c2.Value != nil && c2.Value.ExactString() != cst.Value.ExactString() {
						return !pol, true
					}
				}
			}
		}
	}
	if key.op == token.EQL && key.y == nil {
		switch nilness(p, key.x, at, facts, 0) {
		case isNil:
			return pol, true
		case nonNil:
			return !pol, true
		}
	}
	if key.op == token.EQL && key.y != nil && p != nil {
		// constant folding through phis
		a, b := p.Resolve(key.x, at), p.Resolve(key.y, at)
		if ca, ok := a.(*ssa.Const); ok {
			if cb, ok := b.(*ssa.Const); ok && ca.Value != nil && cb.Value != nil {
				return (ca.Value.ExactString() == cb.Value.ExactString()) == pol, true
			}
		}
	}
	return false, false
}

// PathOpts bounds the enumeration.
// tierThorough deepens every path enumeration (set by the thorough tier).
var tierThorough bool

type PathOpts struct {
	MaxPaths  int // default 100000
	MaxVisits int // visits of one block per path, default 2
}

// WalkPaths enumerates entry-to-exit paths of fn. visit returns false to stop.
// complete is false when a bound was hit (caller must treat that as undecided).
func WalkPaths(fn *ssa.Function, opts PathOpts, visit func(p *Path) bool) (n int, complete bool) {
	if opts.MaxPaths == 0 {
		opts.MaxPaths = 100000
	}
	if opts.MaxVisits == 0 {
		opts.MaxVisits = 2
	}
	if tierThorough {
		// one more unrolling of every loop, and room for the extra paths
		opts.MaxVisits++
		opts.MaxPaths *= 20
	}
	if len(fn.Blocks) == 0 {
		return 0, true
	}
	visits := map[*ssa.BasicBlock]int{}
	p := &Path{Fn: fn}
	complete = true
	stop := false
	var rec func(b *ssa.BasicBlock, facts map[atomKey]bool)
	rec = func(b *ssa.BasicBlock, facts map[atomKey]bool) {
		if stop {
			return
		}
		if visits[b] >= opts.MaxVisits {
			return // bounded unrolling: this path is dropped (loop iterated more often)
		}
		// kill facts about values (re)defined in b
		if len(facts) > 0 {
			var kill []atomKey
			for k := range facts {
				if definedIn(k.x, b) || definedIn(k.y, b) {
					kill = append(kill, k)
				}
			}
			if len(kill) > 0 {
				nf := make(map[atomKey]bool, len(facts))
				for k, v := range facts {
					nf[k] = v
				}
				for _, k := range kill {
					delete(nf, k)
				}
				facts = nf
			}
		}
		visits[b]++
		p.Blocks = append(p.Blocks, b)
		p.facts = append(p.facts, facts)
		at := len(p.Blocks) - 1
		defer func() {
			visits[b]--
			p.Blocks = p.Blocks[:len(p.Blocks)-1]
			p.facts = p.facts[:len(p.facts)-1]
		}()
		last := b.Instrs[len(b.Instrs)-1]
		switch t := last.(type) {
		case *ssa.If:
			val, known := evalCond(p, t.Cond, at, facts)
			key, pol := normCond(p.resolveNoStrip(t.Cond, at))
			for si, s := range b.Succs {
				edgeTrue := si == 0
				if known && val != edgeTrue {
					continue
				}
				nf := make(map[atomKey]bool, len(facts)+2)
				for k, v := range facts {
					nf[k] = v
				}
				nf[key] = (edgeTrue == pol)
				// also record under the unresolved condition and with phi operands resolved
				k2, p2 := normCond(t.Cond)
				nf[k2] = (edgeTrue == p2)
				if k2.op != token.ILLEGAL {
					k3 := k2
					k3.x = p.Resolve(k2.x, at)
					if k2.y != nil {
						k3.y = p.Resolve(k2.y, at)
						if k3.op == token.EQL && lessValue(k3.y, k3.x) {
							k3.x, k3.y = k3.y, k3.x
						}
					}
					if k3 != k2 && !isNilConst(k3.x) {
						nf[k3] = (edgeTrue == p2)
					}
				}
				rec(s, nf)
			}
		case *ssa.Jump:
			rec(b.Succs[0], facts)
		default: // Return, Panic
			n++
			if n > opts.MaxPaths {
				complete = false
				stop = true
				return
			}
			cp := &Path{Fn: fn, Blocks: append([]*ssa.BasicBlock(nil), p.Blocks...), facts: append([]map[atomKey]bool(nil), p.facts...)}
			if !visit(cp) {
				stop = true
			}
		}
	}
	rec(fn.Blocks[0], map[atomKey]bool{})
	return n, complete
}

// ---------------------------------------------------------------------------
// (B) must-facts

// MustFacts holds, per block, the atoms true on every path from entry.
type MustFacts struct {
	fn *ssa.Function
	in map[*ssa.BasicBlock]map[atomKey]bool
}

func ComputeMustFacts(fn *ssa.Function) *MustFacts {
	mf := &MustFacts{fn: fn, in: map[*ssa.BasicBlock]map[atomKey]bool{}}
	if len(fn.Blocks) == 0 {
		return mf
	}
	// nil map = TOP (not yet reached)
	mf.in[fn.Blocks[0]] = map[atomKey]bool{}
	changed := true
	for iter := 0; changed && iter < 200; iter++ {
		changed = false
		for _, b := range fn.Blocks {
			if b == fn.Blocks[0] {
				continue
			}
			var acc map[atomKey]bool
			first := true
			for _, pr := range b.Preds {
				pin, ok := mf.in[pr]
				if !ok {
					continue // TOP
				}
				out := edgeFacts(pr, b, pin)
				if first {
					acc = out
					first = false
				} else {
					for k, v := range acc {
						if ov, ok := out[k]; !ok || ov != v {
							delete(acc, k)
						}
					}
				}
			}
			if first {
				continue
			}
			for k := range acc {
				if definedIn(k.x, b) || definedIn(k.y, b) {
					delete(acc, k)
				}
			}
			old, had := mf.in[b]
			if !had || !sameFacts(old, acc) {
				mf.in[b] = acc
				changed = true
			}
		}
	}
	return mf
}

func sameFacts(a, b map[atomKey]bool) bool {
	if len(a) != len(b) {
		return false
	}
	for k, v := range a {
		if w, ok := b[k]; !ok || w != v {
			return false
		}
	}
	return true
}

func edgeFacts(from, to *ssa.BasicBlock, in map[atomKey]bool) map[atomKey]bool {
	out := make(map[atomKey]bool, len(in)+1)
	for k, v := range in {
		out[k] = v
	}
	if t, ok := from.Instrs[len(from.Instrs)-1].(*ssa.If); ok {
		if from.Succs[0] == to && from.Succs[1] == to {
			return out
		}
		key, pol := normCond(t.Cond)
		out[key] = (from.Succs[0] == to) == pol
	}
	return out
}

// At returns the must-facts at instruction ins (facts at its block entry).
func (mf *MustFacts) At(ins ssa.Instruction) map[atomKey]bool {
	return mf.in[ins.Block()]
}

// Reached reports whether the block of ins is reachable from entry.
func (mf *MustFacts) Reached(ins ssa.Instruction) bool {
	_, ok := mf.in[ins.Block()]
	return ok
}

// CondAt: is cond known (with which value) at ins on every path?
func (mf *MustFacts) CondAt(ins ssa.Instruction, cond ssa.Value) (val, known bool) {
	return evalCond(nil, cond, 0, mf.in[ins.Block()])
}

// NilAt classifies v at ins on every path; loads of locals are traced to the
// dominating store in the same block.
func (mf *MustFacts) NilAt(ins ssa.Instruction, v ssa.Value) nilState {
	facts := mf.in[ins.Block()]
	if s := nilness(nil, v, 0, facts, 0); s != nilUnknown {
		return s
	}
	// facts recorded on a load of a local that was stored from v
	for k, b := range facts {
		if k.op != token.EQL || k.y != nil {
			continue
		}
		if src := loadSource(k.x); src != nil && strip(src) == strip(v) {
			if b {
				return isNil
			}
			return nonNil
		}
	}
	return nilUnknown
}

// loadSource: for t = *a (a local Alloc), the value stored to a by the closest
// preceding Store in the same block (nil if none).
func loadSource(v ssa.Value) ssa.Value {
	u, ok := v.(*ssa.UnOp)
	if !ok || u.Op != token.MUL {
		return nil
	}
	a, ok := u.X.(*ssa.Alloc)
	if !ok {
		return nil
	}
	b := u.Block()
	idx := instrIndex(u)
	for hops := 0; hops < 6; hops++ {
		for k := idx - 1; k >= 0; k-- {
			if st, ok := b.Instrs[k].(*ssa.Store); ok && st.Addr == a {
				return st.Val
			}
		}
		if len(b.Preds) != 1 {
			return nil
		}
		b = b.Preds[0]
		idx = len(b.Instrs)
	}
	return nil
}

var alwaysNonNilCache = map[string]bool{}

// alwaysNonNil: every return of g yields a non-nil value for result k (error
// constructors such as unexpectedTypeError).
func alwaysNonNil(g *ssa.Function, k int, depth int) bool {
	if g == nil || g.Blocks == nil || depth > 3 || !InModule(g) {
		return false
	}
	key := fmt.Sprintf("%p/%d", g, k)
	if v, ok := alwaysNonNilCache[key]; ok {
		return v
	}
	alwaysNonNilCache[key] = false
	n := 0
	res := true
	for _, b := range g.Blocks {
		r, ok := b.Instrs[len(b.Instrs)-1].(*ssa.Return)
		if !ok {
			continue
		}
		n++
		if k >= len(r.Results) {
			res = false
			break
		}
		v := r.Results[k]
		switch y := v.(type) {
		case *ssa.MakeInterface:
			continue
		case *ssa.Call:
			if g2 := staticCallee(&y.Call); g2 != nil && alwaysNonNil(g2, 0, depth+1) {
				continue
			}
			switch calleeID(y) {
			case "errors.New", "fmt.Errorf":
				continue
			}
		case *ssa.UnOp:
			if gl, ok := y.X.(*ssa.Global); ok && isErrorType(gl.Type().(*types.Pointer).Elem()) {
				continue
			}
		}
		res = false
		break
	}
	res = res && n > 0
	alwaysNonNilCache[key] = res
	return res
}

// stripKeepTypedNil strips wrappers, except an interface conversion of a nil
// pointer constant: comparing an interface with a typed nil is not a nil test.
func stripKeepTypedNil(v ssa.Value) ssa.Value {
	if mi, ok := v.(*ssa.MakeInterface); ok {
		if cst, ok := mi.X.(*ssa.Const); ok && cst.Value == nil {
			if _, isPtr := cst.Type().Underlying().(*types.Pointer); isPtr {
				return v
			}
		}
	}
	return strip(v)
}
