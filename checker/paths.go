package main

// E1 — path facts.
//
// (A) bounded path enumeration over the SSA CFG of one function, with phi
//     resolution, nil-ness tracking, pruning of infeasible edges;
// (B) must-facts: branch conditions (with polarity) that hold on every path
//     from the entry to a block (dominance with polarity), as a forward
//     intersection dataflow.

import (
	"fmt"
	"go/token"
	"go/types"

	"golang.org/x/tools/go/ssa"
)

// atomKey is a normalised branch condition.
type atomKey struct {
	op   token.Token // EQL, LSS, or ILLEGAL for an opaque boolean value
	x, y ssa.Value   // y == nil for nil tests and opaque values
}

// normCond normalises cond into (key, polarity): cond is true iff key holds == pol.
func normCond(cond ssa.Value) (atomKey, bool) {
	pol := true
	for {
		if u, ok := cond.(*ssa.UnOp); ok && u.Op == token.NOT {
			cond = u.X
			pol = !pol
			continue
		}
		break
	}
	if b, ok := cond.(*ssa.BinOp); ok {
		// b == true, b != false, ... (the switch-on-a-boolean form): the boolean itself
		if b.Op == token.EQL || b.Op == token.NEQ {
			for _, pr := range [][2]ssa.Value{{b.X, b.Y}, {b.Y, b.X}} {
				if cv, isC := constBool(pr[1]); isC {
					if _, otherConst := pr[0].(*ssa.Const); !otherConst {
						k, p2 := normCond(pr[0])
						want := cv == (b.Op == token.EQL) // cond is true iff pr[0] == want
						return k, pol == (p2 == want)
					}
				}
			}
		}
		x, y := canon(stripKeepTypedNil(b.X)), canon(stripKeepTypedNil(b.Y))
		switch b.Op {
		case token.EQL, token.NEQ:
			if b.Op == token.NEQ {
				pol = !pol
			}
			plainNil := func(v ssa.Value) bool {
				c, ok := v.(*ssa.Const)
				return ok && c.Value == nil && isNillable(c.Type())
			}
			if plainNil(x) {
				x, y = y, x
			}
			if plainNil(y) {
				return atomKey{token.EQL, x, nil}, pol
			}
			if lessValue(y, x) {
				x, y = y, x
			}
			return atomKey{token.EQL, x, y}, pol
		case token.LSS:
			return atomKey{token.LSS, x, y}, pol
		case token.GEQ:
			return atomKey{token.LSS, x, y}, !pol
		case token.GTR:
			return atomKey{token.LSS, y, x}, pol
		case token.LEQ:
			return atomKey{token.LSS, y, x}, !pol
		}
	}
	return atomKey{token.ILLEGAL, canon(cond), nil}, pol
}

// canon maps a load of a field path (rooted at a parameter / free variable)
// to the first load of the same access path in the function, provided the
// function itself never stores to any field on that path. Two reads of
// hs.certVerify.AuthKeysAllowed are then one value. (Assumption, listed in
// evidence: no concurrent mutation and no callee side effect on such fields
// between the reads.)
var canonCache = map[*ssa.Function]map[string]ssa.Value{}
var canonStored = map[*ssa.Function]map[*types.Var]bool{}
var canonReps = map[ssa.Value]bool{} // representatives: function-invariant values

func canon(v ssa.Value) ssa.Value {
	u, ok := v.(*ssa.UnOp)
	if !ok || u.Op != token.MUL {
		return v
	}
	if _, ok := u.X.(*ssa.FieldAddr); !ok {
		return v
	}
	fn := u.Parent()
	if fn == nil {
		return v
	}
	root, sels := accessPath(u)
	switch root.(type) {
	case *ssa.Parameter, *ssa.FreeVar:
	default:
		return v
	}
	stored, ok := canonStored[fn]
	if !ok {
		stored = map[*types.Var]bool{}
		eachInstr(fn, func(ins ssa.Instruction) {
			if st, ok := ins.(*ssa.Store); ok {
				if fa, ok := st.Addr.(*ssa.FieldAddr); ok {
					stored[fieldOf(fa.X.Type(), fa.Field)] = true
				}
			}
		})
		canonStored[fn] = stored
	}
	for _, s := range sels {
		if s.Field == nil || stored[s.Field] {
			return v
		}
	}
	cache := canonCache[fn]
	if cache == nil {
		cache = map[string]ssa.Value{}
		canonCache[fn] = cache
	}
	key := apString(u)
	if c, ok := cache[key]; ok {
		return c
	}
	// first load with this access path in block order
	var first ssa.Value
	for _, b := range fn.Blocks {
		for _, ins := range b.Instrs {
			if l, ok := ins.(*ssa.UnOp); ok && l.Op == token.MUL {
				if _, ok := l.X.(*ssa.FieldAddr); ok && apString(l) == key {
					first = l
					break
				}
			}
		}
		if first != nil {
			break
		}
	}
	if first == nil {
		first = v
	}
	cache[key] = first
	canonReps[first] = true
	return first
}

func lessValue(a, b ssa.Value) bool {
	// any deterministic order within a function
	ca, aok := a.(*ssa.Const)
	cb, bok := b.(*ssa.Const)
	if aok != bok {
		return bok // non-const first
	}
	if aok && bok {
		return ca.String() < cb.String()
	}
	if a.Name() != b.Name() {
		return a.Name() < b.Name()
	}
	return a.Pos() < b.Pos()
}

// definedIn reports whether v is defined by an instruction of block b.
func definedIn(v ssa.Value, b *ssa.BasicBlock) bool {
	if v == nil || canonReps[v] {
		return false
	}
	if ins, ok := v.(ssa.Instruction); ok {
		return ins.Block() == b
	}
	return false
}

type nilState int

const (
	nilUnknown nilState = iota
	isNil
	nonNil
)

// Path is one entry-to-exit path of a function.
type Path struct {
	Fn     *ssa.Function
	Blocks []*ssa.BasicBlock
	facts  []map[atomKey]bool // facts known at entry of Blocks[i] (shared, copy-on-write)

	// Virtual inlining (PathOpts.Inline): the path is a sequence of segments. Segment i
	// covers Blocks[i].Instrs[segFrom[i]:segTo[i]] and belongs to call frame segFrame[i];
	// a caller block that contains an inlined call appears once up to and including the
	// call, and again from the instruction after it. All nil when nothing was inlined.
	segFrom, segTo []int
	segFrame       []int
	frames         []pframe
	retBind        map[ssa.Value]boundRet // call result (call or extract) -> value returned by the inlined callee
	throughCalls   bool                   // Resolve follows retBind (off by default: rules match call results as such)
	Truncated      bool                   // the path was cut at a loop bound, it does not end in a return / panic
}

type pframe struct {
	fn      *ssa.Function
	call    *ssa.Call // nil for the root frame
	parent  int
	callSeg int // ordinal of the caller segment that ends with the call
}

type boundRet struct {
	v   ssa.Value
	seg int // ordinal of the callee segment holding the return
}

// instrs returns the instructions covered by segment i.
func (p *Path) instrs(i int) []ssa.Instruction {
	b := p.Blocks[i]
	if p.segFrom == nil {
		return b.Instrs
	}
	return b.Instrs[p.segFrom[i]:p.segTo[i]]
}

// endsBlock: segment i runs to the terminator of its block.
func (p *Path) endsBlock(i int) bool {
	return p.segTo == nil || p.segTo[i] == len(p.Blocks[i].Instrs)
}

// startsBlock: segment i begins at the entry of its block.
func (p *Path) startsBlock(i int) bool {
	return p.segFrom == nil || p.segFrom[i] == 0
}

// InlinedCall reports whether the walker descended into this call on this path.
func (p *Path) InlinedCall(call *ssa.Call) bool {
	for _, f := range p.frames {
		if f.call == call {
			return true
		}
	}
	return false
}

// Inlined reports whether ins lies in an inlined callee (not in the function the path was enumerated for).
func (p *Path) Inlined(ins ssa.Instruction) bool {
	return ins.Parent() != p.Fn
}

// RootSite maps an instruction met at block ordinal i to the instruction of the path's own function
// that contains it: ins itself, or the outermost inlined call it was reached through.
func (p *Path) RootSite(i int, ins ssa.Instruction) ssa.Instruction {
	if p.segFrame == nil || i >= len(p.segFrame) || p.segFrame[i] == 0 {
		return ins
	}
	fr := p.segFrame[i]
	for p.frames[fr].parent != 0 {
		fr = p.frames[fr].parent
	}
	return p.frames[fr].call
}

// SiteChain lists ins followed by the inlined calls it was reached through, innermost first: the
// instruction's own position and every call site that encloses it on this path.
func (p *Path) SiteChain(i int, ins ssa.Instruction) []ssa.Instruction {
	out := []ssa.Instruction{ins}
	if p.segFrame == nil || i >= len(p.segFrame) {
		return out
	}
	for fr := p.segFrame[i]; fr != 0; fr = p.frames[fr].parent {
		out = append(out, p.frames[fr].call)
	}
	return out
}

// Exit returns the final instruction (Return, Panic) of the path.
func (p *Path) Exit() ssa.Instruction {
	b := p.Blocks[len(p.Blocks)-1]
	return b.Instrs[len(b.Instrs)-1]
}

// Returns reports whether the path ends in a Return.
func (p *Path) Returns() *ssa.Return {
	r, _ := p.Exit().(*ssa.Return)
	return r
}

// ForEach visits the instructions of the path in order; i is the block ordinal.
func (p *Path) ForEach(f func(i int, ins ssa.Instruction) bool) {
	for i := range p.Blocks {
		for _, ins := range p.instrs(i) {
			if !f(i, ins) {
				return
			}
		}
	}
}

// Resolve maps phis to the operand selected by the path, as seen at block ordinal at.
// With inlining it also maps a parameter of an inlined callee to the argument of the
// call, and the result of an inlined call to the value the callee returned on this path.
func (p *Path) Resolve(v ssa.Value, at int) ssa.Value {
	if at > len(p.Blocks)-1 {
		at = len(p.Blocks) - 1
	}
	for k := 0; k < 48; k++ {
		v = strip(v)
		if p.frames != nil && at >= 0 {
			if par, ok := v.(*ssa.Parameter); ok && par.Parent() != p.Fn {
				// the latest invocation of par's function that started at or before 'at'
				f := -1
				for k := len(p.frames) - 1; k > 0; k-- {
					if p.frames[k].fn == par.Parent() && p.frames[k].callSeg <= at {
						f = k
						break
					}
				}
				if f > 0 {
					idx := -1
					for i, q := range par.Parent().Params {
						if q == par {
							idx = i
						}
					}
					args := callArgs(&p.frames[f].call.Call)
					if idx >= 0 && idx < len(args) {
						v, at = args[idx], p.frames[f].callSeg
						continue
					}
				}
				return v
			}
			if br, ok := p.retBind[v]; ok && br.seg <= at && p.throughCalls {
				v, at = br.v, br.seg
				continue
			}
		}
		phi, ok := v.(*ssa.Phi)
		if !ok {
			return v
		}
		// latest entry into phi's block at or before 'at'
		j := -1
		for i := at; i >= 0; i-- {
			if p.Blocks[i] == phi.Block() && p.startsBlock(i) {
				j = i
				break
			}
		}
		if j <= 0 {
			return v
		}
		pred := p.Blocks[j-1]
		idx := -1
		for i, pb := range phi.Block().Preds {
			if pb == pred {
				idx = i
				break
			}
		}
		if idx < 0 {
			return v
		}
		v = phi.Edges[idx]
		at = j - 1
	}
	return v
}

// Took reports the branch taken at the If ending block ordinal i (true edge?).
func (p *Path) Took(i int) (isIf bool, trueEdge bool) {
	if i+1 >= len(p.Blocks) {
		return false, false
	}
	b := p.Blocks[i]
	if !p.endsBlock(i) {
		return false, false
	}
	if _, ok := b.Instrs[len(b.Instrs)-1].(*ssa.If); !ok {
		return false, false
	}
	return true, b.Succs[0] == p.Blocks[i+1]
}

// FactsAt returns the atoms known at the entry of block ordinal i.
func (p *Path) FactsAt(i int) map[atomKey]bool { return p.facts[i] }

// Holds reports whether cond is known on the path at block ordinal i.
func (p *Path) Holds(cond ssa.Value, i int) (val, known bool) {
	return evalCond(p, cond, i, p.facts[i])
}

// Nilness classifies v at block ordinal i.
func (p *Path) Nilness(v ssa.Value, i int) nilState {
	return nilness(p, v, i, p.facts[i], 0)
}

// lastStoreBefore finds, walking the path backwards from (block ordinal i,
// before instruction 'before' if in that block), the last Store to addr.
func (p *Path) lastStoreBefore(addr ssa.Value, i int, before ssa.Instruction) (*ssa.Store, int) {
	for bi := i; bi >= 0; bi-- {
		instrs := p.instrs(bi)
		end := len(instrs)
		if bi == i && before != nil {
			for k, ins := range instrs {
				if ins == before {
					end = k
					break
				}
			}
		}
		for k := end - 1; k >= 0; k-- {
			if st, ok := instrs[k].(*ssa.Store); ok && st.Addr == addr {
				return st, bi
			}
		}
	}
	return nil, -1
}

func nilness(p *Path, v ssa.Value, at int, facts map[atomKey]bool, depth int) nilState {
	if depth > 8 || v == nil {
		return nilUnknown
	}
	orig := strip(v)
	if p != nil {
		v = p.Resolve(v, at)
	} else {
		v = strip(v)
	}
	if isNilConst(v) {
		return isNil
	}
	for _, cand := range []ssa.Value{canon(orig), canon(v)} {
		if b, ok := facts[atomKey{token.EQL, cand, nil}]; ok {
			if b {
				return isNil
			}
			return nonNil
		}
	}
	switch x := v.(type) {
	case *ssa.Alloc, *ssa.FieldAddr, *ssa.IndexAddr, *ssa.MakeClosure, *ssa.Function, *ssa.MakeSlice, *ssa.MakeMap, *ssa.MakeChan, *ssa.Global:
		return nonNil
	case *ssa.Const:
		if x.Value != nil {
			return nonNil
		}
	case *ssa.UnOp:
		if x.Op == token.MUL {
			if g, ok := x.X.(*ssa.Global); ok {
				// package-level error sentinel (ErrXxx = errors.New(...)): assumed never nil
				if isErrorType(g.Type().(*types.Pointer).Elem()) {
					return nonNil
				}
			}
			if a, ok := x.X.(*ssa.Alloc); ok && p != nil {
				// load of a local / named result: classify the last store on the path
				if st, bi := p.lastStoreBefore(a, at, x); st != nil {
					return nilness(p, st.Val, bi, p.facts[bi], depth+1)
				}
				if _, bi := p.lastStoreBefore(a, at, x); bi < 0 && isNillable(a.Type().(*types.Pointer).Elem()) {
					return isNil // zero value, never stored on this path
				}
			}
		}
	case *ssa.Call:
		switch calleeID(x) {
		case "errors.New", "fmt.Errorf", "github.com/pkg/errors.New", "github.com/pkg/errors.Errorf":
			return nonNil
		}
		if g := staticCallee(&x.Call); g != nil && x.Call.Signature().Results().Len() == 1 && alwaysNonNil(g, 0, 0) {
			return nonNil
		}
	case *ssa.Extract:
		if call, ok := x.Tuple.(*ssa.Call); ok {
			if g := staticCallee(&call.Call); g != nil && alwaysNonNil(g, x.Index, 0) {
				return nonNil
			}
		}
	}
	// original (pre-strip) MakeInterface of a concrete value is a non-nil interface
	if mi, ok := p.resolveNoStrip(orig, at).(*ssa.MakeInterface); ok {
		_ = mi
		return nonNil
	}
	return nilUnknown
}

// resolveNoStrip resolves phis but keeps MakeInterface wrappers.
func (p *Path) resolveNoStrip(v ssa.Value, at int) ssa.Value {
	if p == nil {
		return v
	}
	for k := 0; k < 32; k++ {
		phi, ok := v.(*ssa.Phi)
		if !ok {
			return v
		}
		j := -1
		for i := min(at, len(p.Blocks)-1); i >= 0; i-- {
			if p.Blocks[i] == phi.Block() {
				j = i
				break
			}
		}
		if j <= 0 {
			return v
		}
		pred := p.Blocks[j-1]
		idx := -1
		for i, pb := range phi.Block().Preds {
			if pb == pred {
				idx = i
				break
			}
		}
		if idx < 0 {
			return v
		}
		v = phi.Edges[idx]
		at = j - 1
	}
	return v
}

// evalCond tries to decide cond from constants, phi resolution, nil-ness and known atoms.
func evalCond(p *Path, cond ssa.Value, at int, facts map[atomKey]bool) (val, known bool) {
	if b, ok := constBool(cond); ok {
		return b, true
	}
	if p != nil {
		if r := p.resolveNoStrip(cond, at); r != cond {
			return evalCond(p, r, at, facts)
		}
	}
	if u, ok := cond.(*ssa.UnOp); ok && u.Op == token.NOT {
		v, k := evalCond(p, u.X, at, facts)
		return !v, k
	}
	key, pol := normCond(cond)
	if b, ok := facts[key]; ok {
		return b == pol, true
	}
	if key.op == token.EQL && key.y != nil {
		// x == C is false when x == D (D != C) is known
		for _, pr := range [][2]ssa.Value{{key.x, key.y}, {key.y, key.x}} {
			cst, ok := pr[1].(*ssa.Const)
			if !ok || cst.Value == nil {
				continue
			}
			for k2, v2 := range facts {
				if !v2 || k2.op != token.EQL || k2.y == nil {
					continue
				}
				for _, pr2 := range [][2]ssa.Value{{k2.x, k2.y}, {k2.y, k2.x}} {
					if pr2[0] != pr[0] {
						continue
					}
					if c2, ok := pr2[1].(*ssa.Const); ok && c2.Value != nil && c2.Value.ExactString() != cst.Value.ExactString() {
						return !pol, true
					}
				}
			}
		}
	}
	if key.op == token.EQL && key.y == nil {
		switch nilness(p, key.x, at, facts, 0) {
		case isNil:
			return pol, true
		case nonNil:
			return !pol, true
		}
	}
	if key.op == token.EQL && key.y != nil && p != nil {
		// constant folding through phis
		a, b := p.Resolve(key.x, at), p.Resolve(key.y, at)
		if ca, ok := a.(*ssa.Const); ok {
			if cb, ok := b.(*ssa.Const); ok && ca.Value != nil && cb.Value != nil {
				return (ca.Value.ExactString() == cb.Value.ExactString()) == pol, true
			}
		}
	}
	return false, false
}

// PathOpts bounds the enumeration.
// tierThorough deepens every path enumeration (set by the thorough tier).
var tierThorough bool

type PathOpts struct {
	MaxPaths  int // default 100000
	MaxVisits int // visits of one block per path (and per call frame), default 2
	// Inline, when set, makes the walker descend into static callees it approves
	// (root is the function being enumerated): the callee's blocks become part of the
	// path, its parameters resolve to the arguments, and what it returns is bound to the
	// call's results. Used to make rules independent of how a function is cut into helpers.
	Inline      func(root, callee *ssa.Function) bool
	InlineDepth int  // default 2
	NoInline    bool // walkAll's default policy (localHelper) is not wanted
	// EmitTruncated also visits the prefixes that are cut off when a loop would be entered
	// again (Path.Truncated): for rules that look at sites inside loops that never return.
	EmitTruncated bool
}

// WalkPaths enumerates entry-to-exit paths of fn. visit returns false to stop.
// complete is false when a bound was hit (caller must treat that as undecided).
func WalkPaths(fn *ssa.Function, opts PathOpts, visit func(p *Path) bool) (n int, complete bool) {
	if opts.MaxPaths == 0 {
		opts.MaxPaths = 100000
	}
	if opts.MaxVisits == 0 {
		opts.MaxVisits = 2
	}
	if opts.InlineDepth == 0 {
		opts.InlineDepth = 2
	}
	if tierThorough {
		// one more unrolling of every loop, and room for the extra paths
		opts.MaxVisits++
		opts.MaxPaths *= 20
	}
	if len(fn.Blocks) == 0 {
		return 0, true
	}
	type vkey struct {
		frame int
		b     *ssa.BasicBlock
	}
	inl := opts.Inline != nil
	visits := map[vkey]int{}
	p := &Path{Fn: fn}
	if inl {
		p.frames = []pframe{{fn: fn, parent: -1, callSeg: -1}}
		p.retBind = map[ssa.Value]boundRet{}
		p.segFrom, p.segTo, p.segFrame = []int{}, []int{}, []int{}
	}
	complete = true
	stop := false
	emit := func() {
		n++
		if n > opts.MaxPaths {
			complete = false
			stop = true
			return
		}
		cp := &Path{Fn: fn, Blocks: append([]*ssa.BasicBlock(nil), p.Blocks...), facts: append([]map[atomKey]bool(nil), p.facts...), Truncated: p.Truncated}
		if inl {
			cp.segFrom = append([]int(nil), p.segFrom...)
			cp.segTo = append([]int(nil), p.segTo...)
			cp.segFrame = append([]int(nil), p.segFrame...)
			cp.frames = append([]pframe(nil), p.frames...)
			cp.retBind = make(map[ssa.Value]boundRet, len(p.retBind))
			for k, v := range p.retBind {
				cp.retBind[k] = v
			}
		}
		if !visit(cp) {
			stop = true
		}
	}
	depthOf := func(fr int) int {
		d := 0
		for fr > 0 {
			d++
			fr = p.frames[fr].parent
		}
		return d
	}
	onStack := func(fr int, g *ssa.Function) bool {
		for fr >= 0 {
			if p.frames[fr].fn == g {
				return true
			}
			fr = p.frames[fr].parent
		}
		return false
	}
	type contFn func(ret *ssa.Return, facts map[atomKey]bool)
	var rec func(b *ssa.BasicBlock, from int, facts map[atomKey]bool, fr int, k contFn)
	rec = func(b *ssa.BasicBlock, from int, facts map[atomKey]bool, fr int, k contFn) {
		if stop {
			return
		}
		if from == 0 {
			if visits[vkey{fr, b}] >= opts.MaxVisits {
				// bounded unrolling: this path is dropped (loop iterated more often)
				if opts.EmitTruncated && len(p.Blocks) > 0 {
					p.Truncated = true
					emit()
					p.Truncated = false
				}
				return
			}
			// kill facts about values (re)defined in b
			if len(facts) > 0 {
				var kill []atomKey
				for key := range facts {
					if definedIn(key.x, b) || definedIn(key.y, b) {
						kill = append(kill, key)
					}
				}
				if len(kill) > 0 {
					nf := make(map[atomKey]bool, len(facts))
					for key, v := range facts {
						nf[key] = v
					}
					for _, key := range kill {
						delete(nf, key)
					}
					facts = nf
				}
			}
			visits[vkey{fr, b}]++
			defer func() { visits[vkey{fr, b}]-- }()
		}
		// the segment runs to the first call the caller wants inlined, or to the end of the block
		to := len(b.Instrs)
		var callee *ssa.Function
		var call *ssa.Call
		if inl && depthOf(fr) < opts.InlineDepth {
			for idx := from; idx < len(b.Instrs)-1; idx++ {
				c, ok := b.Instrs[idx].(*ssa.Call)
				if !ok {
					continue
				}
				g := staticCallee(&c.Call)
				if g == nil || len(g.Blocks) == 0 || onStack(fr, g) || !opts.Inline(fn, g) {
					continue
				}
				to, callee, call = idx+1, g, c
				break
			}
		}
		p.Blocks = append(p.Blocks, b)
		p.facts = append(p.facts, facts)
		if inl {
			p.segFrom = append(p.segFrom, from)
			p.segTo = append(p.segTo, to)
			p.segFrame = append(p.segFrame, fr)
		}
		at := len(p.Blocks) - 1
		defer func() {
			p.Blocks = p.Blocks[:at]
			p.facts = p.facts[:at]
			if inl {
				p.segFrom, p.segTo, p.segFrame = p.segFrom[:at], p.segTo[:at], p.segFrame[:at]
			}
		}()
		if callee != nil {
			nfr := len(p.frames)
			p.frames = append(p.frames, pframe{fn: callee, call: call, parent: fr, callSeg: at})
			rec(callee.Blocks[0], 0, facts, nfr, func(ret *ssa.Return, f2 map[atomKey]bool) {
				retSeg := len(p.Blocks) - 1
				f3, bound := bindResults(p, call, ret, retSeg, f2)
				for _, v := range bound {
					p.retBind[v] = boundRet{retValueFor(call, v, ret), retSeg}
				}
				rec(b, to, f3, fr, k)
				for _, v := range bound {
					delete(p.retBind, v)
				}
			})
			p.frames = p.frames[:nfr]
			return
		}
		last := b.Instrs[len(b.Instrs)-1]
		switch t := last.(type) {
		case *ssa.If:
			val, known := evalCond(p, t.Cond, at, facts)
			key, pol := normCond(p.resolveNoStrip(t.Cond, at))
			for si, s := range b.Succs {
				edgeTrue := si == 0
				if known && val != edgeTrue {
					continue
				}
				nf := make(map[atomKey]bool, len(facts)+2)
				for kk, v := range facts {
					nf[kk] = v
				}
				nf[key] = (edgeTrue == pol)
				// also record under the unresolved condition and with phi operands resolved
				k2, p2 := normCond(t.Cond)
				nf[k2] = (edgeTrue == p2)
				if k2.op == token.ILLEGAL && inl {
					// an opaque boolean that is a parameter of an inlined helper is the caller's argument
					if r := p.Resolve(k2.x, at); r != k2.x {
						k3, p3 := normCond(r)
						nf[k3] = ((edgeTrue == p2) == p3)
					}
				}
				if k2.op != token.ILLEGAL {
					k3 := k2
					k3.x = p.Resolve(k2.x, at)
					if k2.y != nil {
						k3.y = p.Resolve(k2.y, at)
						if k3.op == token.EQL && lessValue(k3.y, k3.x) {
							k3.x, k3.y = k3.y, k3.x
						}
					}
					if k3 != k2 && !isNilConst(k3.x) {
						nf[k3] = (edgeTrue == p2)
					}
				}
				// a branch on the result of an inlined call is a branch on what the callee returned
				if inl && len(p.retBind) > 0 {
					if k2.op == token.ILLEGAL {
						if br, ok := p.retBind[k2.x]; ok {
							k4, p4 := normCond(p.resolveNoStrip(br.v, br.seg))
							if k4 != k2 {
								nf[k4] = ((edgeTrue == p2) == p4)
							}
						}
					} else if k2.y == nil {
						if br, ok := p.retBind[k2.x]; ok {
							k4 := k2
							k4.x = canon(p.Resolve(br.v, br.seg))
							if k4 != k2 && !isNilConst(k4.x) {
								nf[k4] = (edgeTrue == p2)
							}
						}
					}
				}
				rec(s, 0, nf, fr, k)
			}
		case *ssa.Jump:
			rec(b.Succs[0], 0, facts, fr, k)
		case *ssa.Return:
			if k != nil {
				k(t, facts)
			} else {
				emit()
			}
		default: // Panic: the path ends here, in whatever frame
			emit()
		}
	}
	rec(fn.Blocks[0], 0, map[atomKey]bool{}, 0, nil)
	return n, complete
}

// retValueFor: the callee value that result v (the call itself, or an extract of it) stands for.
func retValueFor(call *ssa.Call, v ssa.Value, ret *ssa.Return) ssa.Value {
	if ex, ok := v.(*ssa.Extract); ok {
		if ex.Index < len(ret.Results) {
			return ret.Results[ex.Index]
		}
		return v
	}
	if len(ret.Results) == 1 {
		return ret.Results[0]
	}
	return v
}

// bindResults translates what is known about the values returned by an inlined callee
// (nil-ness, truth) into facts about the caller's results of that call, and lists the
// caller values that now stand for a returned value.
func bindResults(p *Path, call *ssa.Call, ret *ssa.Return, retSeg int, facts map[atomKey]bool) (map[atomKey]bool, []ssa.Value) {
	var targets []ssa.Value
	if len(ret.Results) == 1 {
		targets = append(targets, call)
	} else if call.Referrers() != nil {
		for _, r := range *call.Referrers() {
			if ex, ok := r.(*ssa.Extract); ok && ex.Index < len(ret.Results) {
				targets = append(targets, ex)
			}
		}
	}
	if len(targets) == 0 {
		return facts, nil
	}
	nf := make(map[atomKey]bool, len(facts)+len(targets))
	for k, v := range facts {
		nf[k] = v
	}
	for _, t := range targets {
		rv := retValueFor(call, t, ret)
		if isNillable(t.Type()) {
			switch nilness(p, rv, retSeg, facts, 0) {
			case isNil:
				nf[atomKey{token.EQL, canon(t), nil}] = true
			case nonNil:
				nf[atomKey{token.EQL, canon(t), nil}] = false
			}
		} else if b, ok := t.Type().Underlying().(*types.Basic); ok && b.Kind() == types.Bool {
			if val, known := evalCond(p, rv, retSeg, facts); known {
				nf[atomKey{token.ILLEGAL, canon(t), nil}] = val
			}
		}
	}
	return nf, targets
}

// ---------------------------------------------------------------------------
// (B) must-facts

// MustFacts holds, per block, the atoms true on every path from entry.
type MustFacts struct {
	fn *ssa.Function
	in map[*ssa.BasicBlock]map[atomKey]bool
}

func ComputeMustFacts(fn *ssa.Function) *MustFacts {
	mf := &MustFacts{fn: fn, in: map[*ssa.BasicBlock]map[atomKey]bool{}}
	if len(fn.Blocks) == 0 {
		return mf
	}
	// nil map = TOP (not yet reached)
	mf.in[fn.Blocks[0]] = map[atomKey]bool{}
	changed := true
	for iter := 0; changed && iter < 200; iter++ {
		changed = false
		for _, b := range fn.Blocks {
			if b == fn.Blocks[0] {
				continue
			}
			var acc map[atomKey]bool
			first := true
			for _, pr := range b.Preds {
				pin, ok := mf.in[pr]
				if !ok {
					continue // TOP
				}
				out := edgeFacts(pr, b, pin)
				if first {
					acc = out
					first = false
				} else {
					for k, v := range acc {
						if ov, ok := out[k]; !ok || ov != v {
							delete(acc, k)
						}
					}
				}
			}
			if first {
				continue
			}
			for k := range acc {
				if definedIn(k.x, b) || definedIn(k.y, b) {
					delete(acc, k)
				}
			}
			old, had := mf.in[b]
			if !had || !sameFacts(old, acc) {
				mf.in[b] = acc
				changed = true
			}
		}
	}
	return mf
}

func sameFacts(a, b map[atomKey]bool) bool {
	if len(a) != len(b) {
		return false
	}
	for k, v := range a {
		if w, ok := b[k]; !ok || w != v {
			return false
		}
	}
	return true
}

func edgeFacts(from, to *ssa.BasicBlock, in map[atomKey]bool) map[atomKey]bool {
	out := make(map[atomKey]bool, len(in)+1)
	for k, v := range in {
		out[k] = v
	}
	if t, ok := from.Instrs[len(from.Instrs)-1].(*ssa.If); ok {
		if from.Succs[0] == to && from.Succs[1] == to {
			return out
		}
		key, pol := normCond(t.Cond)
		out[key] = (from.Succs[0] == to) == pol
	}
	return out
}

// At returns the must-facts at instruction ins (facts at its block entry).
func (mf *MustFacts) At(ins ssa.Instruction) map[atomKey]bool {
	return mf.in[ins.Block()]
}

// Reached reports whether the block of ins is reachable from entry.
func (mf *MustFacts) Reached(ins ssa.Instruction) bool {
	_, ok := mf.in[ins.Block()]
	return ok
}

// CondAt: is cond known (with which value) at ins on every path?
func (mf *MustFacts) CondAt(ins ssa.Instruction, cond ssa.Value) (val, known bool) {
	return evalCond(nil, cond, 0, mf.in[ins.Block()])
}

// NilAt classifies v at ins on every path; loads of locals are traced to the
// dominating store in the same block.
func (mf *MustFacts) NilAt(ins ssa.Instruction, v ssa.Value) nilState {
	facts := mf.in[ins.Block()]
	if s := nilness(nil, v, 0, facts, 0); s != nilUnknown {
		return s
	}
	// facts recorded on a load of a local that was stored from v
	for k, b := range facts {
		if k.op != token.EQL || k.y != nil {
			continue
		}
		if src := loadSource(k.x); src != nil && strip(src) == strip(v) {
			if b {
				return isNil
			}
			return nonNil
		}
	}
	return nilUnknown
}

// loadSource: for t = *a (a local Alloc), the value stored to a by the closest
// preceding Store in the same block (nil if none).
func loadSource(v ssa.Value) ssa.Value {
	u, ok := v.(*ssa.UnOp)
	if !ok || u.Op != token.MUL {
		return nil
	}
	a, ok := u.X.(*ssa.Alloc)
	if !ok {
		return nil
	}
	b := u.Block()
	idx := instrIndex(u)
	for hops := 0; hops < 6; hops++ {
		for k := idx - 1; k >= 0; k-- {
			if st, ok := b.Instrs[k].(*ssa.Store); ok && st.Addr == a {
				return st.Val
			}
		}
		if len(b.Preds) != 1 {
			return nil
		}
		b = b.Preds[0]
		idx = len(b.Instrs)
	}
	return nil
}

var alwaysNonNilCache = map[string]bool{}

// alwaysNonNil: every return of g yields a non-nil value for result k (error
// constructors such as unexpectedTypeError).
func alwaysNonNil(g *ssa.Function, k int, depth int) bool {
	if g == nil || g.Blocks == nil || depth > 3 || !InModule(g) {
		return false
	}
	key := fmt.Sprintf("%p/%d", g, k)
	if v, ok := alwaysNonNilCache[key]; ok {
		return v
	}
	alwaysNonNilCache[key] = false
	n := 0
	res := true
	for _, b := range g.Blocks {
		r, ok := b.Instrs[len(b.Instrs)-1].(*ssa.Return)
		if !ok {
			continue
		}
		n++
		if k >= len(r.Results) {
			res = false
			break
		}
		v := r.Results[k]
		switch y := v.(type) {
		case *ssa.MakeInterface:
			continue
		case *ssa.Call:
			if g2 := staticCallee(&y.Call); g2 != nil && alwaysNonNil(g2, 0, depth+1) {
				continue
			}
			switch calleeID(y) {
			case "errors.New", "fmt.Errorf":
				continue
			}
		case *ssa.UnOp:
			if gl, ok := y.X.(*ssa.Global); ok && isErrorType(gl.Type().(*types.Pointer).Elem()) {
				continue
			}
		}
		res = false
		break
	}
	res = res && n > 0
	alwaysNonNilCache[key] = res
	return res
}

// stripKeepTypedNil strips wrappers, except an interface conversion of a nil
// pointer constant: comparing an interface with a typed nil is not a nil test.
func stripKeepTypedNil(v ssa.Value) ssa.Value {
	if mi, ok := v.(*ssa.MakeInterface); ok {
		if cst, ok := mi.X.(*ssa.Const); ok && cst.Value == nil {
			if _, isPtr := cst.Type().Underlying().(*types.Pointer); isPtr {
				return v
			}
		}
	}
	return strip(v)
}
