package main

// C03 — Transport channel: authentic, at-most-once, complete and confidential delivery.
// C15 — A session's peer address moves only on authentic, fresh packets.

import (
	"fmt"
	"go/ast"
	"go/token"
	"go/types"

	"golang.org/x/tools/go/ssa"
)

func init() {
	register("C03", checkC03)
	register("C15", checkC15)
}

const aeadOpenID = "(crypto/cipher.AEAD).Open"
const aeadSealID = "(crypto/cipher.AEAD).Seal"

// sessionMsgHandlers returns the two handleSessionMessage functions.
func sessionMsgHandlers(c *Ctx, rule string) []*ssa.Function {
	var out []*ssa.Function
	for _, n := range []string{"(*Server).handleSessionMessage", "(*Client).handleSessionMessage"} {
		f := c.P.Func("transport", n)
		if f == nil {
			c.Undecided(rule, "transport."+n, "function not found")
			continue
		}
		out = append(out, handlerBody(c.P, f))
	}
	return out
}

// handlerBody: the function that does the handler's work — f itself when it calls readPacketLocked, else
// the local helper cut out of f that does (a lock-and-delegate wrapper keeps the name, the body moves).
func handlerBody(P *Program, f *ssa.Function) *ssa.Function {
	if readPacketCall(f) != nil {
		return f
	}
	var body *ssa.Function
	eachInstr(f, func(ins ssa.Instruction) {
		if call, ok := ins.(*ssa.Call); ok {
			if g := staticCallee(&call.Call); g != nil && g != f && len(g.Blocks) > 0 && P.OwnedBy(g, f) && readPacketCall(g) != nil {
				body = g
			}
		}
	})
	if body != nil {
		return body
	}
	return f
}

// handlerHelper: g is a local helper shared by the session message handlers only (unexported, every
// caller is a static call from a handler body): what it does is judged at its call sites.
func handlerHelper(P *Program, g *ssa.Function, handlers []*ssa.Function) bool {
	if g == nil || g.Parent() != nil || ast.IsExported(g.Name()) || len(g.Blocks) == 0 {
		return false
	}
	edges := P.Callers(g)
	if len(edges) == 0 {
		return false
	}
	for _, e := range edges {
		if e.Site == nil || e.Site.Common().StaticCallee() != g {
			return false
		}
		if _, isGo := e.Site.(*ssa.Go); isGo {
			return false
		}
		isH := false
		for _, h := range handlers {
			if e.Caller.Func == h {
				isH = true
			}
		}
		if !isH {
			return false
		}
	}
	return true
}

// readPacketCall finds the call of readPacketLocked in fn.
func readPacketCall(fn *ssa.Function) *ssa.Call {
	for _, cs := range callSitesIn(fn, false, hopID("transport", "SessionState", "readPacketLocked")) {
		if call, ok := cs.(*ssa.Call); ok {
			return call
		}
	}
	return nil
}

func checkC03(c *Ctx) {
	P := c.P
	c.Rule("C03.R1", "authenticate-then-act: readPacketLocked succeeds only after type test, session-id equality, window.Check(count) true, non-nil key, AEAD Open nil and then window.Mark of the same count; Mark and the replay window have no other writer; in both handleSessionMessage functions delivery, control handling and close are dominated by readPacketLocked's nil edge; closeLocked has only authenticated or local callers (E1 + E4)")
	c.Rule("C03.R2", "what is authenticated: the associated data given to Open/Seal is the packet prefix [0,AssociatedDataLen), the counter is parsed from bytes inside it, the keys are ss.readKey / ss.writeKey (E1 + constant slices)")
	c.Rule("C03.R3", "counter discipline: ss.count is incremented only in sealPacketLocked after Seal on the success path; sealPacketLocked is called only from Handle.send between ss.m.Lock and Unlock and returns a copy of the reused buffer (E1 + E4)")
	c.Rule("C03.R4", "write chunking covers the buffer: the loop in Handle.Write starts at offset 0, steps by the chunk width, bounds each chunk by len(b), propagates WriteMsg errors and reports the bytes actually sent (induction shape on the SSA loop)")
	c.Rule("C03.R5", "nothing secret in clear: the plaintext parameter of sealPacketLocked flows only into Seal; only header constants, session id, counter and Seal output are written to the packet buffer; EncryptSNI writes only duplex.Encrypt output (def-use)")
	c.Rule("C03.R6", "replay-filter geometry: the window, shift and masks that Check and Mark apply to the counter are mutually consistent and identical in both (see C14.R1/R2): a block recycled by Mark lies wholly below the window, and Mark zeroes only the slots of blocks above the old top (see C14.R3), so an authentic datagram cannot be delivered twice (constants of the SSA form + E2)")
	c.Rule("C03.R7", "receive capacity: the buffers Client.listen and the Serve receive goroutine hand to ReadMsgUDP are at least as long as the largest datagram the sender can produce (WriteMsg's length guard + the framing overhead of PlaintextLen): a shorter buffer truncates, the packet fails authentication and an accepted message is lost (constants of the SSA form + E1 facts)")
	c.Decides("ordering of replay check, authentication, marking and delivery; provenance of packet bytes; chunk arithmetic of Write")
	c.NotDecided("at-most-once as a function of the window algorithm (C14); delivery on a faithful network beyond chunk arithmetic; behaviour of SANSE (C12)")

	c03R1(c)
	c03R2R5(c)
	c03R3(c)
	c03R4(c)
	ringRule(c, "C03.R6", "C03.R6")
	ringClearRule(c, "C03.R6")
	c03R7(c)
	sessionStateAfterAuth(c, "C03.R8")
	_ = P
}

func c03R1(c *Ctx) {
	if !acceptOrderRule(c, "C03.R1", []string{"type", "session-id", "replay-check", "open", "mark", "mark-after-open", "same-counter", "order"}) {
		return
	}
	c03R1Rest(c)
}

// acceptOrderRule: the decision table of readPacketLocked. keys selects the obligations reported under
// rule (C03.R1 takes all; C14.R4 takes those that say what the replay filter is fed with).
func acceptOrderRule(c *Ctx, rule string, keys []string) bool {
	P := c.P
	fn := P.Func("transport", "(*SessionState).readPacketLocked")
	fWindow := P.Field("transport", "SessionState", "window")
	if fn == nil || fWindow == nil {
		c.Undecided(rule, "transport.(*SessionState).readPacketLocked", "function or field not found")
		return false
	}
	name := FuncName(fn)
	c.Analysed(name)
	checkID := hopID("transport", "SlidingWindow", "Check")
	markID := hopID("transport", "SlidingWindow", "Mark")
	readCounterID := hopID("transport", "SessionState", "readCounter")
	mtT, mtC := pkgConst(P, "transport", "MessageTypeTransport"), pkgConst(P, "transport", "MessageTypeControl")
	fSess := P.Field("transport", "SessionState", "sessionID")
	fs := newFailSet()
	succ := 0
	ok := walkAll(c, rule, fn, func(p *Path) {
		last := len(p.Blocks) - 1
		var checkCall, openCall, markCall *ssa.Call
		order := []string{}
		p.ForEach(func(i int, ins ssa.Instruction) bool {
			call, ok := ins.(*ssa.Call)
			if !ok {
				return true
			}
			switch calleeID(call) {
			case checkID:
				checkCall = call
				order = append(order, "check")
			case aeadOpenID:
				openCall = call
				order = append(order, "open")
			case markID:
				markCall = call
				order = append(order, "mark")
				// Mark only after a nil Open on this path
				if openCall == nil {
					fs.add("mark-after-open", "the replay window is marked before the packet was opened (an unauthenticated datagram could burn a counter)", ins, p)
				} else if ev := errResultOf(openCall); ev == nil || p.Nilness(ev, last) != isNil {
					fs.add("mark-after-open", "the replay window is marked on a path where AEAD Open was not found to succeed", ins, p)
				}
			}
			return true
		})
		if !isSuccess(p) {
			return
		}
		succ++
		facts := p.FactsAt(last)
		// message type
		typeOK := false
		for k, v := range facts {
			if k.op == token.EQL && k.y != nil && v {
				for _, pr := range [][2]ssa.Value{{k.x, k.y}, {k.y, k.x}} {
					if n, isC := constInt(pr[1]); isC && (n == mtT || n == mtC) {
						if _, isConst := pr[0].(*ssa.Const); !isConst {
							typeOK = true
						}
					}
				}
			}
		}
		if !typeOK {
			fs.add("type", "readPacketLocked succeeds for a packet whose type byte was not found to be Transport or Control", p.Exit(), p)
		}
		// session id equality
		sidOK := false
		for _, pc := range callsOnPath(p) {
			if id := calleeID(pc.call); id == "bytes.Equal" || id == "crypto/subtle.ConstantTimeCompare" {
				a := pc.call.Call.Args
				if len(a) == 2 && (hasField(a[0], fSess) || hasField(a[1], fSess)) {
					if v, known := boolOnPath(p, pc.call); known && v {
						sidOK = true
					}
				}
			}
		}
		if !sidOK {
			fs.add("session-id", "readPacketLocked succeeds without the packet's session id having been found equal to the session's", p.Exit(), p)
		}
		if checkCall == nil {
			fs.add("replay-check", "readPacketLocked succeeds without consulting the replay window", p.Exit(), p)
		} else if v, known := boolOnPath(p, checkCall); !(known && v) {
			fs.add("replay-check", "readPacketLocked succeeds on a path where window.Check(count) was not found true", p.Exit(), p)
		}
		if openCall == nil {
			fs.add("open", "readPacketLocked succeeds without AEAD Open", p.Exit(), p)
		} else if ev := errResultOf(openCall); ev == nil || p.Nilness(ev, last) != isNil {
			fs.add("open", "readPacketLocked succeeds on a path where AEAD Open's error was not found nil", p.Exit(), p)
		}
		if markCall == nil {
			fs.add("mark", "readPacketLocked succeeds without marking the counter as seen (replays would be accepted)", p.Exit(), p)
		}
		if checkCall != nil && markCall != nil {
			ca, ma := callArgs(&checkCall.Call), callArgs(&markCall.Call)
			if len(ca) == 2 && len(ma) == 2 {
				cv, mv := p.Deref(ca[1], last), p.Deref(ma[1], last)
				if cv != mv {
					fs.add("same-counter", "the counter that is marked is not the value that was checked", markCall, p)
				}
				if call, _ := fromCall(cv); call == nil || calleeID(call) != readCounterID {
					// parsed in place: any value computed from bytes of the packet parameter
					if !derivesFromParamBytes(fn, cv, 2, 0) {
						fs.add("same-counter", "the checked counter is not a value parsed from the packet (readCounter, or bytes of the packet parameter)", checkCall, p)
					}
				}
			}
		}
		want := []string{"check", "open", "mark"}
		if len(order) == 3 {
			for i := range want {
				if order[i] != want[i] {
					fs.add("order", fmt.Sprintf("replay check, open and mark happen in the order %v (required: check, open, mark)", order), p.Exit(), p)
				}
			}
		}
	})
	if ok {
		fs.report(c, rule, name, keys, P.Pos(fn.Pos()), fmt.Sprintf("holds on all %d success paths", succ))
		c.Floor(rule, "success paths of readPacketLocked", succ, 1)
	}
	return true
}

func c03R1Rest(c *Ctx) {
	P := c.P
	fn := P.Func("transport", "(*SessionState).readPacketLocked")
	fWindow := P.Field("transport", "SessionState", "window")
	checkID := hopID("transport", "SlidingWindow", "Check")
	markID := hopID("transport", "SlidingWindow", "Mark")

	// the replay window has no other user
	nUse := 0
	for _, f := range P.ModuleFuncs("transport") {
		eachInstr(f, func(ins ssa.Instruction) {
			fa, ok := ins.(*ssa.FieldAddr)
			if !ok || fieldOf(fa.X.Type(), fa.Field) != fWindow {
				return
			}
			for _, r := range *fa.Referrers() {
				nUse++
				cons := "window-use@" + FuncName(f)
				call, isCall := r.(*ssa.Call)
				if isCall && (calleeID(call) == checkID || calleeID(call) == markID) && f == fn {
					c.OK("C03.R1", cons+"#"+calleeFunc(&call.Call).Name(), P.InstrPos(r), "Check/Mark in readPacketLocked")
					continue
				}
				if windowLoadForCheck(r, checkID) && f == fn {
					c.OK("C03.R1", cons+"#Check", P.InstrPos(r), "Check (value receiver) in readPacketLocked")
					continue
				}
				c.Fail("C03.R1", cons, P.InstrPos(r), "the session's replay window is read, copied or written outside window.Check/Mark in readPacketLocked (replay state could be rolled back or bypassed)")
			}
		})
	}
	c.Floor("C03.R1", "uses of SessionState.window", nUse, 2)

	// handlers: every action after authentication
	closeLockedID := hopID("transport", "SessionState", "closeLocked")
	ctrlID := hopID("transport", "SessionState", "handleControlLocked")
	allHandlers := sessionMsgHandlers(c, "C03.R1")
	for _, h := range allHandlers {
		hn := FuncName(h)
		c.Analysed(hn)
		rp := readPacketCall(h)
		if rp == nil {
			c.Fail("C03.R1", hn+"#post-auth", P.Pos(h.Pos()), "handleSessionMessage no longer calls readPacketLocked")
			continue
		}
		ev := errResultOf(rp)
		mf := ComputeMustFacts(h)
		n := 0
		nInHelper := 0
		bad := false
		eachInstr(h, func(ins ssa.Instruction) {
			act := ""
			switch x := ins.(type) {
			case *ssa.Select:
				for _, st := range x.States {
					if st.Dir == types.SendOnly {
						act = "delivery to the receive queue"
					}
				}
			case *ssa.Send:
				act = "delivery to the receive queue"
			case *ssa.Call:
				switch calleeID(x) {
				case closeLockedID:
					act = "closeLocked"
				case ctrlID:
					act = "handleControlLocked"
				default:
					// a helper of the package that hands the plaintext to the receive queue, closes or handles control
					if g := staticCallee(&x.Call); g != nil && g.Pkg == h.Pkg && len(g.Blocks) > 0 {
						eachInstr(g, func(gi ssa.Instruction) {
							switch y := gi.(type) {
							case *ssa.Call:
								if id := calleeID(y); id == closeLockedID && handlerHelper(P, g, allHandlers) {
									act = "closeLocked (in " + g.Name() + ")"
									nInHelper++
								} else if id == ctrlID && handlerHelper(P, g, allHandlers) {
									act = "handleControlLocked (in " + g.Name() + ")"
									nInHelper++
								}
							case *ssa.Send:
								nInHelper++
								act = "delivery to the receive queue (in " + g.Name() + ")"
							case *ssa.Select:
								for _, st := range y.States {
									if st.Dir == types.SendOnly {
										nInHelper++
										act = "delivery to the receive queue (in " + g.Name() + ")"
									}
								}
							}
						})
					}
				}
			}
			if act == "" {
				return
			}
			n++
			if ev == nil || !dominatesInstr(rp, ins) || mf.NilAt(ins, ev) != isNil {
				bad = true
				c.Fail("C03.R1", hn+"#post-auth", P.InstrPos(ins), act+" is reachable without readPacketLocked having returned a nil error (an unauthenticated datagram could deliver data or close the session)")
			}
		})
		if !bad {
			c.OK("C03.R1", hn+"#post-auth", P.InstrPos(rp), fmt.Sprintf("%d delivery/control/close sites dominated by the nil edge of readPacketLocked", n))
		}
		if nInHelper > 1 {
			n += nInHelper - 1 // several actions behind one call of a shared helper
		}
		c.Floor("C03.R1", "delivery/control/close sites in "+hn, n, 3)
		// the packet that is opened is the datagram received, under the session's read key
		{
			fReadKey := P.Field("transport", "SessionState", "readKey")
			// the datagram: a []byte argument that is a parameter of the handler; the key: an argument
			// that is ss.readKey, or readPacketLocked reads ss.readKey itself
			msgOK, keyOK := false, false
			for _, a := range rp.Call.Args {
				if isByteSlice(a.Type()) && paramIndex(h, a) >= 0 {
					msgOK = true
				}
				if endsInField(a, fReadKey, false) {
					keyOK = true
				}
			}
			if !keyOK {
				if rdf := staticCallee(&rp.Call); rdf != nil {
					if k, ok := sessionKeyIn(P, rdf).(*ssa.UnOp); ok && endsInField(k, fReadKey, false) {
						keyOK = true
					}
				}
			}
			c.Check(msgOK && keyOK, "C03.R2", hn+"#open-args", P.InstrPos(rp), "opens the received datagram under ss.readKey",
				"readPacketLocked is not given the received datagram and the session's readKey")
		}
	}
	// who may call closeLocked
	allowed := map[string]bool{
		"transport.(*Server).handleSessionMessage":      true,
		"transport.(*Client).handleSessionMessage":      true,
		"transport.(*SessionState).handleControlLocked": true,
		"transport.(*Handle).Close":                     true,
		"transport.(*Server).finishHandshake":           true,
	}
	ncl := 0
	for _, f := range P.ModuleFuncs() {
		for _, cs := range callSitesIn(f, false, closeLockedID) {
			ncl++
			okCaller := allowed[FuncName(f)]
			if !okCaller {
				for _, h := range allHandlers {
					if f == h || handlerHelper(P, f, allHandlers) {
						okCaller = true // the handler's body, or a helper only the handlers call (judged at its call sites above)
					}
				}
			}
			c.Check(okCaller, "C03.R1", "call:closeLocked@"+FuncName(f), P.InstrPos(cs), "authenticated or local close",
				"closeLocked gained a caller outside the authenticated message path / local Close")
		}
	}
	c.Floor("C03.R1", "call sites of closeLocked", ncl, 5)
}

func c03R2R5(c *Ctx) {
	P := c.P
	adLen := pkgConst(P, "transport", "AssociatedDataLen")
	hdr, sid, ctr := pkgConst(P, "transport", "HeaderLen"), pkgConst(P, "transport", "SessionIDLen"), pkgConst(P, "transport", "CounterLen")
	c.Check(adLen == hdr+sid+ctr && adLen > 0, "C03.R2", "const:AssociatedDataLen", "-", fmt.Sprintf("AssociatedDataLen=%d = HeaderLen+SessionIDLen+CounterLen", adLen),
		fmt.Sprintf("AssociatedDataLen (%d) != HeaderLen+SessionIDLen+CounterLen (%d+%d+%d): the header, session id or counter would not be authenticated", adLen, hdr, sid, ctr))

	// reader: Open(dst, nil, enc, pkt[:AssociatedDataLen])
	rd := P.Func("transport", "(*SessionState).readPacketLocked")
	if rd != nil {
		for _, cs := range callSitesIn(rd, false, aeadOpenID) {
			call := cs.(*ssa.Call)
			args := call.Call.Args
			okAD := false
			if len(args) == 4 {
				if sl, ok := strip(args[3]).(*ssa.Slice); ok && paramIndex(rd, sl.X) == 2 {
					lo := int64(0)
					if sl.Low != nil {
						lo, _ = constInt(sl.Low)
					}
					if hi, isC := constInt(sl.High); isC && lo == 0 && hi == adLen {
						okAD = true
					}
				}
			}
			c.Check(okAD, "C03.R2", FuncName(rd)+"#ad", P.InstrPos(call), "AD = pkt[:AssociatedDataLen]", "the associated data given to Open is not the packet prefix pkt[:AssociatedDataLen] (header, session id or counter would not be authenticated)")
			// key parameter
			okKey := false
			for _, ns := range callSitesIn(rd, false, hopID("kravatte", "", "NewSANSE")) {
				if nc, ok := ns.(*ssa.Call); ok && len(nc.Call.Args) == 1 {
					root, _ := accessPath(nc.Call.Args[0])
					if k := sessionKeyIn(P, rd); k != nil && (lookThrough(root) == lookThrough(k) || root == k) {
						okKey = true
					}
					if fRK := P.Field("transport", "SessionState", "readKey"); fRK != nil && endsInField(nc.Call.Args[0], fRK, true) {
						okKey = true
					}
				}
			}
			c.Check(okKey, "C03.R2", FuncName(rd)+"#key", P.InstrPos(call), "AEAD keyed with the session read key (parameter or ss.readKey)", "the AEAD is not keyed with readPacketLocked's key (its key parameter, or ss.readKey)")
			fresh := false
			if nc, _ := fromCall(call.Call.Value); nc != nil && calleeID(nc) == hopID("kravatte", "", "NewSANSE") {
				fresh = true
			}
			c.Check(fresh, "C03.R2", FuncName(rd)+"#fresh-aead", P.InstrPos(call), "a fresh SANSE instance per packet", "the AEAD instance that opens a packet is not created for that packet (kravatte SANSE is a stateful session mode: a cached instance absorbs every failed or missing datagram, so one forged, lost or reordered datagram makes all later genuine packets fail)")
		}
		// counter bytes inside the AD: readCounter(b) with b = pkt[HeaderLen+SessionIDLen:]
		for _, cs := range callSitesIn(rd, false, hopID("transport", "SessionState", "readCounter")) {
			call := cs.(*ssa.Call)
			off, rootIsPkt := constOffset(rd, call.Call.Args[1], 2)
			c.Check(rootIsPkt && off >= 0 && off+ctr <= adLen && off == hdr+sid, "C03.R2", FuncName(rd)+"#counter-in-ad", P.InstrPos(call),
				fmt.Sprintf("counter parsed from pkt[%d:%d), inside the AD", off, off+ctr),
				"the counter handed to the replay window is not parsed from the authenticated prefix of the packet")
		}
	}
	// writer
	wr := P.Func("transport", "(*SessionState).sealPacketLocked")
	fRaw := P.Field("transport", "SessionState", "rawWrite")
	fSess := P.Field("transport", "SessionState", "sessionID")
	if wr == nil || fRaw == nil {
		c.Undecided("C03.R2", "transport.(*SessionState).sealPacketLocked", "function not found")
		return
	}
	c.Analysed(FuncName(wr))
	var seal *ssa.Call
	for _, cs := range callSitesIn(wr, false, aeadSealID) {
		seal = cs.(*ssa.Call)
	}
	if seal == nil {
		c.Fail("C03.R2", FuncName(wr)+"#ad", P.Pos(wr.Pos()), "sealPacketLocked no longer seals with an AEAD")
		return
	}
	args := seal.Call.Args // dst, nonce, plaintext, ad
	okAD := false
	if len(args) == 4 {
		if sl, ok := strip(args[3]).(*ssa.Slice); ok {
			if hi, isC := constInt(sl.High); isC && hi == adLen && sl.Low == nil {
				if bc, _ := fromCall(sl.X); bc != nil && calleeID(bc) == "(bytes.Buffer).Bytes" && hasField(bc.Call.Args[0], fRaw) {
					okAD = true
				}
			}
		}
	}
	c.Check(okAD, "C03.R2", FuncName(wr)+"#ad", P.InstrPos(seal), "AD = rawWrite.Bytes()[:AssociatedDataLen]", "the associated data given to Seal is not the first AssociatedDataLen bytes of the packet being built")
	{
		fresh := false
		if nc, _ := fromCall(seal.Call.Value); nc != nil && calleeID(nc) == hopID("kravatte", "", "NewSANSE") {
			fresh = true
			root, _ := accessPath(nc.Call.Args[0])
			kW := sessionKeyIn(P, wr)
			fWK := P.Field("transport", "SessionState", "writeKey")
			c.Check((kW != nil && (lookThrough(root) == lookThrough(kW) || root == kW)) || (fWK != nil && endsInField(nc.Call.Args[0], fWK, true)), "C03.R2", FuncName(wr)+"#key", P.InstrPos(seal), "AEAD keyed with the key parameter", "the sealing AEAD is not keyed with sealPacketLocked's key parameter")
		}
		c.Check(fresh, "C03.R2", FuncName(wr)+"#fresh-aead", P.InstrPos(seal), "a fresh SANSE instance per packet", "the AEAD instance that seals a packet is not created for that packet (SANSE is a stateful session mode; sender and receiver would have to see identical datagram histories forever)")
	}
	// R5: plaintext parameter flows only into Seal (and len)
	inParam := wr.Params[2]
	leak := ""
	for _, r := range *inParam.Referrers() {
		switch x := r.(type) {
		case *ssa.Call:
			if x == seal && len(args) == 4 && args[2] == ssa.Value(inParam) {
				continue
			}
			if b, ok := x.Call.Value.(*ssa.Builtin); ok && b.Name() == "len" {
				continue
			}
			leak = P.InstrPos(x)
		case *ssa.DebugRef:
		default:
			leak = P.InstrPos(r)
		}
	}
	c.Check(leak == "", "C03.R5", FuncName(wr)+"#plaintext-flow", P.Pos(wr.Pos()), "plaintext parameter used only by len() and Seal", "the plaintext parameter of sealPacketLocked flows somewhere other than AEAD Seal (at "+leak+"): application data could reach the wire unencrypted")
	// R5: what is written to rawWrite
	var sealDst ssa.Value
	if sl, ok := strip(args[0]).(*ssa.Slice); ok {
		sealDst = sl.X
	}
	nW := 0
	P.eachOwnedInstr(wr, func(_ *ssa.Function, ins ssa.Instruction, tr func(ssa.Value) ssa.Value) {
		call, ok := ins.(*ssa.Call)
		if !ok || len(call.Call.Args) < 1 || !hasField(call.Call.Args[0], fRaw) {
			return
		}
		switch calleeID(call) {
		case "(bytes.Buffer).Write":
			nW++
			a := call.Call.Args[1]
			okw := hasField(a, fSess) || (sealDst != nil && strip(a) == sealDst)
			c.Check(okw, "C03.R5", FuncName(wr)+"#packet-bytes", P.InstrPos(call), "session id / Seal output", "bytes other than the session id or the AEAD output buffer are written into the packet")
		case "(bytes.Buffer).WriteByte":
			nW++
			a := strip(call.Call.Args[1])
			_, isC := a.(*ssa.Const)
			if cv, ok := a.(*ssa.Convert); ok && paramIndex(wr, tr(cv.X)) == 1 {
				isC = true // byte(msgType)
			}
			if paramIndex(wr, tr(a)) == 1 {
				isC = true
			}
			// a byte of the send counter (the counter written by hand instead of through writeCounter)
			if cv, ok := a.(*ssa.Convert); ok {
				x := cv.X
				if sh, ok := x.(*ssa.BinOp); ok && sh.Op == token.SHR {
					x = sh.X
				}
				if fCnt := P.Field("transport", "SessionState", "count"); fCnt != nil && endsInField(x, fCnt, false) {
					isC = true
				}
			}
			c.Check(isC, "C03.R5", FuncName(wr)+"#packet-bytes", P.InstrPos(call), "header constant, message type or counter byte", "a byte that is neither a constant, the message type nor part of the send counter is written into the packet header")
		case "(bytes.Buffer).WriteString", "(bytes.Buffer).ReadFrom", "(bytes.Buffer).WriteRune":
			nW++
			c.Fail("C03.R5", FuncName(wr)+"#packet-bytes", P.InstrPos(call), "unexpected kind of write into the packet buffer")
		}
	})
	c.Floor("C03.R5", "writes into SessionState.rawWrite", nW, 5)
	// EncryptSNI: dst only receives duplex.Encrypt output
	if sni := P.Func("transport", "(*HandshakeState).EncryptSNI"); sni != nil {
		c.Analysed(FuncName(sni))
		dst := sni.Params[1]
		bad := ""
		n := 0
		for _, r := range *dst.Referrers() {
			if call, ok := r.(*ssa.Call); ok && duplexOp(call) == "Encrypt" && len(call.Call.Args) == 3 && call.Call.Args[1] == ssa.Value(dst) {
				n++
				continue
			}
			if _, ok := r.(*ssa.DebugRef); ok {
				continue
			}
			bad = P.InstrPos(r)
		}
		c.Check(bad == "" && n >= 1, "C03.R5", FuncName(sni)+"#dst", P.Pos(sni.Pos()), "dst written only by duplex.Encrypt", "EncryptSNI writes its destination other than through duplex.Encrypt (server name could reach the wire in clear) "+bad)
	}
}

// constOffset computes the constant offset of slice value v within parameter #param of fn
// (through chains of x[a:] / x[a:b] with constant a). ok=false if not rooted there.
func constOffset(fn *ssa.Function, v ssa.Value, param int) (int64, bool) {
	off := int64(0)
	for i := 0; i < 32; i++ {
		v = strip(v)
		if paramIndex(fn, v) == param {
			return off, true
		}
		sl, ok := v.(*ssa.Slice)
		if !ok {
			return -1, false
		}
		if sl.Low != nil {
			lo, isC := constInt(sl.Low)
			if !isC {
				return -1, false
			}
			off += lo
		}
		v = sl.X
	}
	return -1, false
}

func c03R3(c *Ctx) {
	P := c.P
	wr := P.Func("transport", "(*SessionState).sealPacketLocked")
	fCount := P.Field("transport", "SessionState", "count")
	if wr == nil || fCount == nil {
		c.Undecided("C03.R3", "transport.(*SessionState).sealPacketLocked", "function or field not found")
		return
	}
	name := FuncName(wr)
	ws := P.HoistWrites(P.FieldWrites(fCount), func(fn *ssa.Function) bool { return fn == wr })
	for _, w := range ws {
		c.Check(w.Fn == wr, "C03.R3", "write:SessionState.count@"+FuncName(w.Fn), P.InstrPos(w.Instr), "counter advanced by the sealer", "the send counter is written outside sealPacketLocked (a counter could be reused under the same key)")
	}
	c.Floor("C03.R3", "writers of SessionState.count", len(ws), 1)
	fs := newFailSet()
	succ := 0
	ok := walkAll(c, "C03.R3", wr, func(p *Path) {
		sealed := false
		incs := 0
		p.ForEach(func(i int, ins ssa.Instruction) bool {
			if call, ok := ins.(*ssa.Call); ok && calleeID(call) == aeadSealID {
				sealed = true
			}
			if st, ok := ins.(*ssa.Store); ok && endsInField(st.Addr, fCount, false) {
				incs++
				if !sealed {
					fs.add("inc-after-seal", "the send counter is advanced before the packet was sealed", ins, p)
				}
				b, isAdd := st.Val.(*ssa.BinOp)
				one := false
				if isAdd && b.Op == token.ADD {
					if n, isC := constInt(b.Y); isC && n == 1 && endsInField(b.X, fCount, false) {
						one = true
					}
				}
				if !one {
					fs.add("inc-by-one", "the send counter is not advanced by exactly one", ins, p)
				}
			}
			return true
		})
		if isSuccess(p) {
			succ++
			if incs != 1 {
				fs.add("inc-once", fmt.Sprintf("a successful seal advances the send counter %d times (exactly once required: reuse or gaps)", incs), p.Exit(), p)
			}
			// returned packet must not alias the reused buffer
			if r := p.Returns(); r != nil && len(r.Results) == 2 {
				v := p.Deref(r.Results[0], len(p.Blocks)-1)
				fresh := false
				if call, ok := v.(*ssa.Call); ok {
					if b, ok := call.Call.Value.(*ssa.Builtin); ok && b.Name() == "append" && len(call.Call.Args) == 2 && (isNilConst(call.Call.Args[0]) || isFreshSlice(call.Call.Args[0])) {
						fresh = true
					}
				}
				if _, ok := v.(*ssa.MakeSlice); ok {
					fresh = true
				}
				if !fresh {
					fs.add("copy-out", "sealPacketLocked returns a slice that may alias the session's reused write buffer (the next seal would overwrite a packet still being sent after the lock is released)", p.Exit(), p)
				}
			}
		}
	})
	if ok {
		fs.report(c, "C03.R3", name, []string{"inc-after-seal", "inc-by-one", "inc-once", "copy-out"}, P.Pos(wr.Pos()), fmt.Sprintf("holds on all paths (%d success)", succ))
	}
	// only Handle.send calls it, under ss.m
	send := P.Func("transport", "(*Handle).send")
	n := 0
	for _, f := range P.ModuleFuncs() {
		for _, cs := range callSitesIn(f, false, hopID("transport", "SessionState", "sealPacketLocked")) {
			n++
			c.Check(f == send, "C03.R3", "call:sealPacketLocked@"+FuncName(f), P.InstrPos(cs), "sealed by Handle.send", "sealPacketLocked gained a caller other than Handle.send")
		}
	}
	c.Floor("C03.R3", "call sites of sealPacketLocked", n, 1)
	if send == nil {
		c.Undecided("C03.R3", "transport.(*Handle).send", "function not found")
		return
	}
	c.Analysed(FuncName(send))
	fM := P.Field("transport", "SessionState", "m")
	fs2 := newFailSet()
	ok = walkAll(c, "C03.R3", send, func(p *Path) {
		held := false
		p.ForEach(func(i int, ins ssa.Instruction) bool {
			call, ok := ins.(*ssa.Call)
			if !ok {
				return true
			}
			switch calleeID(call) {
			case "(sync.Mutex).Lock":
				if endsInField(call.Call.Args[0], fM, false) {
					held = true
				}
			case "(sync.Mutex).Unlock":
				if endsInField(call.Call.Args[0], fM, false) {
					held = false
				}
			case hopID("transport", "SessionState", "sealPacketLocked"):
				if !held {
					fs2.add("seal-under-lock", "sealPacketLocked (counter use and increment) runs without the session lock held", ins, p)
				}
			}
			return true
		})
	})
	if ok {
		fs2.report(c, "C03.R3", FuncName(send), []string{"seal-under-lock"}, P.Pos(send.Pos()), "sealed between ss.m.Lock and Unlock on every path")
	}
}

func isFreshSlice(v ssa.Value) bool {
	v = strip(v)
	if sl, ok := v.(*ssa.Slice); ok {
		v = strip(sl.X)
	}
	switch x := v.(type) {
	case *ssa.MakeSlice:
		return true
	case *ssa.Alloc:
		return true
	case *ssa.Const:
		return x.Value == nil
	}
	return false
}

// ---------------------------------------------------------------------------
// R4: the chunking loop of Handle.Write

func c03R4(c *Ctx) {
	P := c.P
	fn := P.Func("transport", "(*Handle).Write")
	if fn == nil {
		c.Undecided("C03.R4", "transport.(*Handle).Write", "function not found")
		return
	}
	// the chunk loop may have been cut out into a local helper of Write: the helper is then judged as the
	// chunk writer, and Write may report what the helper reports
	writeMsgID := hopID("transport", "Handle", "WriteMsg")
	hasLoopCall := func(f *ssa.Function) bool {
		for _, cs := range callSitesIn(f, false, writeMsgID) {
			if call, ok := cs.(*ssa.Call); ok && len(call.Call.Args) == 2 {
				if sl, ok := strip(call.Call.Args[1]).(*ssa.Slice); ok {
					if _, isPhi := sl.Low.(*ssa.Phi); isPhi {
						return true
					}
					if _, isPhi := strip(sl.X).(*ssa.Phi); isPhi {
						return true
					}
				}
			}
		}
		return false
	}
	var helper *ssa.Function
	if !hasLoopCall(fn) {
		eachInstr(fn, func(ins ssa.Instruction) {
			if call, ok := ins.(*ssa.Call); ok {
				if g := staticCallee(&call.Call); g != nil && g != fn && len(g.Blocks) > 0 && P.OwnedBy(g, fn) && hasLoopCall(g) {
					helper = g
				}
			}
		})
	}
	if helper != nil {
		c03R4Body(c, fn, helper)
		c03R4Body(c, helper, nil)
		return
	}
	c03R4Body(c, fn, nil)
}

// c03R4Body judges fn as the chunk writer; with helper != nil fn only delegates the loop to helper.
func c03R4Body(c *Ctx, fn *ssa.Function, helper *ssa.Function) {
	P := c.P
	name := FuncName(fn)
	c.Analysed(name)
	maxPT := pkgConst(P, "transport", "MaxPlaintextSize")
	writeMsgID := hopID("transport", "Handle", "WriteMsg")
	// find WriteMsg calls whose argument is a slice with a loop-carried lower bound
	type loopCall struct {
		call *ssa.Call
		sl   *ssa.Slice
	}
	var loops []loopCall
	nCalls := 0
	for _, cs := range callSitesIn(fn, false, writeMsgID) {
		call, ok := cs.(*ssa.Call)
		if !ok {
			continue
		}
		nCalls++
		if sl, ok := strip(call.Call.Args[1]).(*ssa.Slice); ok && sl.Low != nil {
			if _, isPhi := sl.Low.(*ssa.Phi); isPhi {
				loops = append(loops, loopCall{call, sl})
			}
		}
	}
	c.Floor("C03.R4", "WriteMsg calls in "+name, nCalls, 1)
	var peelChunks []*ssa.Slice // second recognised shape: for rest := b; len(rest) > 0; rest = rest[len(chunk):] { chunk := rest[:min(K, len(rest))] }
	if len(loops) == 0 && helper == nil {
		if !c03Peel(c, fn, name, maxPT, writeMsgID, &peelChunks) {
			c.Undecided("C03.R4", name+"#chunk-loop", "no chunk loop of a recognised shape found (counted: for i := i0; i < len(b); i += K { WriteMsg(b[i:end]) }; peeling: for rest := b; len(rest) > 0; rest = rest[len(chunk):] { WriteMsg(rest[:min(K, len(rest))]) }); other shapes are outside the recognised idioms")
			return
		}
	}
	for _, lc := range loops {
		cons := name + "#chunk-loop"
		site := P.InstrPos(lc.call)
		lo := lc.sl.Low.(*ssa.Phi)
		// init and step
		var initV, stepV ssa.Value
		for i, e := range lo.Edges {
			if b, ok := e.(*ssa.BinOp); ok && b.Op == token.ADD && (b.X == ssa.Value(lo) || b.Y == ssa.Value(lo)) {
				stepV = b.Y
				if b.Y == ssa.Value(lo) {
					stepV = b.X
				}
			} else {
				initV = e
			}
			_ = i
		}
		i0, i0ok := constInt(initV)
		step, stepok := constInt(stepV)
		if !i0ok || !stepok {
			c.Undecided("C03.R4", cons, "loop start or step is not a constant")
			continue
		}
		c.Check(i0 == 0, "C03.R4", cons+":start", site, "first chunk starts at offset 0",
			fmt.Sprintf("the chunk loop starts at offset %d, not 0: the first %d bytes of a large write are never sent", i0, i0))
		// width: hi = phi(lo+K, len(b)) / min(lo+K, len(b))
		width := int64(-1)
		boundedByLen := false
		var scanHi func(v ssa.Value, depth int)
		scanHi = func(v ssa.Value, depth int) {
			if depth > 4 || v == nil {
				return
			}
			switch x := v.(type) {
			case *ssa.Phi:
				for _, e := range x.Edges {
					scanHi(e, depth+1)
				}
			case *ssa.BinOp:
				if x.Op == token.ADD && (x.X == ssa.Value(lo) || x.Y == ssa.Value(lo)) {
					o := x.Y
					if x.Y == ssa.Value(lo) {
						o = x.X
					}
					if n, ok := constInt(o); ok {
						width = n
					}
				}
			case *ssa.Call:
				if b, ok := x.Call.Value.(*ssa.Builtin); ok {
					if b.Name() == "len" {
						boundedByLen = true
					}
					if b.Name() == "min" {
						for _, a := range x.Call.Args {
							scanHi(a, depth+1)
						}
					}
				}
			}
		}
		scanHi(lc.sl.High, 0)
		c.Check(width == step, "C03.R4", cons+":step", site, fmt.Sprintf("step %d = chunk width", step),
			fmt.Sprintf("the chunk loop advances by %d but each chunk is %d bytes wide: bytes are skipped or sent twice", step, width))
		c.Check(width > 0 && width <= maxPT, "C03.R4", cons+":width", site, "chunk width <= MaxPlaintextSize",
			fmt.Sprintf("chunk width %d exceeds MaxPlaintextSize %d (WriteMsg would refuse every full chunk)", width, maxPT))
		c.Check(boundedByLen, "C03.R4", cons+":bound", site, "last chunk bounded by len(b)", "the end of a chunk is not bounded by len(b)")
	}
	// error and count discipline on all paths
	fs := newFailSet()
	ok := walkAll(c, "C03.R4", fn, func(p *Path) {
		if !isSuccess(p) {
			return
		}
		for _, sc := range swallowedErrors(p, nil) {
			fs.add("errors", "Write returns a nil error although "+describeCall(P, sc)+" may have failed", p.Exit(), p)
		}
		// reported count: len(b), or the loop accumulator of (hi - lo)
		r := p.Returns()
		if r == nil || len(r.Results) != 2 {
			return
		}
		v := r.Results[0]
		okCount := false
		if call, ok := strip(v).(*ssa.Call); ok {
			if b, ok := call.Call.Value.(*ssa.Builtin); ok && b.Name() == "len" {
				okCount = true
			}
		}
		if helper != nil {
			// what the chunk-writing helper reported
			if ex, ok := strip(v).(*ssa.Extract); ok && ex.Index == 0 {
				if call, ok := ex.Tuple.(*ssa.Call); ok && staticCallee(&call.Call) == helper {
					okCount = true
				}
			}
		}
		if phi, ok := v.(*ssa.Phi); ok {
			okAcc := false
			zeroInit := false
			for _, e := range phi.Edges {
				if n, isC := constInt(e); isC && n == 0 {
					zeroInit = true
				}
				if b, ok := e.(*ssa.BinOp); ok && b.Op == token.ADD && (b.X == ssa.Value(phi) || b.Y == ssa.Value(phi)) {
					d := b.Y
					if b.Y == ssa.Value(phi) {
						d = b.X
					}
					if sub, ok := d.(*ssa.BinOp); ok && sub.Op == token.SUB {
						for _, lc := range loops {
							if sub.X == lc.sl.High && sub.Y == lc.sl.Low {
								okAcc = true
							}
						}
					}
					if lc, ok := strip(d).(*ssa.Call); ok {
						if b, isB := lc.Call.Value.(*ssa.Builtin); isB && b.Name() == "len" {
							for _, ch := range peelChunks {
								if strip(lc.Call.Args[0]) == ssa.Value(ch) {
									okAcc = true
								}
							}
						}
					}
					for _, ch := range peelChunks {
						if ch.High != nil && d == ch.High {
							okAcc = true
						}
					}
				}
			}
			okCount = okAcc && zeroInit
		}
		if !okCount {
			fs.add("count", "the byte count Write reports on success is neither len(b) nor the sum of the chunk lengths actually sent", p.Exit(), p)
		}
	})
	if ok {
		fs.report(c, "C03.R4", name, []string{"errors", "count"}, P.Pos(fn.Pos()), "errors propagated; count = bytes sent")
	}
}

// ---------------------------------------------------------------------------
// C15

func checkC15(c *Ctx) {
	P := c.P
	c.Rule("C15.R1", "who writes the address: SessionState.remoteAddr is stored only at session construction (cookie-bound ClientAck address / dial address) and at the tail of the two handleSessionMessage functions (E4 who-may-write)")
	c.Rule("C15.R2", "only after authentication and the replay filter: the two tail stores are dominated by the nil edge of readPacketLocked for the very datagram whose source address is stored; the replay window has no other writer (E1 dominance; C03.R1 gives Check and Open)")
	c.Rule("C15.R3", "and then it is used: Handle.send reads ss.remoteAddr under ss.m after sealing and passes that value as the destination of the only session datagram write (E1)")
	c.Decides("placement of every address update after authentication + replay check; use of the stored address by the sender")
	c.NotDecided("end-to-end roaming behaviour over histories; correctness of the replay filter itself (C14)")

	fAddr := P.Field("transport", "SessionState", "remoteAddr")
	c15R4(c)
	if fAddr == nil {
		c.Undecided("C15.R1", "transport.SessionState.remoteAddr", "field not found")
		return
	}
	construct := map[string]bool{
		"transport.(*Server).createSessionFromHandshakeLocked": true,
		"transport.(*Client).clientHandshakeLocked":            true,
	}
	tail := map[string]bool{
		"transport.(*Server).handleSessionMessage": true,
		"transport.(*Client).handleSessionMessage": true,
	}
	c15Handlers := sessionMsgHandlers(c, "C15.R1")
	for _, h := range c15Handlers {
		tail[FuncName(h)] = true
	}
	raw := P.FieldWrites(fAddr)
	// a writer shared by the handlers only is re-expressed at each of its call sites
	var pre []FieldWrite
	for _, w := range raw {
		if handlerHelper(P, w.Fn, c15Handlers) {
			for _, e := range P.Callers(w.Fn) {
				call, ok := e.Site.(*ssa.Call)
				if !ok {
					continue
				}
				args := callArgs(&call.Call)
				tr := func(v ssa.Value) ssa.Value {
					if v == nil {
						return nil
					}
					if k := paramIndex(w.Fn, v); k >= 0 && k < len(args) {
						return args[k]
					}
					return v
				}
				pre = append(pre, FieldWrite{Fn: e.Caller.Func, Instr: call, Kind: w.Kind, Base: tr(w.Base), Val: tr(w.Val), Orig: w.Instr})
			}
			continue
		}
		pre = append(pre, w)
	}
	ws := P.HoistWrites(pre, func(fn *ssa.Function) bool { return construct[FuncName(fn)] || tail[FuncName(fn)] })
	for _, w := range ws {
		n := FuncName(w.Fn)
		cons := "write:SessionState.remoteAddr@" + n
		switch {
		case construct[n]:
			c.OK("C15.R1", cons, P.InstrPos(w.Instr), "construction")
		case tail[n]:
			c.OK("C15.R1", cons, P.InstrPos(w.Instr), "post-authentication update")
			rp := readPacketCall(w.Fn)
			okv := false
			if rp != nil {
				ev := errResultOf(rp)
				mf := ComputeMustFacts(w.Fn)
				if ev != nil && dominatesInstr(rp, w.Instr) && mf.NilAt(w.Instr, ev) == isNil {
					okv = true
				}
			}
			c.Check(okv, "C15.R2", cons+"#after-auth", P.InstrPos(w.Instr), "dominated by the nil edge of readPacketLocked",
				"the session's peer address is updated on a path where readPacketLocked did not return nil (a forged, corrupted or replayed datagram could redirect traffic)")
			// same datagram: the stored value is the handler's addr parameter, the opened packet its msg parameter
			same := w.Kind == "store" && w.Val != nil && paramIndex(w.Fn, w.Val) >= 0 && rp != nil
			if same {
				same = false
				for _, a := range rp.Call.Args {
					if isByteSlice(a.Type()) && paramIndex(w.Fn, a) >= 0 {
						same = true // the packet that was opened is the handler's datagram parameter
					}
				}
			}
			c.Check(same, "C15.R2", cons+"#same-datagram", P.InstrPos(w.Instr), "stores the source address of the datagram that was opened",
				"the stored address is not the source-address parameter of the datagram that readPacketLocked opened")
		default:
			c.Fail("C15.R1", cons, P.InstrPos(w.Instr), "the session's peer address gained a writer outside session construction and the post-authentication tail of handleSessionMessage")
		}
	}
	c.Floor("C15.R1", "writers of SessionState.remoteAddr", len(ws), 4)

	// replay window untouched elsewhere (shared with C03.R1)
	fWindow := P.Field("transport", "SessionState", "window")
	rd := P.Func("transport", "(*SessionState).readPacketLocked")
	if fWindow != nil && rd != nil {
		bad := 0
		for _, f := range P.ModuleFuncs("transport") {
			eachInstr(f, func(ins ssa.Instruction) {
				fa, ok := ins.(*ssa.FieldAddr)
				if !ok || fieldOf(fa.X.Type(), fa.Field) != fWindow {
					return
				}
				for _, r := range *fa.Referrers() {
					call, isCall := r.(*ssa.Call)
					if isCall && f == rd && (calleeID(call) == hopID("transport", "SlidingWindow", "Check") || calleeID(call) == hopID("transport", "SlidingWindow", "Mark")) {
						continue
					}
					if f == rd && windowLoadForCheck(r, hopID("transport", "SlidingWindow", "Check")) {
						continue
					}
					bad++
					c.Fail("C15.R2", "window-use@"+FuncName(f), P.InstrPos(r), "the replay window is read, copied or written outside Check/Mark in readPacketLocked: a replayed packet could pass the filter again and move the address")
				}
			})
		}
		if bad == 0 {
			c.OK("C15.R2", "window-use", P.Pos(rd.Pos()), "replay window touched only by Check/Mark in readPacketLocked")
		}
	}

	// R3: the sender
	send := P.Func("transport", "(*Handle).send")
	fM := P.Field("transport", "SessionState", "m")
	if send == nil || fM == nil {
		c.Undecided("C15.R3", "transport.(*Handle).send", "function not found")
		return
	}
	c.Analysed(FuncName(send))
	fs := newFailSet()
	nw := 0
	ok := walkAll(c, "C15.R3", send, func(p *Path) {
		held := false
		epoch, captureEpoch, sealEpoch := 0, -1, -2
		var addrLoad ssa.Value
		var captureIns ssa.Instruction
		p.ForEach(func(i int, ins ssa.Instruction) bool {
			if u, ok := ins.(*ssa.UnOp); ok && u.Op == token.MUL && endsInField(u, fAddr, false) {
				if _, isFA := u.X.(*ssa.FieldAddr); isFA {
					if !held {
						fs.add("under-lock", "ss.remoteAddr is read without the session lock", ins, p)
					}
					captureEpoch, captureIns = epoch, ins
					addrLoad = u
				}
			}
			call, ok := ins.(*ssa.Call)
			if !ok {
				return true
			}
			switch calleeID(call) {
			case "(sync.Mutex).Lock":
				if endsInField(call.Call.Args[0], fM, false) {
					held = true
					epoch++
				}
			case "(sync.Mutex).Unlock":
				if endsInField(call.Call.Args[0], fM, false) {
					held = false
				}
			case hopID("transport", "SessionState", "sealPacketLocked"):
				sealEpoch = epoch
			case hopID("transport", "UDPLike", "WriteMsgUDP"):
				nw++
				// the address that is used was read in the critical section that sealed the packet
				// (within it the order does not matter: nobody else can move the address)
				if captureIns != nil && captureEpoch != sealEpoch {
					fs.add("after-seal", "the destination address is not captured in the critical section that seals the packet (an address update between the two would be missed, or the packet sealed for one peer address goes to another)", captureIns, p)
				}
				if len(call.Call.Args) != 3 || addrLoad == nil || p.Deref(call.Call.Args[2], i) != addrLoad {
					fs.add("destination", "the session datagram is not sent to the address read from ss.remoteAddr", ins, p)
				}
			}
			return true
		})
	})
	if ok {
		fs.report(c, "C15.R3", FuncName(send), []string{"under-lock", "after-seal", "destination"}, P.Pos(send.Pos()), "destination = ss.remoteAddr captured under the lock, in the critical section that seals")
		c.Floor("C15.R3", "WriteMsgUDP sites on paths of Handle.send", nw, 1)
	}
	// no other session datagram writer in transport besides Handle.send, Server.writePacket (handshake), client handshake
	allowedW := map[string]bool{
		"transport.(*Handle).send": true, "transport.(*Server).writePacket": true,
		"transport.(*Client).beginPQDiscoverableHandshake": true, "transport.(*Client).beginPQHiddenHandshake": true,
		"transport.(*Client).beginDiscoverableHandshake": true, "transport.(*Client).beginHiddenHandshake": true,
	}
	for _, f := range P.ModuleFuncs("transport") {
		for _, cs := range callSitesIn(f, false, hopID("transport", "UDPLike", "WriteMsgUDP")) {
			c.Check(allowedW[FuncName(f)], "C15.R3", "call:WriteMsgUDP@"+FuncName(f), P.InstrPos(cs), "known datagram writer", "a new datagram write site in transport bypasses Handle.send's use of ss.remoteAddr")
		}
	}
}

// windowLoadForCheck: r loads the window by value only to call the (value-receiver) Check on it.
func windowLoadForCheck(r ssa.Instruction, checkID string) bool {
	u, ok := r.(*ssa.UnOp)
	if !ok || u.Op != token.MUL {
		return false
	}
	refs := *u.Referrers()
	if len(refs) == 0 {
		return false
	}
	for _, rr := range refs {
		call, ok := rr.(*ssa.Call)
		if !ok || calleeID(call) != checkID || call.Call.Args[0] != ssa.Value(u) {
			return false
		}
	}
	return true
}

// c03Peel recognises the slice-peeling form of the chunk loop and checks the same four
// conditions on it: starts with the whole buffer, advances by exactly the chunk sent,
// chunk width <= MaxPlaintextSize, last chunk bounded by what is left.
func c03Peel(c *Ctx, fn *ssa.Function, name string, maxPT int64, writeMsgID string, chunks *[]*ssa.Slice) bool {
	P := c.P
	found := false
	for _, cs := range callSitesIn(fn, false, writeMsgID) {
		call, ok := cs.(*ssa.Call)
		if !ok {
			continue
		}
		chunk, ok := strip(call.Call.Args[1]).(*ssa.Slice)
		if !ok || chunk.Low != nil || chunk.High == nil {
			continue
		}
		rest, ok := chunk.X.(*ssa.Phi)
		if !ok {
			continue
		}
		found = true
		*chunks = append(*chunks, chunk)
		cons := name + "#chunk-loop"
		site := P.InstrPos(call)
		// width and bound: High = min(K, len(rest))
		width := int64(-1)
		bounded := false
		if mc, ok := chunk.High.(*ssa.Call); ok {
			if b, isB := mc.Call.Value.(*ssa.Builtin); isB && b.Name() == "min" {
				for _, a := range mc.Call.Args {
					if n, isC := constInt(a); isC {
						width = n
					}
					if lc, ok := strip(a).(*ssa.Call); ok {
						if lb, isB := lc.Call.Value.(*ssa.Builtin); isB && lb.Name() == "len" && strip(lc.Call.Args[0]) == ssa.Value(rest) {
							bounded = true
						}
					}
				}
			}
		}
		// init and step of rest
		startOK, stepOK := false, false
		for _, e := range rest.Edges {
			if sl, ok := strip(e).(*ssa.Slice); ok && sl.X == ssa.Value(rest) {
				// rest = rest[len(chunk):] (or rest[h:] with the same h)
				if sl.High == nil && sl.Low != nil {
					if sl.Low == chunk.High {
						stepOK = true
					}
					if lc, ok := strip(sl.Low).(*ssa.Call); ok {
						if lb, isB := lc.Call.Value.(*ssa.Builtin); isB && lb.Name() == "len" && strip(lc.Call.Args[0]) == ssa.Value(chunk) {
							stepOK = true
						}
					}
				}
				continue
			}
			// the initial value: the whole buffer (a parameter, or a full copy / conversion of one), not a sub-slice
			root, sels := accessPath(e)
			whole := true
			for _, sl := range sels {
				if sl.Index != "" {
					whole = false
				}
			}
			if _, isSlice := strip(e).(*ssa.Slice); isSlice {
				whole = false
			}
			_ = root
			startOK = whole
		}
		c.Check(startOK, "C03.R4", cons+":start", site, "first chunk starts at offset 0", "the peeling loop does not start with the whole buffer: its first bytes are never sent")
		c.Check(stepOK, "C03.R4", cons+":step", site, "advances by exactly the chunk sent", "the peeling loop does not advance by exactly the chunk it sent: bytes are skipped or sent twice")
		c.Check(width > 0 && width <= maxPT, "C03.R4", cons+":width", site, "chunk width <= MaxPlaintextSize",
			fmt.Sprintf("chunk width %d exceeds MaxPlaintextSize %d (WriteMsg would refuse every full chunk)", width, maxPT))
		c.Check(bounded, "C03.R4", cons+":bound", site, "last chunk bounded by what is left", "the end of a chunk is not bounded by the length of what is left")
	}
	return found
}

// derivesFromParamBytes: v is computed (shifts, ors, conversions, binary accessors, phis) from
// bytes of fn's parameter number k or of a re-slice of it.
func derivesFromParamBytes(fn *ssa.Function, v ssa.Value, k, depth int) bool {
	if v == nil || depth > 12 {
		return false
	}
	switch x := strip(v).(type) {
	case *ssa.BinOp:
		return derivesFromParamBytes(fn, x.X, k, depth+1) || derivesFromParamBytes(fn, x.Y, k, depth+1)
	case *ssa.Convert:
		return derivesFromParamBytes(fn, x.X, k, depth+1)
	case *ssa.Phi:
		for _, e := range x.Edges {
			if derivesFromParamBytes(fn, e, k, depth+1) {
				return true
			}
		}
	case *ssa.UnOp:
		if x.Op == token.MUL {
			if ia, ok := x.X.(*ssa.IndexAddr); ok {
				root, _ := accessPath(ia.X)
				return paramIndex(fn, root) == k || sliceRootParam(fn, ia.X, k, 0)
			}
		}
	case *ssa.Call:
		for _, a := range callArgs(&x.Call) {
			if isByteSlice(a.Type()) {
				root, _ := accessPath(a)
				if paramIndex(fn, root) == k || sliceRootParam(fn, a, k, 0) {
					return true
				}
			}
		}
	}
	return false
}

// sliceRootParam: v is fn's parameter k, a slice of it, or a phi / local of such.
func sliceRootParam(fn *ssa.Function, v ssa.Value, k, depth int) bool {
	if v == nil || depth > 8 {
		return false
	}
	v = strip(v)
	if paramIndex(fn, v) == k {
		return true
	}
	switch x := v.(type) {
	case *ssa.Slice:
		return sliceRootParam(fn, x.X, k, depth+1)
	case *ssa.Phi:
		for _, e := range x.Edges {
			if sliceRootParam(fn, e, k, depth+1) {
				return true
			}
		}
	}
	return false
}

// c15R4: "came from a new address" is an exact comparison. Both handlers move the peer address when
// EqualUDPAddress(stored, source) is false. If that helper calls two different addresses equal, an
// authentic packet from the new address is delivered but the session keeps sending to the old one. So
// EqualUDPAddress returns true only on paths where the two pointers are identical, or the ports and the
// zones were found equal and the IPs were found equal by net.IP.Equal, or by an equality test on
// injective images of both (To16, String, MarshalText — the C19 allow-list; To4 maps every IPv6 address
// to nil).
func c15R4(c *Ctx) {
	P := c.P
	const rule = "C15.R4"
	c.Rule(rule, "a new address is recognised as new: EqualUDPAddress returns true only where the pointers are identical, or port and zone were found equal and the IPs equal through net.IP.Equal or an equality test on injective images of both (To16 / String / MarshalText; not To4, which maps every IPv6 address to nil) — otherwise an authentic packet from a new address does not move the session (E1 decision table)")
	fn := P.Func("transport", "EqualUDPAddress")
	if fn == nil || len(fn.Params) != 2 {
		c.Undecided(rule, "transport.EqualUDPAddress", "function not found")
		return
	}
	name := FuncName(fn)
	c.Analysed(name)
	var curPath *Path
	fieldOfParam := func(v ssa.Value, field string) int {
		// v is a load of <param>.<field>: which parameter?
		u, ok := strip(v).(*ssa.UnOp)
		if !ok || u.Op != token.MUL {
			return -1
		}
		fa, ok := u.X.(*ssa.FieldAddr)
		if !ok {
			return -1
		}
		if f := fieldOf(fa.X.Type(), fa.Field); f == nil || f.Name() != field {
			return -1
		}
		if curPath != nil {
			return paramIndex(fn, curPath.Resolve(fa.X, len(curPath.Blocks)-1))
		}
		return paramIndex(fn, fa.X)
	}
	// image(v): v is <param>.IP, possibly through injective calls; returns param index, ok
	var image func(v ssa.Value, depth int) (int, bool)
	image = func(v ssa.Value, depth int) (int, bool) {
		if depth > 4 {
			return -1, false
		}
		if k := fieldOfParam(v, "IP"); k >= 0 {
			return k, true
		}
		switch x := strip(v).(type) {
		case *ssa.Call:
			if ipInjective[calleeID(x)] && len(x.Call.Args) >= 1 {
				return image(x.Call.Args[0], depth+1)
			}
			return -1, false
		case *ssa.Convert:
			return image(x.X, depth+1)
		case *ssa.ChangeType:
			return image(x.X, depth+1)
		}
		return -1, false
	}
	fs := newFailSet()
	trues := 0
	ok := walkAll(c, rule, fn, func(p *Path) {
		r := p.Returns()
		if r == nil || len(r.Results) != 1 {
			return
		}
		last := len(p.Blocks) - 1
		curPath = p
		if v, isC := pathBool(p, r.Results[0], last); isC && !v {
			return
		}
		trues++
		facts := map[atomKey]bool{}
		for k, v := range p.FactsAt(last) {
			facts[k] = v
		}
		// returning the value of a comparison: on a path that yields true, that comparison holds
		p.throughCalls = true
		rv := p.Resolve(r.Results[0], last)
		p.throughCalls = false
		if rv != nil {
			if _, isConst := rv.(*ssa.Const); !isConst {
				k, pol := normCond(rv)
				facts[k] = pol
			}
		}
		same, port, zone, ip := false, false, false, false
		for key, val := range facts {
			if key.op == token.EQL && key.y != nil && val {
				if kx, ky := paramIndex(fn, p.Resolve(key.x, last)), paramIndex(fn, p.Resolve(key.y, last)); kx >= 0 && ky >= 0 && kx != ky {
					same = true
				}
				for _, fld := range []string{"Port", "Zone"} {
					a, b := fieldOfParam(key.x, fld), fieldOfParam(key.y, fld)
					if a >= 0 && b >= 0 && a != b {
						if fld == "Port" {
							port = true
						} else {
							zone = true
						}
					}
				}
			}
			if key.op == token.ILLEGAL && val {
				if call, isCall := key.x.(*ssa.Call); isCall && calleeID(call) == "(net.IP).Equal" && len(call.Call.Args) == 2 {
					a, okA := image(call.Call.Args[0], 0)
					b, okB := image(call.Call.Args[1], 0)
					if okA && okB && a != b {
						ip = true
					}
				}
			}
		}
		for _, pr := range knownEqual(p, last) {
			a, okA := image(pr[0], 0)
			b, okB := image(pr[1], 0)
			if okA && okB && a != b {
				ip = true
			}
		}
		if !(same || (port && zone && ip)) {
			missing := ""
			if !port {
				missing += " port"
			}
			if !zone {
				missing += " zone"
			}
			if !ip {
				missing += " IP (net.IP.Equal or an injective image)"
			}
			fs.add("exact", "EqualUDPAddress can call two addresses equal without having found equal:"+missing+": an authentic packet from such a new address is delivered but the session keeps sending to the old one", p.Exit(), p)
		}
	})
	if ok {
		fs.report(c, rule, name, []string{"exact"}, P.Pos(fn.Pos()), fmt.Sprintf("holds on all %d paths that may return true", trues))
		c.Floor(rule, "paths of EqualUDPAddress that may return true", trues, 2)
	}
}
