package main

// E0 — loader and program model.
//
// Loads /repo's current working tree with go/packages (type-checked syntax for
// the whole import closure), builds go/ssa for everything and, lazily, the
// CHA+VTA call graph. Nothing from /repo is executed.

import (
	"fmt"
	"go/ast"
	"go/token"
	"go/types"
	"os"
	"path/filepath"
	"sort"
	"strings"
	"sync"

	"golang.org/x/tools/go/callgraph"
	"golang.org/x/tools/go/callgraph/cha"
	"golang.org/x/tools/go/callgraph/vta"
	"golang.org/x/tools/go/packages"
	"golang.org/x/tools/go/ssa"
	"golang.org/x/tools/go/ssa/ssautil"
)

const modPath = "hop.computer/hop"

// Program is the loaded, type-checked, SSA-built repository.
type Program struct {
	Repo    string
	Tags    string
	Fset    *token.FileSet
	Roots   []*packages.Package // packages of the module
	All     map[string]*packages.Package
	Prog    *ssa.Program
	SSAPkgs map[string]*ssa.Package // by import path

	cgOnce sync.Once
	cg     *callgraph.Graph
	chaCG  *callgraph.Graph

	allFuncs map[*ssa.Function]bool
	live     map[*ssa.Function]bool

	fileCache map[string]*ast.File

	idOnce sync.Once
	ids    map[string]bool
}

// Load loads repo with the given build tags (comma separated, may be empty).
// overlay maps absolute file names to replacement contents (in-memory mutants).
func Load(repo, tags string, overlay map[string][]byte) (*Program, error) {
	fset := token.NewFileSet()
	env := os.Environ()
	env = append(env, "GOFLAGS=-mod=mod", "GOPROXY=off", "GOWORK=off")
	// tags is a configuration name: "" (default), a build tag ("debug"), or a
	// comma-separated list of KEY=VALUE go environment settings ("GOARCH=arm64").
	var flags []string
	if strings.Contains(tags, "=") {
		for _, kv := range strings.Split(tags, ",") {
			if strings.HasPrefix(kv, "tags=") {
				flags = append(flags, "-tags="+strings.TrimPrefix(kv, "tags="))
			} else {
				env = append(env, kv)
			}
		}
	} else if tags != "" {
		flags = append(flags, "-tags="+tags)
	}
	cfg := &packages.Config{
		Mode:       packages.LoadAllSyntax,
		Dir:        repo,
		Fset:       fset,
		Env:        env,
		Tests:      false,
		BuildFlags: flags,
		Overlay:    overlay,
	}
	pkgs, err := packages.Load(cfg, "./...")
	if err != nil {
		return nil, fmt.Errorf("packages.Load: %w", err)
	}
	if len(pkgs) < 30 {
		return nil, fmt.Errorf("only %d root packages loaded (expected >= 30): incomplete build", len(pkgs))
	}
	var errs []string
	all := map[string]*packages.Package{}
	packages.Visit(pkgs, nil, func(p *packages.Package) {
		all[p.PkgPath] = p
		for _, e := range p.Errors {
			errs = append(errs, e.Error())
		}
	})
	if len(errs) > 0 {
		sort.Strings(errs)
		if len(errs) > 8 {
			errs = errs[:8]
		}
		return nil, fmt.Errorf("load/type errors: %s", strings.Join(errs, "; "))
	}
	prog, _ := ssautil.AllPackages(pkgs, ssa.InstantiateGenerics)
	prog.Build()
	p := &Program{Repo: repo, Tags: tags, Fset: fset, Roots: pkgs, All: all, Prog: prog,
		SSAPkgs: map[string]*ssa.Package{}, fileCache: map[string]*ast.File{}}
	for _, sp := range prog.AllPackages() {
		p.SSAPkgs[sp.Pkg.Path()] = sp
	}
	return p, nil
}

// CG returns the VTA call graph (seeded by CHA), built once.
func (p *Program) CG() *callgraph.Graph {
	p.cgOnce.Do(func() {
		p.allFuncs = ssautil.AllFunctions(p.Prog)
		p.chaCG = cha.CallGraph(p.Prog)
		p.cg = vta.CallGraph(p.allFuncs, p.chaCG)
	})
	return p.cg
}

// CHA returns the CHA call graph (over-approximation used as a cross-check).
func (p *Program) CHA() *callgraph.Graph {
	p.CG()
	return p.chaCG
}

// AllFuncs returns every function of the program (incl. anonymous, instantiations).
func (p *Program) AllFuncs() map[*ssa.Function]bool {
	p.CG()
	return p.allFuncs
}

// Pkg returns the SSA package hop.computer/hop/<rel>.
func (p *Program) Pkg(rel string) *ssa.Package {
	return p.SSAPkgs[modPath+"/"+rel]
}

// InModule reports whether fn belongs to the repository's module.
func InModule(fn *ssa.Function) bool {
	pk := funcPkgPath(fn)
	return pk == modPath || strings.HasPrefix(pk, modPath+"/")
}

func funcPkgPath(fn *ssa.Function) string {
	if fn == nil {
		return ""
	}
	if o := fn.Origin(); o != nil {
		fn = o
	}
	for fn.Parent() != nil {
		fn = fn.Parent()
	}
	if fn.Pkg != nil {
		return fn.Pkg.Pkg.Path()
	}
	if fn.Object() != nil && fn.Object().Pkg() != nil {
		return fn.Object().Pkg().Path()
	}
	return ""
}

// relPkg returns the package path of fn relative to the module ("transport").
func relPkg(fn *ssa.Function) string {
	pk := funcPkgPath(fn)
	return strings.TrimPrefix(strings.TrimPrefix(pk, modPath), "/")
}

// Func resolves "name" or "(*T).name" / "T.name" in module package rel.
// Anonymous functions are addressed as "outer$1".
func (p *Program) Func(rel, name string) *ssa.Function {
	if fn := p.funcExact(rel, name); fn != nil {
		recordFuncAnchor(rel, name, fn)
		return fn
	}
	if i := strings.Index(name, "$"); i >= 0 {
		// closure of a renamed function
		if base := p.reidentifyFunc(rel, name[:i]); base != nil {
			fn := base
			for _, a := range strings.Split(name[i+1:], "$") {
				idx := 0
				fmt.Sscanf(a, "%d", &idx)
				if idx < 1 || idx > len(fn.AnonFuncs) {
					return nil
				}
				fn = fn.AnonFuncs[idx-1]
			}
			return fn
		}
		return nil
	}
	return p.reidentifyFunc(rel, name)
}

func (p *Program) funcExact(rel, name string) *ssa.Function {
	sp := p.Pkg(rel)
	if sp == nil {
		return nil
	}
	base := name
	var anon []string
	if i := strings.Index(name, "$"); i >= 0 {
		base = name[:i]
		anon = strings.Split(name[i+1:], "$")
	}
	var fn *ssa.Function
	if strings.HasPrefix(base, "(") || strings.Contains(base, ".") {
		// method
		s := strings.TrimPrefix(base, "(")
		ptr := strings.HasPrefix(s, "*")
		s = strings.TrimPrefix(s, "*")
		s = strings.Replace(s, ")", "", 1)
		parts := strings.SplitN(s, ".", 2)
		if len(parts) != 2 {
			return nil
		}
		obj := sp.Pkg.Scope().Lookup(parts[0])
		tn, ok := obj.(*types.TypeName)
		if !ok {
			return nil
		}
		if nt, ok := tn.Type().(*types.Named); ok && nt.TypeParams().Len() > 0 {
			// generic type: address the origin method directly
			for i := 0; i < nt.NumMethods(); i++ {
				if m := nt.Method(i); m.Name() == parts[1] {
					fn = p.Prog.FuncValue(m)
				}
			}
			goto anon
		}
		var recv types.Type = tn.Type()
		if ptr {
			recv = types.NewPointer(recv)
		}
		sel := p.Prog.MethodSets.MethodSet(recv).Lookup(sp.Pkg, parts[1])
		if sel == nil {
			// try pointer receiver anyway
			sel = p.Prog.MethodSets.MethodSet(types.NewPointer(tn.Type())).Lookup(sp.Pkg, parts[1])
			if sel == nil {
				return nil
			}
		}
		fn = p.Prog.MethodValue(sel)
	} else {
		fn = sp.Func(base)
	}
anon:
	for _, a := range anon {
		if fn == nil {
			return nil
		}
		idx := 0
		fmt.Sscanf(a, "%d", &idx)
		if idx < 1 || idx > len(fn.AnonFuncs) {
			return nil
		}
		fn = fn.AnonFuncs[idx-1]
	}
	return fn
}

// Field resolves struct field rel.Type.field.
func (p *Program) Field(rel, typ, field string) *types.Var {
	sp := p.Pkg(rel)
	if sp == nil {
		return nil
	}
	obj := sp.Pkg.Scope().Lookup(typ)
	if obj == nil {
		return nil
	}
	st, ok := obj.Type().Underlying().(*types.Struct)
	if !ok {
		return nil
	}
	for i := 0; i < st.NumFields(); i++ {
		if st.Field(i).Name() == field {
			recordFieldAnchor(rel, typ, field, st.Field(i))
			return st.Field(i)
		}
	}
	return p.reidentifyField(rel, typ, field, st)
}

// Pos renders a position relative to the repository root.
func (p *Program) Pos(pos token.Pos) string {
	if !pos.IsValid() {
		return "-"
	}
	ps := p.Fset.Position(pos)
	rel, err := filepath.Rel(p.Repo, ps.Filename)
	if err != nil || strings.HasPrefix(rel, "..") {
		rel = ps.Filename
	}
	return fmt.Sprintf("%s:%d", rel, ps.Line)
}

// InstrPos gives the best position for an instruction.
func (p *Program) InstrPos(ins ssa.Instruction) string {
	return p.Pos(instrPos(ins))
}

func instrPos(ins ssa.Instruction) token.Pos {
	if ins == nil {
		return token.NoPos
	}
	if pos := ins.Pos(); pos.IsValid() {
		return pos
	}
	switch x := ins.(type) {
	case *ssa.If:
		return valuePos(x.Cond)
	case *ssa.Return:
		for _, r := range x.Results {
			if pp := valuePos(r); pp.IsValid() {
				return pp
			}
		}
	case *ssa.Store:
		if pp := valuePos(x.Val); pp.IsValid() {
			return pp
		}
		return valuePos(x.Addr)
	}
	// fall back: nearest positioned instruction in the block
	if b := ins.Block(); b != nil {
		var last token.Pos
		for _, i2 := range b.Instrs {
			if i2 == ins && last.IsValid() {
				return last
			}
			if i2.Pos().IsValid() {
				last = i2.Pos()
			}
		}
		if last.IsValid() {
			return last
		}
	}
	return token.NoPos
}

func valuePos(v ssa.Value) token.Pos {
	if v == nil {
		return token.NoPos
	}
	if pos := v.Pos(); pos.IsValid() {
		return pos
	}
	if ins, ok := v.(ssa.Instruction); ok {
		var ops []*ssa.Value
		ops = ins.Operands(ops)
		for _, o := range ops {
			if o != nil && *o != nil && (*o).Pos().IsValid() {
				return (*o).Pos()
			}
		}
	}
	return token.NoPos
}

// FuncName gives a stable, human-readable name "pkg.(*T).m" relative to the module.
func FuncName(fn *ssa.Function) string {
	if fn == nil {
		return "<nil>"
	}
	if n := referenceName(fn); n != "" {
		return n // a renamed anchor keeps the name the rules (and the known-findings keys) use
	}
	return actualFuncName(fn)
}

func actualFuncName(fn *ssa.Function) string {
	if fn == nil {
		return "<nil>"
	}
	name := fn.Name()
	if fn.Parent() != nil {
		// anonymous: parent$N
		return FuncName(fn.Parent()) + strings.TrimPrefix(name, fn.Parent().Name())
	}
	f := fn
	if o := fn.Origin(); o != nil {
		f = o
	}
	if recv := f.Signature.Recv(); recv != nil {
		t := recv.Type()
		ptr := ""
		if pt, ok := t.(*types.Pointer); ok {
			t = pt.Elem()
			ptr = "*"
		}
		tn := "?"
		if nt, ok := t.(*types.Named); ok {
			tn = nt.Obj().Name()
		}
		rp := relPkg(fn)
		if !InModule(fn) {
			rp = funcPkgPath(fn)
		}
		return fmt.Sprintf("%s.(%s%s).%s", rp, ptr, tn, f.Name())
	}
	rp := relPkg(fn)
	if !InModule(fn) {
		rp = funcPkgPath(fn)
	}
	return rp + "." + f.Name()
}

// ModuleFuncs returns all source functions (incl. anonymous) of the module,
// sorted by name, optionally restricted to package rel paths.
func (p *Program) ModuleFuncs(rels ...string) []*ssa.Function {
	want := map[string]bool{}
	for _, r := range rels {
		want[r] = true
	}
	var out []*ssa.Function
	seen := map[*ssa.Function]bool{}
	var add func(fn *ssa.Function)
	add = func(fn *ssa.Function) {
		if fn == nil || seen[fn] || fn.Blocks == nil {
			return
		}
		seen[fn] = true
		out = append(out, fn)
		for _, a := range fn.AnonFuncs {
			add(a)
		}
	}
	for path, sp := range p.SSAPkgs {
		if path != modPath && !strings.HasPrefix(path, modPath+"/") {
			continue
		}
		rel := strings.TrimPrefix(strings.TrimPrefix(path, modPath), "/")
		if len(want) > 0 && !want[rel] {
			continue
		}
		for _, m := range sp.Members {
			switch m := m.(type) {
			case *ssa.Function:
				add(m)
			case *ssa.Type:
				if nt, ok := m.Type().(*types.Named); ok && nt.TypeParams().Len() > 0 {
					// generic type: the origin methods (instantiations share their bodies' shape)
					for i := 0; i < nt.NumMethods(); i++ {
						if f := p.Prog.FuncValue(nt.Method(i)); f != nil {
							add(f)
						}
					}
					continue
				}
				for _, t := range []types.Type{m.Type(), types.NewPointer(m.Type())} {
					ms := p.Prog.MethodSets.MethodSet(t)
					for i := 0; i < ms.Len(); i++ {
						f := p.Prog.MethodValue(ms.At(i))
						if f != nil && f.Synthetic == "" {
							add(f)
						}
					}
				}
			}
		}
	}
	sort.Slice(out, func(i, j int) bool {
		a, b := FuncName(out[i]), FuncName(out[j])
		if a != b {
			return a < b
		}
		return out[i].Pos() < out[j].Pos()
	})
	return out
}

// SyntaxFile returns the parsed file containing pos (for comment annotations).
func (p *Program) SyntaxFile(pos token.Pos) *ast.File {
	if !pos.IsValid() {
		return nil
	}
	name := p.Fset.Position(pos).Filename
	if f, ok := p.fileCache[name]; ok {
		return f
	}
	for _, pk := range p.All {
		for _, f := range pk.Syntax {
			if p.Fset.Position(f.Pos()).Filename == name {
				p.fileCache[name] = f
				return f
			}
		}
	}
	p.fileCache[name] = nil
	return nil
}
