package main

// C01 continued: R3 (policy attached), R4 (verifier decision table), R6 (publish after auth).

import (
	"fmt"
	"go/token"
	"go/types"
	"strings"

	"golang.org/x/tools/go/ssa"
)

// ---------------------------------------------------------------------------
// R3

type policyTracer struct {
	c          *Ctx
	certVerify *types.Var
	want       func(v ssa.Value) bool
	wantDesc   string
	handshakes *types.Var // Server.handshakes (may be nil on client side)
	visited    map[string]bool
}

// attached reports whether value v (a *HandshakeState) provably has the wanted
// policy stored in .certVerify on every path reaching instruction at in fn.
func (t *policyTracer) attached(fn *ssa.Function, v ssa.Value, at ssa.Instruction, depth int) (bool, []string) {
	P := t.c.P
	if depth > 12 {
		return false, []string{"trace depth exceeded"}
	}
	key := fmt.Sprintf("%p|%p|%p", fn, v, at)
	if t.visited[key] {
		return true, nil // cycle: judged by the other branches
	}
	t.visited[key] = true
	v = lookThrough(v)
	ap := apString(v)
	// 1. dominating store in this function
	var wrong *ssa.Store
	found := false
	for _, st := range storesToField(fn, t.certVerify) {
		fa := st.Addr.(*ssa.FieldAddr)
		if apString(fa.X) != ap {
			continue
		}
		if !t.want(st.Val) {
			wrong = st
			continue
		}
		if dominatesInstr(st, at) {
			found = true
		}
	}
	if wrong != nil {
		return false, []string{fmt.Sprintf("%s: %s.certVerify is assigned something other than %s", P.InstrPos(wrong), ap, t.wantDesc)}
	}
	if found {
		return true, nil
	}
	// 1b. a dominating call of a module function that stores the policy on this value on all its paths
	for _, b := range fn.Blocks {
		for _, ins := range b.Instrs {
			call, ok := ins.(*ssa.Call)
			if !ok || call.Call.IsInvoke() || ssa.Instruction(call) == at || !dominatesInstr(call, at) {
				continue
			}
			g := staticCallee(call.Common())
			if g == nil || !InModule(g) || g.Blocks == nil {
				continue
			}
			for k, a := range call.Call.Args {
				if apString(lookThrough(a)) == ap && k < len(g.Params) && t.setsOnAllPaths(g, g.Params[k]) {
					return true, nil
				}
			}
		}
	}
	// 1c. 'at' publishes the value (table insert) and the policy is stored right after it in the same
	//     block, before any unlock: no reader of the table can see the state without its policy
	if _, isUpd := at.(*ssa.MapUpdate); isUpd {
		blk := at.Block()
		after := false
		for _, ins := range blk.Instrs {
			if ins == at {
				after = true
				continue
			}
			if !after {
				continue
			}
			if cc := callCommon(ins); cc != nil {
				if f := calleeFunc(cc); f != nil && (f.Name() == "Unlock" || f.Name() == "RUnlock") {
					break
				}
			}
			if st, ok := ins.(*ssa.Store); ok {
				if fa, ok := st.Addr.(*ssa.FieldAddr); ok && fieldOf(fa.X.Type(), fa.Field) == t.certVerify && apString(fa.X) == ap && t.want(st.Val) {
					return true, nil
				}
			}
		}
	}
	// 2. by origin of the value
	switch x := v.(type) {
	case *ssa.Parameter:
		idx := -1
		for i, pp := range fn.Params {
			if pp == x {
				idx = i
			}
		}
		callers := P.LiveCallers(fn)
		if len(callers) == 0 || idx < 0 {
			return false, []string{fmt.Sprintf("%s: parameter %s has no live caller that attaches the policy", FuncName(fn), x.Name())}
		}
		for _, e := range callers {
			if e.Site == nil {
				continue
			}
			args := e.Site.Common().Args
			if e.Site.Common().IsInvoke() || idx >= len(args) {
				return false, []string{fmt.Sprintf("%s: dynamic call, argument not traceable", P.InstrPos(e.Site))}
			}
			ok, why := t.attached(e.Caller.Func, args[idx], e.Site, depth+1)
			if !ok {
				return false, append([]string{fmt.Sprintf("%s: call of %s in %s", P.InstrPos(e.Site), FuncName(fn), FuncName(e.Caller.Func))}, why...)
			}
		}
		return true, nil
	case *ssa.Phi:
		for i, e := range x.Edges {
			if isNilConst(e) {
				continue
			}
			pred := x.Block().Preds[i]
			ok, why := t.attached(fn, e, pred.Instrs[len(pred.Instrs)-1], depth+1)
			if !ok {
				return false, why
			}
		}
		return true, nil
	case *ssa.Lookup:
		if t.handshakes != nil && isDirectFieldLoad(x.X, t.handshakes) {
			ws := P.FieldWrites(t.handshakes, "transport")
			n := 0
			for _, w := range ws {
				if w.Kind != "mapupdate" {
					continue
				}
				n++
				ok, why := t.attached(w.Fn, w.Val, w.Instr, depth+1)
				if !ok {
					return false, append([]string{fmt.Sprintf("%s: handshake table insert in %s", P.InstrPos(w.Instr), FuncName(w.Fn))}, why...)
				}
			}
			if n == 0 {
				return false, []string{"no insert into Server.handshakes found"}
			}
			return true, nil
		}
	case *ssa.UnOp:
		if a, ok := x.X.(*ssa.Alloc); ok && x.Op == token.MUL {
			// load of a local (e.g. a defer-spilled result): every store to it must qualify
			n := 0
			for _, r := range *a.Referrers() {
				if st, ok := r.(*ssa.Store); ok && st.Addr == ssa.Value(a) {
					if isNilConst(st.Val) {
						continue
					}
					n++
					if ok2, why := t.attached(fn, st.Val, st, depth+1); !ok2 {
						return false, why
					}
				}
			}
			if n > 0 {
				return true, nil
			}
		}
		if x.Op == token.MUL {
			// load of a struct field (c.hs): re-root at callers when the base is a parameter
			root, sels := accessPath(x)
			if prm, ok := root.(*ssa.Parameter); ok && len(sels) > 0 {
				idx := -1
				for i, pp := range fn.Params {
					if pp == prm {
						idx = i
					}
				}
				callers := P.LiveCallers(fn)
				if idx < 0 || len(callers) == 0 {
					return false, []string{fmt.Sprintf("%s: %s not assigned the policy and no live caller does it", FuncName(fn), ap)}
				}
				for _, e := range callers {
					if e.Site == nil || e.Site.Common().IsInvoke() || idx >= len(e.Site.Common().Args) {
						return false, []string{fmt.Sprintf("%s: untraceable call", P.InstrPos(e.Site))}
					}
					arg := lookThrough(e.Site.Common().Args[idx])
					// look for a dominating store to <arg><sels>.certVerify in the caller
					suffix := strings.TrimPrefix(ap, rootName(root))
					wantAP := apString(arg) + suffix
					ok := false
					var whyNot []string
					for _, st := range storesToField(e.Caller.Func, t.certVerify) {
						fa := st.Addr.(*ssa.FieldAddr)
						if apString(fa.X) != wantAP {
							continue
						}
						if !t.want(st.Val) {
							return false, []string{fmt.Sprintf("%s: %s.certVerify is assigned something other than %s", P.InstrPos(st), wantAP, t.wantDesc)}
						}
						if dominatesInstr(st, e.Site) {
							ok = true
						}
					}
					if !ok {
						// one more level up if the caller's base is again a parameter
						if _, isParam := lookThrough(arg).(*ssa.Parameter); isParam {
							// synthesise the load in the caller: find any load with that access path
							var cand ssa.Value
							eachInstr(e.Caller.Func, func(ins ssa.Instruction) {
								if u, ok2 := ins.(*ssa.UnOp); ok2 && u.Op == token.MUL && apString(u) == wantAP && cand == nil {
									cand = u
								}
							})
							if cand != nil {
								ok, whyNot = t.attached(e.Caller.Func, cand, e.Site, depth+1)
							}
						}
					}
					if !ok {
						return false, append([]string{fmt.Sprintf("%s: no assignment of %s to %s.certVerify dominates the call of %s in %s", P.InstrPos(e.Site), t.wantDesc, wantAP, FuncName(fn), FuncName(e.Caller.Func))}, whyNot...)
					}
				}
				return true, nil
			}
		}
	}
	if call, k := fromCall(v); call != nil {
		if g := staticCallee(call.Common()); g != nil && InModule(g) && g.Blocks != nil {
			n := 0
			for _, b := range g.Blocks {
				ret, ok := b.Instrs[len(b.Instrs)-1].(*ssa.Return)
				if !ok || k >= len(ret.Results) {
					continue
				}
				rv := ret.Results[k]
				if isNilConst(rv) {
					continue
				}
				n++
				ok2, why := t.attached(g, rv, ret, depth+1)
				if !ok2 {
					return false, append([]string{fmt.Sprintf("%s: value returned by %s", P.InstrPos(ret), FuncName(g))}, why...)
				}
			}
			if n > 0 {
				return true, nil
			}
		}
	}
	return false, []string{fmt.Sprintf("%s: no assignment of %s to %s.certVerify dominates %s", FuncName(fn), t.wantDesc, ap, P.InstrPos(at))}
}

// setsOnAllPaths: g stores the wanted policy into prm.certVerify in a block that dominates every return of g.
func (t *policyTracer) setsOnAllPaths(g *ssa.Function, prm *ssa.Parameter) bool {
	for _, st := range storesToField(g, t.certVerify) {
		fa := st.Addr.(*ssa.FieldAddr)
		if lookThrough(fa.X) != ssa.Value(prm) || !t.want(st.Val) {
			continue
		}
		all := true
		for _, b := range g.Blocks {
			if ret, ok := b.Instrs[len(b.Instrs)-1].(*ssa.Return); ok && !dominatesInstr(st, ret) {
				all = false
			}
		}
		if all {
			return true
		}
	}
	return false
}

func c01R3(c *Ctx, live map[*ssa.Function]bool) {
	P := c.P
	certVerify := P.Field("transport", "HandshakeState", "certVerify")
	clientVerify := P.Field("transport", "ServerConfig", "ClientVerify")
	srvConfig := P.Field("transport", "Server", "config")
	cliConfig := P.Field("transport", "Client", "config")
	cliVerify := P.Field("transport", "ClientConfig", "Verify")
	handshakes := P.Field("transport", "Server", "handshakes")
	if certVerify == nil || clientVerify == nil || srvConfig == nil || cliConfig == nil || cliVerify == nil || handshakes == nil {
		c.Undecided("C01.R3", "transport policy fields", "HandshakeState.certVerify / ServerConfig.ClientVerify / Server.config / Client.config / ClientConfig.Verify / Server.handshakes not all found")
		return
	}
	serverWant := func(v ssa.Value) bool {
		_, sels := accessPath(v)
		n := len(sels)
		return n >= 2 && sels[n-1].Field == clientVerify && sels[n-2].Field == srvConfig
	}
	clientWant := func(v ssa.Value) bool {
		// &c.config.Verify
		fa, ok := strip(v).(*ssa.FieldAddr)
		if !ok || fieldOf(fa.X.Type(), fa.Field) != cliVerify {
			return false
		}
		_, sels := accessPath(fa.X)
		return len(sels) >= 1 && sels[len(sels)-1].Field == cliConfig
	}
	vid := verifierFuncID()
	nServer, nClient := 0, 0
	for _, fn := range P.ModuleFuncs("transport") {
		if !live[fn] {
			continue
		}
		for i, cs := range callSitesIn(fn, false, vid) {
			call, ok := cs.(*ssa.Call)
			if !ok {
				continue
			}
			recv := call.Call.Args[0]
			cons := fmt.Sprintf("%s#verify%d", FuncName(fn), i+1)
			serverSide := false
			if r := fn.Signature.Recv(); r != nil {
				if pt, ok := r.Type().(*types.Pointer); ok {
					if nt, ok := pt.Elem().(*types.Named); ok && nt.Obj().Name() == "Server" {
						serverSide = true
					}
				}
			}
			var tr *policyTracer
			if serverSide {
				nServer++
				tr = &policyTracer{c: c, certVerify: certVerify, want: serverWant, wantDesc: "s.config.ClientVerify", handshakes: handshakes, visited: map[string]bool{}}
			} else {
				nClient++
				tr = &policyTracer{c: c, certVerify: certVerify, want: clientWant, wantDesc: "&c.config.Verify", visited: map[string]bool{}}
			}
			ok2, why := tr.attached(fn, recv, call, 0)
			if ok2 {
				c.OK("C01.R3", cons, P.InstrPos(call), "policy "+tr.wantDesc+" attached on every provenance of the handshake state")
			} else {
				side := "client"
				if serverSide {
					side = "server"
				}
				c.Fail("C01.R3", cons, P.InstrPos(call), side+"-side certificate verification can run on a handshake state whose certVerify was never set to "+tr.wantDesc+" (a nil policy skips all verification)", why...)
			}
		}
	}
	c.Floor("C01.R3", "server-side verifier call sites", nServer, 2)
	c.Floor("C01.R3", "client-side verifier call sites", nClient, 2)
}

// ---------------------------------------------------------------------------
// R4

func c01R4(c *Ctx) {
	P := c.P
	fn := P.Func("transport", "(*HandshakeState).certificateParserAndVerifier")
	if fn == nil {
		c.Undecided("C01.R4", "transport.(*HandshakeState).certificateParserAndVerifier", "function not found")
		return
	}
	name := FuncName(fn)
	c.Analysed(name)
	fCertVerify := P.Field("transport", "HandshakeState", "certVerify")
	fSkip := P.Field("transport", "VerifyConfig", "InsecureSkipVerify")
	fAKAllowed := P.Field("transport", "VerifyConfig", "AuthKeysAllowed")
	fCallback := P.Field("transport", "VerifyConfig", "AddVerifyCallback")
	fName := P.Field("transport", "VerifyConfig", "Name")
	fTime := P.Field("transport", "VerifyConfig", "CurrentTime")
	oName := P.Field("certs", "VerifyOptions", "Name")
	oTime := P.Field("certs", "VerifyOptions", "CurrentTime")
	oPI := P.Field("certs", "VerifyOptions", "PresentedIntermediate")
	for _, f := range []*types.Var{fCertVerify, fSkip, fAKAllowed, fCallback, fName, fTime, oName, oTime, oPI} {
		if f == nil {
			c.Undecided("C01.R4", "VerifyConfig / VerifyOptions fields", "field not found")
			return
		}
	}
	storeVL := hopID("certs", "Store", "VerifyLeaf")
	akVL1 := hopID("authkeys", "SyncAuthKeySet", "VerifyLeaf")
	akVL2 := hopID("authkeys", "AuthKeySet", "VerifyLeaf")
	readFrom := hopID("certs", "Certificate", "ReadFrom")

	type obl struct {
		bad  string
		site ssa.Instruction
		path *Path
	}
	fails := map[string]*obl{}
	fail := func(k, msg string, site ssa.Instruction, p *Path) {
		if fails[k] == nil {
			fails[k] = &obl{msg, site, p}
		}
	}
	succ, policyOn := 0, 0
	n, complete := WalkPathsInl(fn, PathOpts{}, func(p *Path) bool {
		if errReturnClass(p) == nonNil {
			return true
		}
		ret := p.Returns()
		if ret == nil {
			return true
		}
		succ++
		last := len(p.Blocks) - 1
		facts := p.FactsAt(last)
		// the leaf that is returned
		var leafAlloc ssa.Value
		if len(ret.Results) > 0 {
			if u, ok := ret.Results[0].(*ssa.UnOp); ok {
				leafAlloc = u.X
			}
		}
		certVerifyNil, skip := false, false
		akAllowedTrue := false
		cbNonNil := false
		for k, v := range facts {
			switch {
			case k.op == token.EQL && k.y == nil && (endsInField(k.x, fCertVerify, false) || isPolicyParam(fn, k.x)) && v:
				certVerifyNil = true
			case k.op == token.ILLEGAL && endsInField(k.x, fSkip, false) && v:
				skip = true
			case k.op == token.ILLEGAL && endsInField(k.x, fAKAllowed, false) && v:
				akAllowedTrue = true
			case k.op == token.EQL && k.y == nil && endsInField(k.x, fCallback, false) && !v:
				cbNonNil = true
			}
		}
		storeOK, akOK, cbCalled, cbOK := false, false, false, false
		leafParsed, leafLenOK := false, false
		interParsed, interLenOK, interStored := false, false, false
		nameCopied, timeCopied := false, false
		var interAlloc ssa.Value
		p.ForEach(func(i int, ins ssa.Instruction) bool {
			switch x := ins.(type) {
			case *ssa.Call:
				id := calleeID(ins)
				args := callArgs(&x.Call)
				switch id {
				case storeVL, akVL1, akVL2:
					if len(args) < 3 {
						return true
					}
					if leafAlloc == nil || p.Resolve(args[1], i) != leafAlloc {
						fail("leafarg", "VerifyLeaf is applied to a certificate other than the parsed leaf that is returned", ins, p)
						return true
					}
					if errV := errResultOf(x); errV != nil && p.Nilness(errV, last) == isNil {
						if id == storeVL {
							storeOK = true
						} else {
							akOK = true
						}
					}
				case readFrom:
					if len(args) >= 1 {
						errV := errResultOf(x)
						isLeaf := leafAlloc != nil && p.Resolve(args[0], i) == leafAlloc
						if errV != nil && p.Nilness(errV, last) == isNil {
							if isLeaf {
								leafParsed = true
							} else {
								interParsed = true
								interAlloc = strip(args[0])
							}
						}
						// length equality test on result #0
						if nV := extractOf(x, 0); nV != nil {
							for k, v := range facts {
								if k.op == token.EQL && k.y != nil && v && (derivesFrom(k.x, nV) || derivesFrom(k.y, nV)) {
									if isLeaf {
										leafLenOK = true
									} else {
										interLenOK = true
									}
								}
							}
						}
					}
				default:
					// dynamic call through the AddVerifyCallback field
					if !x.Call.IsInvoke() && staticCallee(&x.Call) == nil && endsInField(x.Call.Value, fCallback, false) {
						cbCalled = true
						if len(x.Call.Args) == 1 && leafAlloc != nil && p.Resolve(x.Call.Args[0], i) == leafAlloc {
							if p.Nilness(x, last) == isNil {
								cbOK = true
							}
						} else {
							fail("cbarg", "the additional verify callback is not given the parsed leaf", ins, p)
						}
					}
				}
			case *ssa.Store:
				if endsInField(x.Addr, oName, false) && endsInField(x.Val, fName, false) {
					nameCopied = true
				}
				if endsInField(x.Addr, oTime, false) && endsInField(x.Val, fTime, false) {
					timeCopied = true
				}
				if endsInField(x.Addr, oPI, false) {
					if interAlloc != nil && strip(x.Val) == interAlloc {
						interStored = true
					} else {
						fail("pi", "opts.PresentedIntermediate is set to something other than the intermediate parsed from this message", ins, p)
					}
				}
			}
			return true
		})
		if !leafParsed {
			fail("leafparse", "a success path does not require leaf.ReadFrom to succeed", p.Exit(), p)
		}
		if !leafLenOK {
			fail("leaflen", "a success path accepts extra bytes after the leaf certificate (length equality not required)", p.Exit(), p)
		}
		if interParsed && !interLenOK {
			fail("interlen", "a success path accepts extra bytes after the intermediate certificate", p.Exit(), p)
		}
		_ = interStored
		if !certVerifyNil {
			if !nameCopied || !timeCopied {
				fail("opts", "with a policy present, opts.Name / opts.CurrentTime are not copied from the policy on a success path", p.Exit(), p)
			}
			if !skip {
				policyOn++
				if !(storeOK || (akOK && akAllowedTrue)) {
					fail("policy", "fail-open: a success path with a policy and without InsecureSkipVerify passes neither Store.VerifyLeaf==nil nor (AuthKeysAllowed and AuthKeys.VerifyLeaf==nil)", p.Exit(), p)
				}
			}
			if cbNonNil && !(cbCalled && cbOK) {
				fail("callback", "a configured AddVerifyCallback is not run on the leaf, or its error is not fatal, on a success path", p.Exit(), p)
			}
		}
		return true
	})
	if !complete {
		c.Undecided("C01.R4", name, fmt.Sprintf("path bound exceeded after %d paths", n))
		return
	}
	keys := []string{"leafparse", "leaflen", "interlen", "opts", "policy", "callback", "leafarg", "cbarg", "pi"}
	for _, k := range keys {
		cons := name + "#" + k
		if f := fails[k]; f != nil {
			c.Fail("C01.R4", cons, P.InstrPos(f.site), f.bad, pathTrace(P, f.path)...)
		} else {
			c.OK("C01.R4", cons, P.Pos(fn.Pos()), fmt.Sprintf("holds on all %d success paths (%d with policy enforced)", succ, policyOn))
		}
	}
	c.Floor("C01.R4", "success paths with an enforced policy", policyOn, 1)
}

// derivesFrom: v is computed from src through conversions only.
func derivesFrom(v, src ssa.Value) bool {
	for i := 0; i < 8; i++ {
		if v == src {
			return true
		}
		switch x := v.(type) {
		case *ssa.Convert:
			v = x.X
		case *ssa.ChangeType:
			v = x.X
		default:
			return false
		}
	}
	return false
}

// ---------------------------------------------------------------------------
// R6

// chanSends lists instructions in fn that send on a channel loaded from field f.
func chanSends(fn *ssa.Function, f *types.Var) []ssa.Instruction {
	var out []ssa.Instruction
	eachInstr(fn, func(ins ssa.Instruction) {
		switch x := ins.(type) {
		case *ssa.Send:
			if endsInField(x.Chan, f, false) {
				out = append(out, ins)
			}
		case *ssa.Select:
			for _, st := range x.States {
				if st.Dir == types.SendOnly && endsInField(st.Chan, f, false) {
					out = append(out, ins)
				}
			}
		}
	})
	return out
}

func c01R6(c *Ctx, live map[*ssa.Function]bool) {
	P := c.P
	pending := P.Field("transport", "Server", "pendingConnections")
	if pending == nil {
		c.Undecided("C01.R6", "transport.Server.pendingConnections", "field not found")
		return
	}
	finish := P.Func("transport", "(*Server).finishHandshake")
	if finish == nil {
		c.Undecided("C01.R6", "transport.(*Server).finishHandshake", "function not found")
		return
	}
	// (a) who sends on pendingConnections
	nsend := 0
	for _, fn := range P.ModuleFuncs() {
		for _, s := range chanSends(fn, pending) {
			nsend++
			c.Check(fn == finish, "C01.R6", "send:pendingConnections@"+FuncName(fn), P.InstrPos(s),
				"connection offered to Accept in finishHandshake", "a connection is offered to Accept outside finishHandshake (before client authentication can be guaranteed)")
		}
	}
	c.Floor("C01.R6", "sends on Server.pendingConnections", nsend, 1)

	// (b) callers of finishHandshake: hs argument comes from an authenticating reader whose error is nil here
	authReaders := map[string]bool{
		hopID("transport", "Server", "readPQClientAuth"):            true,
		hopID("transport", "Server", "handlePQClientRequestHidden"): true,
	}
	ncall := 0
	for _, e := range P.LiveCallers(finish) {
		if e.Site == nil {
			continue
		}
		ncall++
		caller := e.Caller.Func
		cons := "call:finishHandshake@" + FuncName(caller)
		args := e.Site.Common().Args
		if len(args) < 2 {
			c.Fail("C01.R6", cons, P.InstrPos(e.Site), "unexpected call shape")
			continue
		}
		call, _ := fromCall(args[1])
		if call == nil || !authReaders[calleeID(call)] {
			// or: the state object that an authenticating reader, called here and dominating this site, filled
			call = nil
			inner := map[string]bool{hopID("transport", "Server", "readPQClientRequestHidden"): true, hopID("transport", "Server", "readPQClientAuth"): true}
			eachInstr(caller, func(ins ssa.Instruction) {
				rc, ok := ins.(*ssa.Call)
				if !ok || !inner[calleeID(rc)] || !dominatesInstr(rc, e.Site) {
					return
				}
				for _, a := range rc.Call.Args {
					if lookThrough(a) == lookThrough(args[1]) {
						call = rc
					}
				}
			})
		}
		if call == nil {
			c.Fail("C01.R6", cons, P.InstrPos(e.Site), "finishHandshake is called with a handshake state that is not the result of readPQClientAuth / handlePQClientRequestHidden")
			continue
		}
		cons += "<-" + calleeFunc(call.Common()).Name()
		mf := ComputeMustFacts(caller)
		errV := errResultOf(call)
		if errV == nil || mf.NilAt(e.Site, errV) != isNil {
			c.Fail("C01.R6", cons, P.InstrPos(e.Site), "finishHandshake is reachable without the authenticating reader's error having been found nil (connection published before the client is authenticated)")
			continue
		}
		c.OK("C01.R6", cons, P.InstrPos(e.Site), "dominated by the nil-error edge of the authenticating reader")
	}
	c.Floor("C01.R6", "live call sites of finishHandshake", ncall, 2)

	// hidden mode: the response writer (which absorbs DH(ss), R5) must have succeeded before finishHandshake
	if rp := P.Func("transport", "(*Server).readPacket"); rp != nil {
		mf := ComputeMustFacts(rp)
		for _, cs := range callSitesIn(rp, false, hopID("transport", "Server", "finishHandshake")) {
			hsArg := cs.Common().Args[1]
			call, _ := fromCall(hsArg)
			if call == nil || calleeID(call) != hopID("transport", "Server", "handlePQClientRequestHidden") {
				// no wrapper: the hidden arm is where readPacket calls the hidden-request reader on this state
				hidden := false
				for _, rs := range callSitesIn(rp, false, hopID("transport", "Server", "readPQClientRequestHidden")) {
					for _, a := range rs.Common().Args {
						if lookThrough(a) == lookThrough(hsArg) {
							hidden = true
						}
					}
				}
				if !hidden {
					continue
				}
			}
			// find the writePQServerResponseHidden call on the same hs
			var w *ssa.Call
			for _, ws := range callSitesIn(rp, false, hopID("transport", "Server", "writePQServerResponseHidden")) {
				if wc, ok := ws.(*ssa.Call); ok && len(wc.Call.Args) >= 2 && (wc.Call.Args[1] == hsArg || lookThrough(wc.Call.Args[1]) == lookThrough(hsArg)) {
					w = wc
				}
			}
			cons := "hidden:response-before-finish@" + FuncName(rp)
			if w == nil {
				c.Fail("C01.R6", cons, P.InstrPos(cs), "hidden mode: finishHandshake without a preceding writePQServerResponseHidden on the same state (DH(ss) never mixed into the keys)")
				continue
			}
			ev := errResultOf(w)
			c.Check(ev != nil && dominatesInstr(w, cs) && mf.NilAt(cs, ev) == isNil, "C01.R6", cons, P.InstrPos(cs),
				"hidden response (absorbing DH(ss)) succeeded before the session is finished",
				"hidden mode: finishHandshake is reachable although writePQServerResponseHidden failed or did not run (keys derived without DH(ss))")
		}
	}

	// (c) who writes the session keys / handle
	ss := map[string]*types.Var{
		"readKey":  P.Field("transport", "SessionState", "readKey"),
		"writeKey": P.Field("transport", "SessionState", "writeKey"),
		"handle":   P.Field("transport", "SessionState", "handle"),
	}
	allowed := map[string]bool{"transport.(*Server).finishHandshake": true, "transport.(*Client).clientHandshakeLocked": true}
	for _, fname := range []string{"readKey", "writeKey", "handle"} {
		f := ss[fname]
		if f == nil {
			c.Undecided("C01.R6", "transport.SessionState."+fname, "field not found")
			continue
		}
		ws := P.HoistWrites(P.FieldWrites(f), func(fn *ssa.Function) bool { return allowed[FuncName(fn)] })
		for _, w := range ws {
			c.Check(allowed[FuncName(w.Fn)], "C01.R6", "write:SessionState."+fname+"@"+FuncName(w.Fn), P.InstrPos(w.Instr),
				"written by the handshake finisher", "SessionState."+fname+" is written outside finishHandshake / clientHandshakeLocked: a session could become usable before authentication completes")
		}
		c.Floor("C01.R6", "writers of SessionState."+fname, len(ws), 2)
	}

	// (d) client: state -> Open and go listen() only after begin*Handshake returned nil
	chl := P.Func("transport", "(*Client).clientHandshakeLocked")
	if chl == nil {
		c.Undecided("C01.R6", "transport.(*Client).clientHandshakeLocked", "function not found")
		return
	}
	c.Analysed(FuncName(chl))
	begin := map[string]bool{
		hopID("transport", "Client", "beginPQHiddenHandshake"):       true,
		hopID("transport", "Client", "beginPQDiscoverableHandshake"): true,
	}
	var bad string
	var badPath *Path
	opened := 0
	n, complete := WalkPathsInl(chl, PathOpts{}, func(p *Path) bool {
		okBegin := false
		p.ForEach(func(i int, ins ssa.Instruction) bool {
			if call, ok := ins.(*ssa.Call); ok && begin[calleeID(ins)] {
				if ev := errResultOf(call); ev != nil && p.Nilness(ev, len(p.Blocks)-1) == isNil {
					okBegin = true
				}
			}
			isOpen := false
			if call, ok := ins.(*ssa.Call); ok && calleeID(ins) == "(sync/atomic.Uint32).CompareAndSwap" && len(call.Call.Args) == 3 {
				if v, ok := constInt(call.Call.Args[2]); ok && v == 2 { // clientStateOpen
					isOpen = true
				}
			}
			if g, ok := ins.(*ssa.Go); ok && calleeID(g) == hopID("transport", "Client", "listen") {
				isOpen = true
			}
			if isOpen {
				opened++
				if !okBegin && bad == "" {
					bad = "the client becomes Open / starts listening on a path where no begin*Handshake call returned a nil error"
					badPath = p
				}
			}
			return true
		})
		if errReturnClass(p) != nonNil && !okBegin && bad == "" {
			bad = "clientHandshakeLocked returns success on a path where no begin*Handshake call returned a nil error"
			badPath = p
		}
		return true
	})
	cons := FuncName(chl) + "#open-after-handshake"
	switch {
	case !complete:
		c.Undecided("C01.R6", cons, fmt.Sprintf("path bound exceeded after %d paths", n))
	case bad != "":
		c.Fail("C01.R6", cons, P.InstrPos(badPath.Exit()), bad, pathTrace(P, badPath)...)
	case opened == 0:
		c.Fail("C01.R6", cons, P.Pos(chl.Pos()), "no transition to Open found")
	default:
		c.OK("C01.R6", cons, P.Pos(chl.Pos()), fmt.Sprintf("Open/listen only after a nil begin*Handshake (%d paths)", n))
	}
}

// isPolicyParam: v is a *VerifyConfig parameter of fn (the policy handed in instead of read from hs.certVerify).
func isPolicyParam(fn *ssa.Function, v ssa.Value) bool {
	k := paramIndex(fn, v)
	if k < 0 {
		return false
	}
	ts := types.TypeString(fn.Params[k].Type(), nil)
	return strings.HasPrefix(ts, "*") && strings.HasSuffix(ts, "transport.VerifyConfig")
}

// c01R8: a removed key is gone. The authorized-keys policy accepts a client whose static key is present in
// SyncAuthKeySet.keySet (the verifier tests presence). Removal therefore has to remove the entry: every
// returning path of RemoveKey executes delete(keySet, pk) for its own argument, and nothing else than
// AddKey (insert for its argument), RemoveKey and the constructor writes the map. A RemoveKey that only
// marks or counts down leaves the key accepted — the delegate key of a consumed grant, for instance.
func c01R8(c *Ctx) {
	P := c.P
	const rule = "C01.R8"
	c.Rule(rule, "a removed key is gone: every returning path of SyncAuthKeySet.RemoveKey deletes the entry of its argument from keySet (the verifier tests presence), and keySet is written only by AddKey, RemoveKey and the constructor (E1 + E4 who-may-write)")
	fSet := P.Field("authkeys", "SyncAuthKeySet", "keySet")
	rm := P.Func("authkeys", "(*SyncAuthKeySet).RemoveKey")
	if fSet == nil || rm == nil {
		c.Undecided(rule, "authkeys.(*SyncAuthKeySet).RemoveKey", "function or field not found")
		return
	}
	name := FuncName(rm)
	c.Analysed(name)
	fs := newFailSet()
	n := 0
	ok := walkAll(c, rule, rm, func(p *Path) {
		if p.Returns() == nil {
			return
		}
		n++
		deleted := false
		p.ForEach(func(i int, ins ssa.Instruction) bool {
			if call, ok := ins.(*ssa.Call); ok {
				if b, ok := call.Call.Value.(*ssa.Builtin); ok && b.Name() == "delete" && len(call.Call.Args) == 2 &&
					lastField(call.Call.Args[0]) == fSet && paramIndex(rm, p.Resolve(call.Call.Args[1], i)) == 1 {
					deleted = true
				}
			}
			return true
		})
		if !deleted {
			// nothing to delete: the entry was looked up and found absent
			for key, val := range p.FactsAt(len(p.Blocks) - 1) {
				if key.op == token.ILLEGAL && !val {
					if ex, ok := p.Resolve(key.x, len(p.Blocks)-1).(*ssa.Extract); ok && ex.Index == 1 {
						if lk, ok := ex.Tuple.(*ssa.Lookup); ok && lk.CommaOk && lastField(lk.X) == fSet && paramIndex(rm, lk.Index) == 1 {
							deleted = true
						}
					}
				}
			}
		}
		if !deleted {
			fs.add("deletes", "RemoveKey returns without deleting the entry of its argument from the key set: the verifier tests presence, so the removed key keeps passing the authorized-keys policy", p.Exit(), p)
		}
	})
	if ok {
		fs.report(c, rule, name, []string{"deletes"}, P.Pos(rm.Pos()), fmt.Sprintf("entry deleted on all %d returning paths", n))
		c.Floor(rule, "returning paths of RemoveKey", n, 1)
	}
	// writers of the map
	allowed := map[string]bool{"authkeys.(*SyncAuthKeySet).AddKey": true, "authkeys.(*SyncAuthKeySet).RemoveKey": true, "authkeys.NewSyncAuthKeySet": true}
	nw := 0
	for _, w := range P.FieldWrites(fSet) {
		nw++
		okw := allowed[FuncName(w.Fn)]
		if !okw {
			for a := range allowed {
				for _, f := range P.ModuleFuncs("authkeys") {
					if FuncName(f) == a && P.OwnedBy(w.Fn, f) {
						okw = true
					}
				}
			}
		}
		c.Check(okw, rule, "write:keySet@"+FuncName(w.Fn), P.InstrPos(w.Instr), "written by its accessor", "the authorized-key set is written outside AddKey / RemoveKey / its constructor")
	}
	c.Floor(rule, "writes of SyncAuthKeySet.keySet", nw, 2)
}
