package main

// C06 — Nothing is delegated without the principal approving that exact intent.

import (
	"fmt"
	"go/token"
	"go/types"

	"golang.org/x/tools/go/ssa"
)

func init() { register("C06", checkC06) }

// fieldCall: call through a function-typed struct field f.
func fieldCall(call *ssa.Call, f *types.Var) bool {
	return call != nil && !call.Call.IsInvoke() && staticCallee(&call.Call) == nil && endsInField(call.Call.Value, f, false)
}

func checkC06(c *Ctx) {
	P := c.P
	c.Rule("C06.R1", "approve-before-forward: every path to WriteIntentCommunication(targetConn, i) passes the nil edge of p.checkIntent(i, ...) directly, or of setUpTargetConn(url, cb) where cb calls p.checkIntent(i, cert) and returns its error unchanged; hopclient installs cb as the handshake's AddVerifyCallback and propagates the Handshake error (E1 + closure summary)")
	c.Rule("C06.R2", "same intent: the forwarded value is the request parameter itself, never stored to between approval and forward; WriteIntentCommunication serialises its parameter unchanged (E1 + def-use)")
	c.Rule("C06.R3", "exactly one answer per request: on every path of doIntentRequestChecks exactly one WriteIntentDenied/WriteIntentConfirmation on delegateConn, none inside the callback closure; same for handleIntentCommunication on principalConn once a request was read (E1 counting)")
	c.Rule("C06.R4", "confirmation only after acceptance: principal confirms only after ReadConfOrDenial==nil and MsgType!=IntentDenied (ReadConfOrDenial succeeds only for Denied/Confirmation); target confirms only after checkIntent==nil and addAuthGrant==nil; HopServer.AddAuthGrant's nil path stores the grant and the key (E1)")
	c.Decides("ordering and fail-closed shape of approval, forwarding and answering in the principal and target state machines")
	c.NotDecided("what a user-supplied approval callback decides; the ci==nil => insecureAcceptAll default of StartPrincipalInstance (an API choice the statement does not mention; informational)")

	c06R6(c)
	fn := P.Func("authgrants", "(*principalInstance).doIntentRequestChecks")
	fCheck := P.Field("authgrants", "principalInstance", "checkIntent")
	fSetup := P.Field("authgrants", "principalInstance", "setUpTargetConn")
	fDelegate := P.Field("authgrants", "principalInstance", "delegateConn")
	fTarget := P.Field("authgrants", "principalInstance", "targetConn")
	if fn == nil || fCheck == nil || fSetup == nil || fDelegate == nil || fTarget == nil {
		c.Undecided("C06.R1", "authgrants.(*principalInstance).doIntentRequestChecks", "function or fields not found")
		return
	}
	name := FuncName(fn)
	c.Analysed(name)
	wic := hopID("authgrants", "", "WriteIntentCommunication")
	wden := hopID("authgrants", "", "WriteIntentDenied")
	wconf := hopID("authgrants", "", "WriteIntentConfirmation")
	rcod := hopID("authgrants", "", "ReadConfOrDenial")

	// the request parameter (spilled to an alloc because the closure captures it)
	var iParam *ssa.Parameter
	for _, prm := range fn.Params {
		if nt, ok := prm.Type().(*types.Named); ok && nt.Obj().Name() == "Intent" {
			iParam = prm
		}
	}
	if iParam == nil {
		c.Undecided("C06.R1", name, "no Intent parameter")
		return
	}
	var iAlloc *ssa.Alloc
	for _, r := range *iParam.Referrers() {
		if st, ok := r.(*ssa.Store); ok && st.Val == ssa.Value(iParam) {
			if a, ok := st.Addr.(*ssa.Alloc); ok {
				iAlloc = a
			}
		}
	}
	var curPath *Path
	var curAt int
	isI := func(v ssa.Value) bool { // v is the request parameter (by value), also when seen from inside a helper
		v = strip(v)
		if curPath != nil {
			// seen from inside a helper: the helper's parameter (possibly spilled) stands for the caller's argument
			for k := 0; k < 4; k++ {
				w := v
				if u, ok := w.(*ssa.UnOp); ok && u.Op == token.MUL {
					if a, ok := u.X.(*ssa.Alloc); ok && a.Parent() != fn {
						if sst := singleStore(a); sst != nil {
							w = sst
						}
					}
				}
				if par, ok := w.(*ssa.Parameter); ok && par.Parent() != fn {
					w = strip(curPath.Resolve(par, curAt))
				}
				if w == v {
					break
				}
				v = w
			}
		}
		if v == ssa.Value(iParam) {
			return true
		}
		if u, ok := v.(*ssa.UnOp); ok && u.Op == token.MUL && iAlloc != nil && u.X == ssa.Value(iAlloc) {
			return true
		}
		return false
	}

	// closure summary: does cb approve i and return the verdict unchanged, and contain no answer write?
	type cbInfo struct {
		approves bool
		why      string
		answers  int
	}
	cbCache := map[*ssa.Function]*cbInfo{}
	summarise := func(mc *ssa.MakeClosure) *cbInfo {
		cf, _ := mc.Fn.(*ssa.Function)
		if cf == nil {
			return &cbInfo{why: "callback is not a function literal"}
		}
		if ci, ok := cbCache[cf]; ok {
			return ci
		}
		ci := &cbInfo{approves: true}
		cbCache[cf] = ci
		c.Analysed(FuncName(cf))
		// which free variable is i
		var iFree *ssa.FreeVar
		for k, fv := range cf.FreeVars {
			if k < len(mc.Bindings) && iAlloc != nil && mc.Bindings[k] == ssa.Value(iAlloc) {
				iFree = fv
			}
			// the closure is built in a helper: it captures the helper's copy of the request
			if k < len(mc.Bindings) && iFree == nil {
				if a, ok := mc.Bindings[k].(*ssa.Alloc); ok && a.Parent() != fn {
					if sst := singleStore(a); sst != nil && isI(sst) {
						iFree = fv
					}
				}
			}
		}
		eachInstr(cf, func(ins ssa.Instruction) {
			if isCall(ins, wden, wconf) {
				ci.answers++
			}
		})
		succ := 0
		_, complete := WalkPathsInl(cf, PathOpts{}, func(p *Path) bool {
			if !isSuccess(p) {
				return true
			}
			succ++
			last := len(p.Blocks) - 1
			ret := returnedErr(p)
			approved := false
			for _, pc := range callsOnPath(p) {
				if !fieldCall(pc.call, fCheck) || len(pc.call.Call.Args) != 2 {
					continue
				}
				arg := strip(pc.call.Call.Args[0])
				u, ok := arg.(*ssa.UnOp)
				if !ok || iFree == nil || u.X != ssa.Value(iFree) {
					ci.approves, ci.why = false, "the callback passes something other than the captured request to checkIntent"
					continue
				}
				if p.Nilness(pc.call, last) == isNil || (ret != nil && strip(ret) == ssa.Value(pc.call)) {
					approved = true
				}
			}
			if !approved {
				ci.approves, ci.why = false, "the callback can return nil without p.checkIntent(i, cert) having returned nil (verdict dropped or altered)"
			}
			return true
		})
		if !complete {
			ci.approves, ci.why = false, "path bound exceeded in callback"
		}
		if succ == 0 {
			ci.approves, ci.why = false, "callback has no success path"
		}
		return ci
	}

	fs, fsR2, fsR3, fsR4 := newFailSet(), newFailSet(), newFailSet(), newFailSet()
	forwards, paths := 0, 0
	ok := walkAll(c, "C06.R1", fn, func(p *Path) {
		paths++
		last := len(p.Blocks) - 1
		approved := false
		answers := 0
		var confCall *ssa.Call
		var rcodCall *ssa.Call
		p.ForEach(func(bi int, ins ssa.Instruction) bool {
			curPath, curAt = p, bi
			// stores into the request
			if st, ok := ins.(*ssa.Store); ok && iAlloc != nil {
				root, _ := accessPath(st.Addr)
				if root == ssa.Value(iAlloc) && st.Val != ssa.Value(iParam) {
					fsR2.add("same-intent", "the request value is modified inside doIntentRequestChecks (approved and forwarded intents may differ)", ins, p)
				}
			}
			call, ok := ins.(*ssa.Call)
			if !ok {
				return true
			}
			switch {
			case fieldCall(call, fCheck):
				if len(call.Call.Args) == 2 && isI(call.Call.Args[0]) {
					if p.Nilness(call, last) == isNil {
						approved = true
					}
				} else {
					fsR2.add("same-intent", "checkIntent is called on something other than the received request", ins, p)
				}
			case fieldCall(call, fSetup):
				if len(call.Call.Args) == 2 {
					mc, _ := strip(call.Call.Args[1]).(*ssa.MakeClosure)
					ev := errResultOf(call)
					if mc == nil {
						fs.add("approve", "setUpTargetConn is given a callback the checker cannot see into", ins, p)
					} else {
						ci := summarise(mc)
						if ci.answers > 0 {
							fsR3.add("one-answer", "the handshake callback writes an answer to the delegate itself; the outer function answers again (two answers for one request)", ins, p)
						}
						if !ci.approves {
							fs.add("approve", "first request: "+ci.why, ins, p)
						} else if ev != nil && p.Nilness(ev, last) == isNil {
							approved = true
						}
					}
				}
			case calleeID(call) == wic:
				forwards++
				if len(call.Call.Args) == 2 {
					if !endsInField(call.Call.Args[0], fTarget, false) {
						fsR2.add("same-intent", "the intent is forwarded on a connection other than p.targetConn", ins, p)
					}
					if !isI(call.Call.Args[1]) {
						fsR2.add("same-intent", "the forwarded intent is not the received request value", ins, p)
					}
				}
				if !approved {
					fs.add("approve", "the intent is forwarded to the target on a path where the principal's checkIntent did not return nil for it (result discarded, not tested, or not called)", ins, p)
				}
			case calleeID(call) == wden || calleeID(call) == wconf:
				if len(call.Call.Args) >= 1 && endsInField(call.Call.Args[0], fDelegate, false) {
					answers++
					if calleeID(call) == wconf {
						confCall = call
					}
				}
			case calleeID(call) == rcod:
				rcodCall = call
			}
			return true
		})
		if p.Returns() != nil && answers != 1 {
			fsR3.add("one-answer", fmt.Sprintf("a path through doIntentRequestChecks writes %d answers to the delegate (exactly one required)", answers), p.Exit(), p)
		}
		if confCall != nil {
			okc := false
			if rcodCall != nil {
				if ev := errResultOf(rcodCall); ev != nil && p.Nilness(ev, last) == isNil {
					// MsgType != IntentDenied
					for k, v := range p.FactsAt(last) {
						if k.op == token.EQL && k.y != nil && !v {
							if n, isC := constInt(k.y); isC && n == intentDeniedConst(P) && isMsgType(k.x) {
								okc = true
							}
							if n, isC := constInt(k.x); isC && n == intentDeniedConst(P) && isMsgType(k.y) {
								okc = true
							}
						}
					}
				}
			}
			if !okc {
				fsR4.add("confirm", "the delegate is sent a confirmation on a path where the target's answer was not read successfully or was not found different from IntentDenied", confCall, p)
			}
		}
	})
	if ok {
		fs.report(c, "C06.R1", name, []string{"approve"}, P.Pos(fn.Pos()), fmt.Sprintf("approval dominates every forward (%d paths)", paths))
		fsR2.report(c, "C06.R2", name, []string{"same-intent"}, P.Pos(fn.Pos()), "request forwarded unmodified on targetConn")
		fsR3.report(c, "C06.R3", name, []string{"one-answer"}, P.Pos(fn.Pos()), "exactly one answer on every path")
		fsR4.report(c, "C06.R4", name, []string{"confirm"}, P.Pos(fn.Pos()), "confirmation only after a successfully read non-denial")
		c.Floor("C06.R1", "forward sites on paths of doIntentRequestChecks", forwards, 1)
	}

	c06Request(c)
	c06NoDeadline(c)
	c06Serialise(c)
	c06Hopclient(c)
	c06ReadConf(c)
	c06Target(c)
}

var intentDeniedCache int64 = -1

// intentDeniedConst reads the value of the constant authgrants.IntentDenied.
func intentDeniedConst(P *Program) int64 {
	if intentDeniedCache >= 0 {
		return intentDeniedCache
	}
	sp := P.Pkg("authgrants")
	if sp != nil {
		if cst, ok := sp.Pkg.Scope().Lookup("IntentDenied").(*types.Const); ok {
			if v, ok := constantInt64(cst); ok {
				intentDeniedCache = v
				return v
			}
		}
	}
	return -2
}

func isMsgType(v ssa.Value) bool {
	f := lastField(v)
	return f != nil && f.Name() == "MsgType"
}

// WriteIntentCommunication must put its parameter, unchanged, into the message it writes.
func c06Serialise(c *Ctx) {
	P := c.P
	fn := P.Func("authgrants", "WriteIntentCommunication")
	fIntent := P.Field("authgrants", "MessageData", "Intent")
	if fn == nil || fIntent == nil {
		c.Undecided("C06.R2", "authgrants.WriteIntentCommunication", "function or field not found")
		return
	}
	c.Analysed(FuncName(fn))
	stored, other := false, false
	eachInstr(fn, func(ins ssa.Instruction) {
		if st, ok := ins.(*ssa.Store); ok && endsInField(st.Addr, fIntent, false) {
			if paramIndex(fn, st.Val) == 1 {
				stored = true
			} else {
				other = true
			}
		}
	})
	wrote := len(callSitesIn(fn, false, hopID("authgrants", "AgMessage", "WriteTo"))) > 0
	c.Check(stored && !other && wrote, "C06.R2", FuncName(fn)+"#payload", P.Pos(fn.Pos()), "message payload is the parameter, written with AgMessage.WriteTo",
		"WriteIntentCommunication does not serialise exactly its intent parameter")
}

// hopclient: the callback becomes the handshake's AddVerifyCallback and the handshake error is fatal.
func c06Hopclient(c *Ctx) {
	P := c.P
	fn := P.Func("hopclient", "(*HopClient).setupTargetClient")
	fCb := P.Field("transport", "VerifyConfig", "AddVerifyCallback")
	if fn == nil || fCb == nil {
		c.Undecided("C06.R1", "hopclient.(*HopClient).setupTargetClient", "function or field not found")
		return
	}
	name := FuncName(fn)
	c.Analysed(name)
	cbIdx := -1
	for i, prm := range fn.Params {
		if nt, ok := prm.Type().(*types.Named); ok && nt.Obj().Name() == "AdditionalVerifyCallback" {
			cbIdx = i
		}
	}
	fs := newFailSet()
	succ := 0
	hsID := hopID("transport", "Client", "Handshake")
	ok := walkAll(c, "C06.R1", fn, func(p *Path) {
		if !isSuccess(p) {
			return
		}
		succ++
		last := len(p.Blocks) - 1
		installed, shook := false, false
		p.ForEach(func(i int, ins ssa.Instruction) bool {
			if st, ok := ins.(*ssa.Store); ok && endsInField(st.Addr, fCb, false) {
				v := st.Val
				for k := 0; k < 4; k++ {
					if cv, ok := v.(*ssa.ChangeType); ok {
						v = cv.X
					} else if cv, ok := v.(*ssa.Convert); ok {
						v = cv.X
					}
				}
				if paramIndex(fn, v) == cbIdx && cbIdx >= 0 {
					installed = true
				} else {
					installed = false
				}
			}
			if call, ok := ins.(*ssa.Call); ok && calleeID(call) == hsID {
				if !installed {
					fs.add("install", "the target handshake runs without the principal's approval callback installed as AddVerifyCallback", ins, p)
				}
				if ev := errResultOf(call); ev != nil && p.Nilness(ev, last) == isNil {
					shook = true
				}
			}
			return true
		})
		if !shook {
			fs.add("handshake-fatal", "setupTargetClient succeeds on a path where the target handshake (which runs the approval callback) did not return nil", p.Exit(), p)
		}
	})
	if ok {
		fs.report(c, "C06.R1", name, []string{"install", "handshake-fatal"}, P.Pos(fn.Pos()), fmt.Sprintf("holds on all %d success paths", succ))
		c.Floor("C06.R1", "success paths of setupTargetClient", succ, 1)
	}
}

func c06ReadConf(c *Ctx) {
	P := c.P
	fn := P.Func("authgrants", "ReadConfOrDenial")
	if fn == nil {
		c.Undecided("C06.R4", "authgrants.ReadConfOrDenial", "function not found")
		return
	}
	name := FuncName(fn)
	c.Analysed(name)
	confV, denV := int64(-3), intentDeniedConst(P)
	if cst, ok := P.Pkg("authgrants").Pkg.Scope().Lookup("IntentConfirmation").(*types.Const); ok {
		confV, _ = constantInt64(cst)
	}
	fs := newFailSet()
	succ := 0
	ok := walkAll(c, "C06.R4", fn, func(p *Path) {
		if !isSuccess(p) {
			return
		}
		succ++
		for _, sc := range swallowedErrors(p, nil) {
			fs.add("types", "ReadConfOrDenial succeeds although "+describeCall(P, sc)+" failed", p.Exit(), p)
		}
		okType := false
		for k, v := range p.FactsAt(len(p.Blocks) - 1) {
			if k.op == token.EQL && k.y != nil && v {
				for _, pair := range [][2]ssa.Value{{k.x, k.y}, {k.y, k.x}} {
					if n, isC := constInt(pair[1]); isC && (n == confV || n == denV) && (isMsgType(pair[0]) || isMsgType(p.Resolve(pair[0], len(p.Blocks)-1))) {
						okType = true // (a test made in an inlined predicate speaks about its parameter: mapped back to the argument)
					}
				}
			}
		}
		if !okType {
			fs.add("types", "ReadConfOrDenial succeeds for a message that was not found to be IntentDenied or IntentConfirmation", p.Exit(), p)
		}
	})
	if ok {
		fs.report(c, "C06.R4", name, []string{"types"}, P.Pos(fn.Pos()), fmt.Sprintf("only Denied/Confirmation accepted (%d success paths)", succ))
	}
}

func c06Target(c *Ctx) {
	P := c.P
	fn := P.Func("authgrants", "(*targetInstance).handleIntentCommunication")
	fCheck := P.Field("authgrants", "targetInstance", "checkIntent")
	fAdd := P.Field("authgrants", "targetInstance", "addAuthGrant")
	fConn := P.Field("authgrants", "targetInstance", "principalConn")
	if fn == nil || fCheck == nil || fAdd == nil || fConn == nil {
		c.Undecided("C06.R4", "authgrants.(*targetInstance).handleIntentCommunication", "function or fields not found")
		return
	}
	name := FuncName(fn)
	c.Analysed(name)
	wden := hopID("authgrants", "", "WriteIntentDenied")
	wconf := hopID("authgrants", "", "WriteIntentConfirmation")
	ric := hopID("authgrants", "", "ReadIntentCommunication")
	fs, fsOne := newFailSet(), newFailSet()
	confs := 0
	ok := walkAll(c, "C06.R4", fn, func(p *Path) {
		last := len(p.Blocks) - 1
		answers := 0
		readOK := false
		checked, added := false, false
		var readCall *ssa.Call
		p.ForEach(func(i int, ins ssa.Instruction) bool {
			call, ok := ins.(*ssa.Call)
			if !ok {
				return true
			}
			switch {
			case calleeID(call) == ric:
				readCall = call
				if ev := errResultOf(call); ev != nil && p.Nilness(ev, last) == isNil {
					readOK = true
				}
			case fieldCall(call, fCheck):
				// argument must be the intent just read
				if readCall != nil && len(call.Call.Args) == 2 {
					src, _ := fromCall(p.Deref(call.Call.Args[0], i))
					if src != readCall {
						fs.add("target-confirm", "the target checks an intent other than the one it just read", ins, p)
					}
				}
				if p.Nilness(call, last) == isNil {
					checked = true
				}
			case fieldCall(call, fAdd):
				if p.Nilness(call, last) == isNil {
					added = true
				}
			case calleeID(call) == wden || calleeID(call) == wconf:
				if len(call.Call.Args) >= 1 && endsInField(call.Call.Args[0], fConn, false) {
					answers++
				}
				if calleeID(call) == wconf {
					confs++
					if !(checked && added) {
						fs.add("target-confirm", "the target confirms a grant on a path where checkIntent or addAuthGrant did not return nil (grant not accepted or not stored)", ins, p)
					}
				}
			}
			return true
		})
		if readOK && p.Returns() != nil && answers != 1 {
			fsOne.add("target-one-answer", fmt.Sprintf("the target writes %d answers for one intent communication (exactly one required)", answers), p.Exit(), p)
		}
		if !readOK && answers != 0 {
			fsOne.add("target-one-answer", "the target answers although no intent communication was read", p.Exit(), p)
		}
	})
	if ok {
		fs.report(c, "C06.R4", name, []string{"target-confirm"}, P.Pos(fn.Pos()), "confirmation only after checkIntent==nil and addAuthGrant==nil")
		fsOne.report(c, "C06.R3", name, []string{"target-one-answer"}, P.Pos(fn.Pos()), "exactly one answer per communication read")
		c.Floor("C06.R4", "confirmation sites on paths of handleIntentCommunication", confs, 1)
	}
	// HopServer.AddAuthGrant: nil path stores the grant and the key of that intent
	ag := P.Func("hopserver", "(*HopServer).AddAuthGrant")
	if ag == nil {
		c.Undecided("C06.R4", "hopserver.(*HopServer).AddAuthGrant", "function not found")
		return
	}
	c.Analysed(FuncName(ag))
	fs3 := newFailSet()
	succ := 0
	fPub := P.Field("certs", "Certificate", "PublicKey")
	ok = walkAll(c, "C06.R4", ag, func(p *Path) {
		if !isSuccess(p) {
			return
		}
		succ++
		grant, key := false, false
		for _, pc := range callsOnPath(p) {
			args := callArgs(&pc.call.Call)
			switch calleeID(pc.call) {
			case hopID("authgrants", "AuthgrantMapSync", "AddAuthGrant"):
				if len(args) >= 2 && paramIndex(ag, p.Resolve(args[1], pc.at)) == 1 {
					grant = true
				}
			case hopID("authkeys", "SyncAuthKeySet", "AddKey"):
				if len(args) == 2 {
					root, _ := accessPath(p.Deref(args[1], pc.at))
					if paramIndex(ag, p.Resolve(root, pc.at)) == 1 && endsInField(p.Deref(args[1], pc.at), fPub, false) {
						key = true
					}
				}
			}
		}
		if !grant || !key {
			fs3.add("stored", "AddAuthGrant returns nil on a path that does not store both the grant and the delegate key of that intent (a confirmed grant would be unusable or a different key trusted)", p.Exit(), p)
		}
	})
	if ok {
		fs3.report(c, "C06.R4", FuncName(ag), []string{"stored"}, P.Pos(ag.Pos()), fmt.Sprintf("grant and key stored on all %d nil paths", succ))
	}
}

// Answers on the target connection are paired with requests purely by order and
// the connection is reused after a failed read. That is only sound while a read
// of the target's answer cannot give up early: a read deadline on targetConn
// would let a late answer be taken for the answer to the next request.
func c06NoDeadline(c *Ctx) {
	P := c.P
	c.Rule("C06.R5", "request/answer pairing on the reused target connection: no deadline is armed on p.targetConn anywhere in the principal (a timed-out read would leave a late answer in the stream to be attributed to the next request) (E4 who-may-call)")
	fTarget := P.Field("authgrants", "principalInstance", "targetConn")
	if fTarget == nil {
		c.Undecided("C06.R5", "authgrants.principalInstance.targetConn", "field not found")
		return
	}
	n := 0
	bad := false
	for _, f := range P.ModuleFuncs("authgrants") {
		eachInstr(f, func(ins ssa.Instruction) {
			call, ok := ins.(*ssa.Call)
			if !ok {
				return
			}
			fn := calleeFunc(&call.Call)
			if fn == nil {
				return
			}
			args := callArgs(&call.Call)
			if len(args) == 0 || !endsInField(args[0], fTarget, false) {
				return
			}
			n++
			switch fn.Name() {
			case "SetDeadline", "SetReadDeadline":
				bad = true
				c.Fail("C06.R5", "deadline:targetConn@"+FuncName(f), P.InstrPos(call), "a read deadline is armed on the principal's target connection, which is reused for later requests and pairs answers with requests only by order: after a timeout the late answer to request N is read as the answer to request N+1 (a denied intent can be confirmed to the delegate)")
			}
		})
	}
	if !bad {
		c.OK("C06.R5", "deadline:targetConn", "-", fmt.Sprintf("%d method calls on p.targetConn, none arms a read deadline", n))
	}
}

// c06Request: the principal's request reader. The stream is not framed, so a request that
// fails to decode leaves its tail unread: the only sound reaction is to stop.
func c06Request(c *Ctx) {
	P := c.P
	rir := hopID("authgrants", "", "ReadIntentRequest")
	wden := hopID("authgrants", "", "WriteIntentDenied")
	wconf := hopID("authgrants", "", "WriteIntentConfirmation")
	chk := hopID("authgrants", "principalInstance", "doIntentRequestChecks")
	chkFn := P.Func("authgrants", "(*principalInstance).doIntentRequestChecks")
	fDel := P.Field("authgrants", "principalInstance", "delegateConn")
	// the request reader: whichever function of the principal reads requests from the delegate connection
	var readers []*ssa.Function
	for _, f := range P.ModuleFuncs("authgrants") {
		for _, cs := range callSitesIn(f, false, rir) {
			if a := cs.Common().Args; len(a) == 1 && fDel != nil && endsInField(a[0], fDel, false) {
				readers = append(readers, f)
				break
			}
		}
	}
	if len(readers) == 0 {
		c.Undecided("C06.R3", "authgrants: reader of intent requests", "no function reads intent requests from principalInstance.delegateConn")
		return
	}
	nRead := 0
	for _, fn := range readers {
		name := FuncName(fn)
		c.Analysed(name)
		fs := newFailSet()
		type ev struct {
			kind byte // 'R' read, 'C' hand-over, 'A' direct answer
			call *ssa.Call
			at   int
		}
		ok := walkAllOpts(c, "C06.R3", fn, PathOpts{MaxVisits: 2, EmitTruncated: true, Inline: func(root, g *ssa.Function) bool { return g != chkFn && localHelper(root, g) }}, func(p *Path) {
			var evs []ev
			p.ForEach(func(i int, ins ssa.Instruction) bool {
				call, ok := ins.(*ssa.Call)
				if !ok {
					return true
				}
				switch calleeID(call) {
				case rir:
					evs = append(evs, ev{'R', call, i})
				case chk:
					evs = append(evs, ev{'C', call, i})
				case wden, wconf:
					evs = append(evs, ev{'A', call, i})
				}
				return true
			})
			last := len(p.Blocks) - 1
			for k, e := range evs {
				if e.kind != 'R' {
					if k == 0 || (func() bool {
						for _, q := range evs[:k] {
							if q.kind == 'R' {
								return false
							}
						}
						return true
					})() {
						fs.add("request-read", "an answer is produced on a path that read no request", e.call, p)
					}
					continue
				}
				nRead++
				// this request's events, up to the next read
				end := len(evs)
				for q := k + 1; q < len(evs); q++ {
					if evs[q].kind == 'R' {
						end = q
						break
					}
				}
				// decode status as known where the next event happens (facts of this iteration still hold there)
				at := last
				if k+1 < len(evs) {
					at = evs[k+1].at
				}
				errV := errResultOf(e.call)
				if errV == nil {
					continue
				}
				switch p.Nilness(errV, at) {
				case isNil:
					checks, answers := 0, 0
					var chkCall *ssa.Call
					for _, q := range evs[k+1 : end] {
						if q.kind == 'C' {
							checks++
							chkCall = q.call
						} else {
							answers++
						}
					}
					complete := end < len(evs) || (!p.Truncated && p.Returns() != nil)
					if complete && (checks != 1 || answers != 0) {
						fs.add("request-read", fmt.Sprintf("a decoded request is handed to doIntentRequestChecks %d times and answered %d times directly (exactly one hand-over required)", checks, answers), p.Exit(), p)
					} else if chkCall != nil {
						if end < len(evs) {
							// the conversation goes on only if handling the request did not fail
							if p.Nilness(chkCall, evs[end].at) != isNil {
								fs.add("request-read", "another request is read although doIntentRequestChecks was not found to have returned nil (a failed answer would not end the conversation)", evs[end].call, p)
							}
						} else if r := p.Returns(); r != nil && !p.Truncated && len(r.Results) > 0 {
							if p.Resolve(r.Results[len(r.Results)-1], last) != ssa.Value(chkCall) && p.Nilness(chkCall, last) != isNil {
								fs.add("request-read", "the result of doIntentRequestChecks is not what "+name+" returns (a failed answer would not end the conversation)", p.Exit(), p)
							}
						}
					}
				case nonNil:
					if end > k+1 {
						fs.add("decode-error-ends", "a request that failed to decode is answered: the stream is not framed, so the unread tail of that request is then parsed as further requests, each producing another answer (or a confirmation for bytes the principal never approved as a request)", evs[k+1].call, p)
					}
					if end < len(evs) {
						fs.add("decode-error-ends", "after a request failed to decode another one is read from the same unframed stream (from the middle of a message)", evs[end].call, p)
					} else if !p.Truncated {
						if p.Returns() == nil {
							continue
						}
						if errorResultIndex(fn.Signature) >= 0 && errReturnClass(p) != nonNil {
							fs.add("decode-error-ends", name+" does not return an error when the request failed to decode: its caller keeps reading the same unframed stream from the middle of a message", p.Exit(), p)
						}
					} else {
						fs.add("decode-error-ends", "after a request failed to decode the reader loops instead of ending the conversation", p.Exit(), p)
					}
				}
			}
		})
		if ok {
			fs.report(c, "C06.R3", name, []string{"request-read", "decode-error-ends"}, P.Pos(fn.Pos()), "decoded requests are handled once; a decode error ends the conversation without an answer")
		}
	}
	c.Floor("C06.R3", "request reads on enumerated paths of the request reader", nRead, 2)
	if P.Func("authgrants", "(*principalInstance).handleIntentRequest") == nil {
		return // the reader is the loop itself: covered above
	}
	// run(): leaves its loop when handleIntentRequest fails
	run := P.Func("authgrants", "(*principalInstance).run")
	if run == nil {
		c.Undecided("C06.R3", "authgrants.(*principalInstance).run", "function not found")
		return
	}
	hid := hopID("authgrants", "principalInstance", "handleIntentRequest")
	bad := ""
	nCalls := 0
	for _, cs := range callSitesIn(run, false, hid) {
		call, ok := cs.(*ssa.Call)
		if !ok {
			continue
		}
		nCalls++
		// the block reached when the result is non-nil must not lead back to the call
		found := false
		for _, b := range run.Blocks {
			t, ok := b.Instrs[len(b.Instrs)-1].(*ssa.If)
			if !ok {
				continue
			}
			key, pol := normCond(t.Cond)
			if key.op != token.EQL || key.y != nil || p06src(key.x) != ssa.Value(call) {
				continue
			}
			found = true
			// key: x == nil with polarity pol; the non-nil successor:
			nonNilSucc := b.Succs[1]
			if !pol {
				nonNilSucc = b.Succs[0]
			}
			if blockReaches(nonNilSucc, call.Block()) {
				bad = P.InstrPos(call)
			}
		}
		if !found {
			bad = P.InstrPos(call) + " (result not tested)"
		}
	}
	c.Check(bad == "" && nCalls > 0, "C06.R3", FuncName(run)+"#stops-on-error", P.Pos(run.Pos()), "the request loop ends when handling a request fails", "run() can call handleIntentRequest again after it returned an error ("+bad+"): the conversation continues on a stream whose position is unknown")
}

func p06src(v ssa.Value) ssa.Value {
	if s := loadSource(v); s != nil {
		return s
	}
	return v
}

func blockReaches(from, to *ssa.BasicBlock) bool {
	seen := map[*ssa.BasicBlock]bool{}
	var dfs func(b *ssa.BasicBlock) bool
	dfs = func(b *ssa.BasicBlock) bool {
		if b == to {
			return true
		}
		if seen[b] {
			return false
		}
		seen[b] = true
		for _, s := range b.Succs {
			if dfs(s) {
				return true
			}
		}
		return false
	}
	return dfs(from)
}

// c06R6: a recovered panic is not an approval. The principal forwards an intent when the approval
// callback returned a nil error. A deferred recover() in a function on that decision path which lets the
// function return its zero results turns "the callback crashed on delegate-chosen data" into "approved".
// Rule: in the packages where authorization decisions are made, every function with an error result that
// defers a recover() must, in the recovering branch, store a non-nil error into its (named) error result.
// There is no such construct on the pinned tree; the rule's mutants are its positive control.
func c06R6(c *Ctx) {
	P := c.P
	const rule = "C06.R6"
	c.Rule(rule, "a recovered panic is not an approval: every function with an error result in authgrants / hopserver / hopclient that defers a recover() stores a non-nil error into its named error result in the recovering branch (otherwise a callback that panics on delegate-chosen data counts as having accepted) (def-use over deferred closures)")
	n := 0
	for _, f := range P.ModuleFuncs("authgrants", "hopserver", "hopclient") {
		if f.Blocks == nil {
			continue
		}
		eachInstr(f, func(ins ssa.Instruction) {
			call, ok := ins.(*ssa.Call)
			if !ok {
				return
			}
			b, ok := call.Call.Value.(*ssa.Builtin)
			if !ok || b.Name() != "recover" {
				return
			}
			// f is the deferred closure (or a function called from it); its parent is the protected function
			parent := f.Parent()
			if parent == nil {
				return
			}
			sig := parent.Signature
			if sig.Results().Len() == 0 || !isErrorType(sig.Results().At(sig.Results().Len()-1).Type()) {
				return
			}
			n++
			cons := fmt.Sprintf("%s#recover%d", FuncName(parent), n)
			// a store of a non-nil error through a free variable, in a block reached only when recover() != nil
			okv := false
			eachInstr(f, func(gi ssa.Instruction) {
				st, ok := gi.(*ssa.Store)
				if !ok || !isErrorType(st.Val.Type()) || isNilConst(st.Val) {
					return
				}
				if _, isFree := st.Addr.(*ssa.FreeVar); !isFree {
					return
				}
				// dominated by the true edge of recover() != nil
				for _, blk := range f.Blocks {
					iff, ok := blk.Instrs[len(blk.Instrs)-1].(*ssa.If)
					if !ok {
						continue
					}
					key, pol := normCond(iff.Cond)
					if key.op != token.EQL || key.y != nil || strip(key.x) != ssa.Value(call) {
						continue
					}
					// key: recover() == nil holds == pol; the recovering successor is where it is false
					rec := blk.Succs[0]
					if pol {
						rec = blk.Succs[1]
					}
					if len(rec.Preds) == 1 && rec.Dominates(st.Block()) {
						okv = true
					}
				}
			})
			c.Check(okv, rule, cons, P.InstrPos(call), "the recovering branch reports an error", "a deferred recover() lets the function return a nil error after a panic: a decision callback that crashes on data chosen by the other side is treated as having accepted")
		})
	}
	if n == 0 {
		c.OK(rule, "recover:none", "-", "no deferred recover() in an error-returning function of authgrants / hopserver / hopclient")
	}
}
