package main

// Check context: obligations, verdicts, known findings, evidence and reports.

import (
	"encoding/json"
	"fmt"
	"os"
	"path/filepath"
	"sort"
	"strings"
	"time"
)

const (
	vOK        = "ok"
	vViolation = "violation"
	vKnown     = "known-finding"
	vUndecided = "undecided"
)

// Ob is one evaluated obligation (rule instance).
type Ob struct {
	Rule      string   `json:"rule"`
	Construct string   `json:"construct"` // stable key: function + role, never a line number
	Site      string   `json:"site"`      // file:line
	Verdict   string   `json:"verdict"`
	Detail    string   `json:"detail,omitempty"`
	Path      []string `json:"path,omitempty"`
}

// KnownFinding is an entry of /verif/known_findings.json (committed, read-only at run time).
type KnownFinding struct {
	Property  string `json:"property"`
	Rule      string `json:"rule"`
	Construct string `json:"construct"`
	What      string `json:"what"`
	Status    string `json:"status"` // "known" | "fixed"
	Commit    string `json:"commit,omitempty"`
}

type Ctx struct {
	Prop     string
	Tier     string
	P        *Program
	VerifDir string
	Obs      []Ob
	Known    []KnownFinding

	explanation string
	decided     []string
	notDecided  []string
	assumptions []string
	trusted     []string
	analysed    map[string]bool
	ruleDoc     map[string]string
	extra       map[string]interface{}
	floors      []floor
	start       time.Time
}

type floor struct {
	rule, what string
	min, got   int
}

func NewCtx(prop, tier, verifDir string, p *Program) *Ctx {
	c := &Ctx{Prop: prop, Tier: tier, P: p, VerifDir: verifDir, analysed: map[string]bool{},
		ruleDoc: map[string]string{}, extra: map[string]interface{}{}, start: time.Now()}
	c.loadKnown()
	curProgram = p
	return c
}

func (c *Ctx) loadKnown() {
	b, err := os.ReadFile(filepath.Join(c.VerifDir, "known_findings.json"))
	if err != nil {
		return
	}
	var f struct {
		Findings []KnownFinding `json:"findings"`
	}
	if err := json.Unmarshal(b, &f); err != nil {
		fmt.Fprintf(os.Stderr, "known_findings.json: %v\n", err)
		os.Exit(2)
	}
	c.Known = f.Findings
}

// Rule registers the one-line documentation of a rule (shown in evidence).
func (c *Ctx) Rule(id, doc string) { c.ruleDoc[id] = doc }

func (c *Ctx) Analysed(fn string) { c.analysed[fn] = true }

func (c *Ctx) Assume(s string)  { c.assumptions = append(c.assumptions, s) }
func (c *Ctx) Trust(s string)   { c.trusted = append(c.trusted, s) }
func (c *Ctx) Decides(s string) { c.decided = append(c.decided, s) }
func (c *Ctx) NotDecided(s string) {
	c.notDecided = append(c.notDecided, s)
}

func (c *Ctx) OK(rule, construct, site, detail string) {
	c.Obs = append(c.Obs, Ob{Rule: rule, Construct: construct, Site: site, Verdict: vOK, Detail: detail})
}

// Fail records a failed obligation; it becomes a KNOWN-FINDING if the
// committed file lists exactly this (property, rule, construct) as "known".
func (c *Ctx) Fail(rule, construct, site, detail string, path ...string) {
	v := vViolation
	for _, k := range c.Known {
		if k.Status == "known" && k.Property == c.Prop && k.Rule == rule && k.Construct == construct {
			v = vKnown
		}
	}
	c.Obs = append(c.Obs, Ob{Rule: rule, Construct: construct, Site: site, Verdict: v, Detail: detail, Path: path})
}

func (c *Ctx) Undecided(rule, construct, detail string) {
	c.Obs = append(c.Obs, Ob{Rule: rule, Construct: construct, Site: "-", Verdict: vUndecided, Detail: detail})
}

// Check is a convenience: OK if cond else Fail.
func (c *Ctx) Check(cond bool, rule, construct, site, okDetail, failDetail string, path ...string) bool {
	if cond {
		c.OK(rule, construct, site, okDetail)
	} else {
		c.Fail(rule, construct, site, failDetail, path...)
	}
	return cond
}

// Floor demands that a role query matched at least min instances (anti-vacuity).
func (c *Ctx) Floor(rule, what string, got, min int) {
	c.floors = append(c.floors, floor{rule, what, min, got})
	if got < min {
		c.Fail(rule, "floor:"+what, "-", fmt.Sprintf("role query %q matched %d instance(s), at least %d confirmed by reading: the checked construct disappeared", what, got, min))
	} else {
		c.OK(rule, "floor:"+what, "-", fmt.Sprintf("%d instance(s) >= floor %d", got, min))
	}
}

type evidence struct {
	PropertyID  string                 `json:"property_id"`
	Tier        string                 `json:"tier"`
	Seed        int                    `json:"seed"`
	Level       string                 `json:"level"`
	Coverage    map[string]interface{} `json:"coverage"`
	Assumptions []string               `json:"assumptions"`
	WallS       float64                `json:"wall_s"`
	Violations  int                    `json:"violations"`
}

// Finish prints the summary, writes evidence and report, and returns the exit code.
func (c *Ctx) Finish() int {
	sort.SliceStable(c.Obs, func(i, j int) bool {
		if c.Obs[i].Rule != c.Obs[j].Rule {
			return c.Obs[i].Rule < c.Obs[j].Rule
		}
		return false
	})
	flushAnchors()
	for _, r := range renamedAnchors() {
		fmt.Println("ANCHOR " + r)
		c.Assume("anchor re-identified: " + r)
	}
	if os.Getenv("HOPVERIF_DUMP") != "" {
		for _, o := range c.Obs {
			fmt.Printf("OB %s %s %s @%s -- %s\n", o.Verdict, o.Rule, o.Construct, o.Site, o.Detail)
		}
	}
	perRule := map[string]*[4]int{}
	var rules []string
	distinct := map[string]bool{}
	nViol, nKnown, nUndec, nOK := 0, 0, 0, 0
	for _, o := range c.Obs {
		r := perRule[o.Rule]
		if r == nil {
			r = &[4]int{}
			perRule[o.Rule] = r
			rules = append(rules, o.Rule)
		}
		switch o.Verdict {
		case vOK:
			r[0]++
			nOK++
		case vViolation:
			r[1]++
			nViol++
		case vKnown:
			r[2]++
			nKnown++
		case vUndecided:
			r[3]++
			nUndec++
		}
		if !strings.HasPrefix(o.Construct, "floor:") {
			distinct[o.Rule+"|"+o.Construct] = true
		}
	}
	sort.Strings(rules)
	for _, r := range rules {
		x := perRule[r]
		fmt.Printf("%-8s obligations=%d ok=%d violations=%d known=%d undecided=%d  -- %s\n", r, x[0]+x[1]+x[2]+x[3], x[0], x[1], x[2], x[3], c.ruleDoc[r])
	}
	for _, o := range c.Obs {
		switch o.Verdict {
		case vKnown:
			fmt.Printf("KNOWN-FINDING: property=%s rule=%s construct=%s site=%s %s\n", c.Prop, o.Rule, o.Construct, o.Site, o.Detail)
		case vViolation:
			fmt.Printf("FAILED %s %s at %s: %s\n", o.Rule, o.Construct, o.Site, o.Detail)
			for _, s := range o.Path {
				fmt.Printf("    via %s\n", s)
			}
		case vUndecided:
			fmt.Printf("UNDECIDED property=%s rule=%s anchor=%s %s\n", c.Prop, o.Rule, o.Construct, o.Detail)
		}
	}

	// evidence
	var samples []interface{}
	seenRule := map[string]int{}
	for _, o := range c.Obs {
		if o.Verdict != vOK || seenRule[o.Rule] < 3 {
			samples = append(samples, o)
			seenRule[o.Rule]++
		}
		if len(samples) >= 60 {
			break
		}
	}
	var fns []string
	for f := range c.analysed {
		fns = append(fns, f)
	}
	sort.Strings(fns)
	ruleDocs := map[string]string{}
	for k, v := range c.ruleDoc {
		ruleDocs[k] = v
	}
	perRuleOut := map[string]map[string]int{}
	for r, x := range perRule {
		perRuleOut[r] = map[string]int{"ok": x[0], "violation": x[1], "known_finding": x[2], "undecided": x[3]}
	}
	var floors []map[string]interface{}
	for _, f := range c.floors {
		floors = append(floors, map[string]interface{}{"rule": f.rule, "role": f.what, "floor": f.min, "matched": f.got})
	}
	expl := c.explanation
	if expl == "" {
		expl = "Structural necessary conditions of " + c.Prop + " decided by static analysis of /repo's current source (go/packages + go/ssa + call graph); nothing is executed."
	}
	if len(c.decided) > 0 {
		expl += " DECIDED: " + strings.Join(c.decided, "; ") + "."
	}
	if len(c.notDecided) > 0 {
		expl += " NOT DECIDED (outside static reach, not claimed): " + strings.Join(c.notDecided, "; ") + "."
	}
	total := nOK + nViol + nKnown + nUndec
	cov := map[string]interface{}{
		"explanation":         expl,
		"obligations":         total,
		"discharged":          nOK,
		"known_findings":      nKnown,
		"undecided":           nUndec,
		"evaluations":         total,
		"distinct_nontrivial": len(distinct),
		"rule":                "one evaluation per (rule, construct) obligation extracted from the loaded program on this run; distinct = distinct (rule, construct) keys excluding vacuity floors; non-trivial = the role query matched a concrete construct in /repo",
		"samples":             samples,
		"rules":               ruleDocs,
		"per_rule":            perRuleOut,
		"instance_floors":     floors,
		"functions_analysed":  fns,
		"packages_loaded":     len(c.P.All),
		"module_packages":     len(c.P.Roots),
		"build_tags":          c.P.Tags,
		"trusted_base":        append([]string{"go/types, go/ssa, go/packages (x/tools v0.29.0)", "the Go toolchain's parser and type checker"}, c.trusted...),
		"checker_cmd":         fmt.Sprintf("bin/hopverif check --prop %s --tier %s", c.Prop, c.Tier),
		"exhaustive":          false,
	}
	for k, v := range c.extra {
		cov[k] = v
	}
	seed := 0
	fmt.Sscanf(os.Getenv("VERIF_SEED"), "%d", &seed)
	ev := evidence{PropertyID: c.Prop, Tier: c.Tier, Seed: seed, Level: "other", Coverage: cov,
		Assumptions: append([]string{"the loaded build configuration (linux/amd64, tags as listed) is the one that is deployed", "no pointer analysis: object identity is approximated by access paths and field-based who-may-write"}, c.assumptions...),
		WallS:       time.Since(c.start).Seconds(), Violations: nViol}
	os.MkdirAll(filepath.Join(c.VerifDir, "evidence"), 0o755)
	b, _ := json.MarshalIndent(ev, "", " ")
	if err := os.WriteFile(filepath.Join(c.VerifDir, "evidence", c.Prop+".json"), b, 0o644); err != nil {
		fmt.Fprintf(os.Stderr, "cannot write evidence: %v\n", err)
		return 2
	}

	if nViol > 0 {
		os.MkdirAll(filepath.Join(c.VerifDir, "reports"), 0o755)
		rp := filepath.Join(c.VerifDir, "reports", fmt.Sprintf("%s-%s.json", c.Prop, c.Tier))
		var bad []Ob
		for _, o := range c.Obs {
			if o.Verdict == vViolation {
				bad = append(bad, o)
			}
		}
		rb, _ := json.MarshalIndent(map[string]interface{}{"property": c.Prop, "tier": c.Tier, "repo": c.P.Repo, "violations": bad}, "", " ")
		os.WriteFile(rp, rb, 0o644)
		fmt.Printf("VIOLATION property=%s replay=%s\n", c.Prop, rp)
		return 1
	}
	if nUndec > 0 {
		return 2
	}
	fmt.Printf("PASS property=%s tier=%s obligations=%d known_findings=%d wall=%.1fs\n", c.Prop, c.Tier, total, nKnown, time.Since(c.start).Seconds())
	return 0
}
