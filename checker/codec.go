package main

// E6 — codec layout: wire-token sequences of stream writers and readers (C18.R2),
// field/offset tables of the frame headers (C18.R3), storage ownership of decoded
// byte fields (C18.R4).

import (
	"fmt"
	"go/token"
	"go/types"
	"sort"
	"strings"

	"golang.org/x/tools/go/ssa"
)

// ---------------------------------------------------------------- stream codecs

// streamPairs: writer / reader of the same encoding. Methods WriteTo/ReadFrom of one
// type pair up by receiver type; functions are listed here.
type streamPair struct {
	rel, writer, reader string
	token               string // nested-token name when called from another codec
}

var streamPairs = []streamPair{
	{"certs", "(*Certificate).WriteTo", "(*Certificate).ReadFrom", "Certificate"},
	{"certs", "(*IDChunk).WriteTo", "(*IDChunk).ReadFrom", "IDChunk"},
	{"certs", "(*Name).WriteTo", "(*Name).ReadFrom", "Name"},
	{"authgrants", "(*AgMessage).WriteTo", "(*AgMessage).ReadFrom", "AgMessage"},
	{"authgrants", "(*Intent).WriteTo", "(*Intent).ReadFrom", "Intent"},
	{"authgrants", "(*CommandGrantData).WriteTo", "(*CommandGrantData).ReadFrom", "CommandGrantData"},
	{"authgrants", "(*ShellGrantData).WriteTo", "(*ShellGrantData).ReadFrom", "ShellGrantData"},
	{"authgrants", "(*LocalPFGrantData).WriteTo", "(*LocalPFGrantData).ReadFrom", "LocalPFGrantData"},
	{"authgrants", "(*RemotePFGrantData).WriteTo", "(*RemotePFGrantData).ReadFrom", "RemotePFGrantData"},
	{"common", "WriteString", "ReadString", "String"},
	{"authgrants", "WriteUnreliableProxyID", "ReadUnreliableProxyID", "ProxyID"},
}

func isIface(t types.Type, pkg, name string) bool {
	n, ok := t.(*types.Named)
	return ok && n.Obj().Pkg() != nil && n.Obj().Pkg().Path() == pkg && n.Obj().Name() == name
}

// wireSize is encoding/binary's fixed size of a type (-1 if not fixed).
func wireSize(t types.Type) int64 {
	switch u := t.Underlying().(type) {
	case *types.Basic:
		switch u.Kind() {
		case types.Bool, types.Int8, types.Uint8:
			return 1
		case types.Int16, types.Uint16:
			return 2
		case types.Int32, types.Uint32, types.Float32:
			return 4
		case types.Int64, types.Uint64, types.Float64:
			return 8
		}
	case *types.Array:
		if e := wireSize(u.Elem()); e >= 0 {
			return e * u.Len()
		}
	case *types.Struct:
		var s int64
		for i := 0; i < u.NumFields(); i++ {
			e := wireSize(u.Field(i).Type())
			if e < 0 {
				return -1
			}
			s += e
		}
		return s
	}
	return -1
}

// byteViewLen: constant length of a []byte view (slice of an array, make with constant length), or -1.
func byteViewLen(v ssa.Value) int64 {
	v = strip(v)
	switch x := v.(type) {
	case *ssa.Slice:
		if x.Low == nil && x.High == nil {
			if n, ok := arrayLen(x.X.Type()); ok {
				return n
			}
			return byteViewLen(x.X)
		}
		lo := int64(0)
		if x.Low != nil {
			l, ok := constInt(x.Low)
			if !ok {
				return -1
			}
			lo = l
		}
		if x.High != nil {
			if h, ok := constInt(x.High); ok {
				return h - lo
			}
			return -1
		}
		if n, ok := arrayLen(x.X.Type()); ok {
			return n - lo
		}
		if n := byteViewLen(x.X); n >= 0 {
			return n - lo
		}
	case *ssa.MakeSlice:
		if n, ok := constInt(x.Len); ok {
			return n
		}
	}
	return -1
}

type codecSide struct {
	P       *Program
	fn      *ssa.Function
	writer  bool
	nested  map[string]string // callee funcID -> token
	streams map[ssa.Value]bool
}

// tokensOnPath extracts the wire tokens of one path.
func (cs *codecSide) tokensOnPath(p *Path) (toks []string, problems []string) {
	isStream := func(v ssa.Value, at int) bool {
		v = p.Resolve(strip(v), at)
		if cs.streams[v] {
			return true
		}
		// derived readers: io.TeeReader(r, _), io.LimitReader(r, _), bufio.NewReader(r)
		if call, _ := fromCall(v); call != nil {
			switch calleeID(call) {
			case "io.TeeReader", "io.LimitReader", "bufio.NewReader":
				a := p.Resolve(strip(call.Call.Args[0]), at)
				if cs.streams[a] {
					return true
				}
				if c2, _ := fromCall(a); c2 != nil && calleeID(c2) == "io.TeeReader" && cs.streams[p.Resolve(strip(c2.Call.Args[0]), at)] {
					return true
				}
			}
		}
		return false
	}
	fixedOrVar := func(v ssa.Value, at int) string {
		v = p.Deref(v, at)
		if n := byteViewLen(v); n >= 0 {
			return fmt.Sprintf("F%d", n)
		}
		return "V"
	}
	p.ForEach(func(i int, ins ssa.Instruction) bool {
		call, ok := ins.(*ssa.Call)
		if !ok {
			return true
		}
		cc := &call.Call
		if cc.IsInvoke() {
			if !isStream(cc.Value, i) {
				return true
			}
			switch cc.Method.Name() {
			case "Write":
				toks = append(toks, fixedOrVar(cc.Args[0], i))
			case "Read":
				toks = append(toks, fixedOrVar(cc.Args[0], i))
				problems = append(problems, fmt.Sprintf("%s: a bare Read may return fewer bytes than asked for; the decoder would mis-frame the rest", cs.P.InstrPos(ins)))
			default:
				problems = append(problems, fmt.Sprintf("%s: unrecognised use of the stream (%s)", cs.P.InstrPos(ins), cc.Method.Name()))
			}
			return true
		}
		if _, isB := cc.Value.(*ssa.Builtin); isB {
			return true
		}
		// which argument is the stream?
		sIdx := -1
		for k, a := range cc.Args {
			if isStream(a, i) {
				sIdx = k
			}
		}
		if sIdx < 0 {
			return true
		}
		id := calleeID(call)
		switch id {
		case "encoding/binary.Write":
			v := strip(cc.Args[2])
			if mi, ok := cc.Args[2].(*ssa.MakeInterface); ok {
				v = mi.X
			}
			if n := wireSize(v.Type()); n >= 0 {
				toks = append(toks, fmt.Sprintf("F%d", n))
			} else if sl, ok := v.Type().Underlying().(*types.Slice); ok && wireSize(sl.Elem()) >= 0 {
				toks = append(toks, "V")
			} else {
				problems = append(problems, fmt.Sprintf("%s: binary.Write of a value without a fixed wire size", cs.P.InstrPos(ins)))
			}
		case "encoding/binary.Read":
			v := cc.Args[2]
			if mi, ok := v.(*ssa.MakeInterface); ok {
				v = mi.X
			}
			if pt, ok := v.Type().Underlying().(*types.Pointer); ok && wireSize(pt.Elem()) >= 0 {
				toks = append(toks, fmt.Sprintf("F%d", wireSize(pt.Elem())))
			} else {
				problems = append(problems, fmt.Sprintf("%s: binary.Read into a value without a fixed wire size", cs.P.InstrPos(ins)))
			}
		case "io.ReadFull":
			toks = append(toks, fixedOrVar(cc.Args[1], i))
		case "io.ReadAtLeast":
			toks = append(toks, "V")
		case "io.CopyN":
			if sIdx == 1 {
				if n, ok := constInt(cc.Args[2]); ok {
					toks = append(toks, fmt.Sprintf("F%d", n))
				} else {
					toks = append(toks, "V")
				}
			}
		case "io.TeeReader", "io.LimitReader", "bufio.NewReader":
			// derives a stream: no bytes move
		case "io.Copy", "io.ReadAll":
			toks = append(toks, "REST")
		default:
			if t, ok := cs.nested[id]; ok {
				toks = append(toks, "N:"+t)
			} else if f := calleeFunc(cc); f != nil && (f.Name() == "WriteTo" || f.Name() == "ReadFrom") {
				toks = append(toks, "N:"+recvTypeName(f))
			} else if !p.InlinedCall(call) {
				// (a local helper the walker descended into contributes its own tokens)
				problems = append(problems, fmt.Sprintf("%s: the stream is handed to %s, whose layout is not modelled", cs.P.InstrPos(ins), id))
			}
		}
		return true
	})
	return
}

func recvTypeName(f *types.Func) string {
	sig := f.Type().(*types.Signature)
	if sig.Recv() == nil {
		return f.Name()
	}
	t := sig.Recv().Type()
	if p, ok := t.(*types.Pointer); ok {
		t = p.Elem()
	}
	if n, ok := t.(*types.Named); ok {
		return n.Obj().Name()
	}
	return t.String()
}

// normTokens merges adjacent fixed tokens and collapses repetitions of one nested token.
func normTokens(toks []string) string {
	var out []string
	fixed := int64(0)
	flush := func() {
		if fixed > 0 {
			out = append(out, fmt.Sprintf("F%d", fixed))
			fixed = 0
		}
	}
	for _, t := range toks {
		var n int64
		if _, err := fmt.Sscanf(t, "F%d", &n); err == nil && strings.HasPrefix(t, "F") {
			fixed += n
			continue
		}
		flush()
		if strings.HasPrefix(t, "N:") && len(out) > 0 && (out[len(out)-1] == t || out[len(out)-1] == t+"+") {
			out[len(out)-1] = t + "+"
			continue
		}
		out = append(out, t)
	}
	flush()
	if len(out) == 0 {
		return "(nothing)"
	}
	return strings.Join(out, " ")
}

func streamParam(fn *ssa.Function, writer bool) *ssa.Parameter {
	for _, p := range fn.Params {
		if writer && isIface(p.Type(), "io", "Writer") || !writer && isIface(p.Type(), "io", "Reader") {
			return p
		}
	}
	return nil
}

func c18Layout(c *Ctx) {
	P := c.P
	c.Rule("C18.R2", "layout agreement of the stream codecs: for each writer/reader pair the set of wire-token sequences over all success paths (fixed widths from the static types handed to binary.Write/Read, w.Write of arrays and literals, io.ReadFull into constant-length views; variable segments; nested codecs; adjacent fixed widths summed, loop repetitions collapsed) is the same on both sides; no bare Read, no unmodelled use of the stream (E1 paths + types)")
	nested := map[string]string{}
	type side struct{ fn *ssa.Function }
	for _, sp := range streamPairs {
		for _, n := range []string{sp.writer, sp.reader} {
			if fn := P.Func(sp.rel, n); fn != nil {
				if fo, ok := fn.Object().(*types.Func); ok {
					nested[funcID(fo)] = sp.token
				}
			}
		}
	}
	pairs, incomparable := 0, 0
	for _, sp := range streamPairs {
		w, r := P.Func(sp.rel, sp.writer), P.Func(sp.rel, sp.reader)
		cons := sp.rel + "." + sp.token
		if w == nil || r == nil {
			c.Undecided("C18.R2", cons, "writer or reader not found: "+sp.writer+" / "+sp.reader)
			continue
		}
		c.Analysed(FuncName(w))
		c.Analysed(FuncName(r))
		sets := [2]map[string]*Path{{}, {}}
		var problems []string
		okAll := true
		for k, fn := range []*ssa.Function{w, r} {
			sp := streamParam(fn, k == 0)
			if sp == nil {
				c.Undecided("C18.R2", cons, "no io.Writer / io.Reader parameter in "+FuncName(fn))
				okAll = false
				continue
			}
			cs := &codecSide{P: P, fn: fn, writer: k == 0, nested: nested, streams: map[ssa.Value]bool{sp: true}}
			if !walkAllOpts(c, "C18.R2", fn, PathOpts{MaxVisits: 3}, func(p *Path) {
				if !isSuccess(p) {
					return
				}
				toks, pr := cs.tokensOnPath(p)
				problems = append(problems, pr...)
				key := normTokens(toks) + pathDiscriminants(p)
				if sets[k][key] == nil {
					sets[k][key] = p
				}
			}) {
				okAll = false
			}
		}
		if !okAll {
			continue
		}
		pairs++
		sort.Strings(problems)
		// a bare Read is a defect in itself; any other use the extractor cannot model (widths that are
		// not static, the stream captured by a closure) makes the pair incomparable, not wrong
		bare, other := "", ""
		for _, pr := range problems {
			if strings.Contains(pr, "a bare Read") {
				bare = pr
			} else if other == "" {
				other = pr
			}
		}
		for _, fn := range []*ssa.Function{w, r} {
			if sp := streamParam(fn, fn == w); sp != nil && capturedByClosure(fn, sp) && other == "" {
				other = P.Pos(fn.Pos()) + ": the stream is captured by a function literal"
			}
		}
		if bare != "" {
			c.Fail("C18.R2", cons+"#stream-use", P.Pos(r.Pos()), bare)
		} else if other != "" {
			c.OK("C18.R2", cons+"#stream-use", P.Pos(r.Pos()), "layout not comparable by this rule ("+other+"); no verdict on this pair")
			c.OK("C18.R2", cons+"#layout", P.Pos(w.Pos()), "not compared (see #stream-use)")
			incomparable++
			continue
		} else {
			c.OK("C18.R2", cons+"#stream-use", P.Pos(r.Pos()), "every use of the stream is a modelled full read / write")
		}
		var onlyW, onlyR []string
		for k := range sets[0] {
			if !layoutMatched(k, sets[1]) {
				onlyW = append(onlyW, k)
			}
		}
		for k := range sets[1] {
			if !layoutMatched(k, sets[0]) {
				onlyR = append(onlyR, k)
			}
		}
		sort.Strings(onlyW)
		sort.Strings(onlyR)
		var all []string
		for k := range sets[0] {
			all = append(all, k)
		}
		sort.Strings(all)
		switch {
		case len(onlyW) > 0:
			c.Fail("C18.R2", cons+"#layout", P.Pos(w.Pos()), fmt.Sprintf("%s can emit the layout [%s], which no success path of %s reads (reader layouts: %s): the value does not round-trip", FuncName(w), onlyW[0], FuncName(r), strings.Join(keysOf(sets[1]), " | ")), pathTrace(P, sets[0][onlyW[0]])...)
		case len(onlyR) > 0:
			c.Fail("C18.R2", cons+"#layout", P.Pos(r.Pos()), fmt.Sprintf("%s can accept the layout [%s], which no success path of %s writes (writer layouts: %s): re-encoding what was parsed changes it", FuncName(r), onlyR[0], FuncName(w), strings.Join(keysOf(sets[0]), " | ")), pathTrace(P, sets[1][onlyR[0]])...)
		default:
			c.OK("C18.R2", cons+"#layout", P.Pos(w.Pos()), "both sides: "+strings.Join(all, " | "))
		}
	}
	c.Floor("C18.R2", "stream codec pairs compared", pairs-incomparable, 8)
}

// pathDiscriminants lists the field == constant tests that hold on the path (the case of
// a switch over a message / grant type), so that both sides must attach the same
// layout to the same discriminant value.
func pathDiscriminants(p *Path) string {
	var ds []string
	seen := map[string]bool{}
	for k, v := range p.FactsAt(len(p.Blocks) - 1) {
		if !v || k.op != token.EQL || k.y == nil {
			continue
		}
		for _, pr := range [][2]ssa.Value{{k.x, k.y}, {k.y, k.x}} {
			cst, ok := pr[1].(*ssa.Const)
			if !ok || cst.Value == nil {
				continue
			}
			if f := lastField(pr[0]); f != nil {
				d := f.Name() + "=" + cst.Value.ExactString()
				if !seen[d] {
					seen[d] = true
					ds = append(ds, d)
				}
			}
		}
	}
	if len(ds) == 0 {
		return ""
	}
	sort.Strings(ds)
	return " {" + strings.Join(ds, ",") + "}"
}

// layoutMatched: key = "layout {d1,d2}". The other side matches if it attaches the same
// layout to the same discriminants or, when it has no path for exactly these
// discriminants, on a less specific (default) path.
func layoutMatched(key string, other map[string]*Path) bool {
	lay, ds := splitKey(key)
	exact := false
	for k := range other {
		l2, d2 := splitKey(k)
		if sameSet(ds, d2) {
			exact = true
			if l2 == lay {
				return true
			}
		}
	}
	if exact {
		return false
	}
	for k := range other {
		l2, d2 := splitKey(k)
		if l2 == lay && subset(d2, ds) {
			return true
		}
	}
	return false
}

func splitKey(k string) (string, []string) {
	i := strings.Index(k, " {")
	if i < 0 {
		return k, nil
	}
	return k[:i], strings.Split(strings.TrimSuffix(k[i+2:], "}"), ",")
}

func subset(a, b []string) bool {
	for _, x := range a {
		found := false
		for _, y := range b {
			if x == y {
				found = true
			}
		}
		if !found {
			return false
		}
	}
	return true
}

func sameSet(a, b []string) bool { return subset(a, b) && subset(b, a) }

func keysOf(m map[string]*Path) []string {
	var out []string
	for k := range m {
		out = append(out, "["+k+"]")
	}
	sort.Strings(out)
	return out
}

// ---------------------------------------------------------------- full reads

// c18FullReads (C18.R3): a decoder that calls Read directly and throws the byte count
// away treats a short read as a full one: the field is cut and the rest of the
// message is mis-framed.
func c18FullReads(c *Ctx) {
	P := c.P
	c.Rule("C18.R3", "no short reads: in the packages that decode wire messages no call of a Read([]byte) (int, error) method discards the returned count (io.ReadFull / io.CopyN / binary.Read are the full-read idioms); a decoder that takes one Read for the whole field cuts the field and mis-frames the rest whenever the bytes arrive in pieces (def-use of the call result)")
	n := 0
	nFull := 0
	for _, fn := range pkgFuncs(P, true, "certs", "common", "userauth", "codex", "portforwarding", "authgrants", "keys", "acme") {
		eachInstr(fn, func(ins ssa.Instruction) {
			call, ok := ins.(*ssa.Call)
			if !ok {
				return
			}
			switch calleeID(call) {
			case "io.ReadFull", "io.CopyN", "encoding/binary.Read", "io.ReadAtLeast":
				nFull++
				return
			}
			f := calleeFunc(&call.Call)
			if f == nil || f.Name() != "Read" {
				return
			}
			if f.Pkg() != nil && (f.Pkg().Path() == "crypto/rand" || f.Pkg().Path() == "math/rand") {
				return // random sources fill the whole buffer; not wire input
			}
			sig := f.Type().(*types.Signature)
			if sig.Params().Len() != 1 || sig.Results().Len() != 2 || !isByteSlice(sig.Params().At(0).Type()) {
				return
			}
			n++
			used := false
			if ex := extractOf(call, 0); ex != nil && ex.Referrers() != nil && len(*ex.Referrers()) > 0 {
				used = true
			}
			c.Check(used, "C18.R3", fmt.Sprintf("read:%s#%s", FuncName(fn), shortCallee(&call.Call)), P.InstrPos(call), "the byte count of the Read is used",
				"the byte count of this Read is discarded: when fewer bytes than the buffer holds arrive at once (a field split over two frames), the decoded field is cut short and the remaining bytes are parsed as the next fields")
		})
	}
	c.Floor("C18.R3", "full-read idiom call sites in the decoding packages", nFull, 20)
	if n == 0 {
		c.OK("C18.R3", "bare-read-calls", "-", "no bare Read call in the decoding packages")
	}
}

// ---------------------------------------------------------------- decoded storage ownership

// c18Consume (C18.R4): a stream decoder never lets a []byte field of the value it
// fills keep storage that belonged to the receiver before the call.
func c18Consume(c *Ctx) {
	P := c.P
	c.Rule("C18.R4", "decoded byte fields own their storage: in every stream decoder (a function with an io.Reader parameter that stores into a []byte field of a value it was handed), on every path the stored slice derives from an allocation made during this call, never from the field's previous contents or another parameter (a decoder that recycles the receiver's buffer lets one decoded value change when the next is decoded) (E1 paths + def-use)")
	n := 0
	for _, fn := range P.ModuleFuncs() {
		if strings.HasSuffix(P.Fset.Position(fn.Pos()).Filename, "_test.go") || streamParam(fn, false) == nil {
			continue
		}
		// candidate stores
		var stores []*ssa.Store
		eachInstr(fn, func(ins ssa.Instruction) {
			st, ok := ins.(*ssa.Store)
			if !ok {
				return
			}
			fa, ok := st.Addr.(*ssa.FieldAddr)
			if !ok || !isByteSlice(st.Val.Type()) {
				return
			}
			root, _ := accessPath(fa)
			if paramIndex(fn, root) < 0 {
				return
			}
			stores = append(stores, st)
		})
		if len(stores) == 0 {
			continue
		}
		name := FuncName(fn)
		c.Analysed(name)
		fs := newFailSet()
		keys := map[string]bool{}
		for _, st := range stores {
			keys["own:"+lastField(st.Addr).Name()] = true
		}
		ok := walkAllOpts(c, "C18.R4", fn, PathOpts{MaxVisits: 2}, func(p *Path) {
			fresh := map[string]bool{} // access path of a field -> currently holds storage allocated in this call
			p.ForEach(func(i int, ins ssa.Instruction) bool {
				st, ok := ins.(*ssa.Store)
				if !ok {
					return true
				}
				fa, ok := st.Addr.(*ssa.FieldAddr)
				if !ok || !isByteSlice(st.Val.Type()) {
					return true
				}
				root, _ := accessPath(fa)
				if paramIndex(fn, root) < 0 {
					return true
				}
				why := staleStorage(fn, p, st.Val, i, fresh, 0)
				if why == "" {
					fresh[apString(fa)] = true
				} else {
					fresh[apString(fa)] = false
					fs.add("own:"+lastField(fa).Name(), "the decoded field "+apString(fa)+" is given storage that "+why+": two values decoded one after the other share bytes, so decoding its encoding no longer yields the original value once the next one is read", ins, p)
				}
				return true
			})
		})
		if ok {
			var ks []string
			for k := range keys {
				ks = append(ks, k)
			}
			sort.Strings(ks)
			n += len(ks)
			fs.report(c, "C18.R4", name, ks, P.Pos(fn.Pos()), "stored slices are allocated during the call on every path")
		}
	}
	c.Floor("C18.R4", "[]byte fields filled by stream decoders", n, 1)
}

func isByteSlice(t types.Type) bool {
	sl, ok := t.Underlying().(*types.Slice)
	if !ok {
		return false
	}
	b, ok := sl.Elem().Underlying().(*types.Basic)
	return ok && b.Kind() == types.Uint8
}

// staleStorage returns "" when v's backing store was allocated during this call on path p.
func staleStorage(fn *ssa.Function, p *Path, v ssa.Value, at int, fresh map[string]bool, depth int) string {
	if depth > 12 {
		return "could not be traced to an allocation"
	}
	v = p.Resolve(strip(v), at)
	switch x := v.(type) {
	case *ssa.Const:
		return "" // nil
	case *ssa.MakeSlice, *ssa.Alloc:
		return ""
	case *ssa.Convert:
		return "" // []byte(string) copies
	case *ssa.ChangeType:
		return staleStorage(fn, p, x.X, at, fresh, depth+1)
	case *ssa.Slice:
		return staleStorage(fn, p, x.X, at, fresh, depth+1)
	case *ssa.Parameter:
		return "belongs to the caller (parameter " + x.Name() + ")"
	case *ssa.Call:
		if b, ok := x.Call.Value.(*ssa.Builtin); ok && b.Name() == "append" {
			return staleStorage(fn, p, x.Call.Args[0], at, fresh, depth+1)
		}
		return "" // results of other calls: taken as owned by the callee's contract
	case *ssa.Extract:
		return ""
	case *ssa.UnOp:
		if x.Op != token.MUL {
			return ""
		}
		if d := p.Deref(x, at); d != ssa.Value(x) {
			return staleStorage(fn, p, d, at, fresh, depth+1)
		}
		if fa, ok := x.X.(*ssa.FieldAddr); ok {
			root, _ := accessPath(fa)
			if paramIndex(fn, root) >= 0 {
				if fresh[apString(fa)] {
					return ""
				}
				return "the field already held before this call (" + apString(fa) + " is re-used when it is large enough)"
			}
		}
		return ""
	}
	return ""
}

// capturedByClosure: the stream parameter (or the local it is spilled to) is bound by a function literal.
func capturedByClosure(fn *ssa.Function, sp *ssa.Parameter) bool {
	found := false
	eachInstr(fn, func(ins ssa.Instruction) {
		mc, ok := ins.(*ssa.MakeClosure)
		if !ok {
			return
		}
		for _, b := range mc.Bindings {
			if b == ssa.Value(sp) {
				found = true
			}
			if a, ok := b.(*ssa.Alloc); ok {
				if sst := singleStore(a); sst != nil && sst == ssa.Value(sp) {
					found = true
				}
				// a variable re-assigned from the parameter (r = io.TeeReader(r, ...)): any store of a stream type
				if a.Referrers() != nil {
					for _, rr := range *a.Referrers() {
						if st, ok := rr.(*ssa.Store); ok && st.Val == ssa.Value(sp) {
							found = true
						}
					}
				}
			}
		}
	})
	return found
}
