package main

func c18Layout(c *Ctx)  {}
func c18Consume(c *Ctx) {}
