package main

// C01 — Handshake completes only with a peer that proved its certified key.

import (
	"fmt"
	"go/token"
	"go/types"
	"sort"
	"strings"

	"golang.org/x/tools/go/ssa"
)

func init() { register("C01", checkC01) }

var cyclistOps = []string{"Absorb", "Encrypt", "Decrypt", "Squeeze", "SqueezeKey", "Ratchet", "Initialize", "InitializeEmpty"}

func cycID(name string) string { return hopID("cyclist", "Cyclist", name) }

// duplexOp returns the Cyclist method name if ins is a call of one on any receiver.
func duplexOp(ins ssa.Instruction) string {
	id := calleeID(ins)
	for _, n := range cyclistOps {
		if id == cycID(n) {
			return n
		}
	}
	return ""
}

// macReaders: live handshake readers and the number of squeeze-into-macBuf
// sites each had when confirmed by reading (floor per role; DESIGN A.1).
var macReaderFloors = map[string]int{
	"transport.readPQClientHello":                            1,
	"transport.readPQServerHello":                            1,
	"transport.(*Server).readPQClientAck":                    1,
	"transport.(*HandshakeState).readPQServerAuth":           2,
	"transport.(*Server).readPQClientAuth":                   2,
	"transport.(*Server).readPQClientRequestHidden":          2,
	"transport.(*HandshakeState).readPQServerResponseHidden": 2,
}

// transcript replay: squeezes that reproduce MACs the peer already verified;
// covered by the ClientAck MAC that follows in readPQClientAck.
var macSqueezeExempt = map[string]string{
	"transport.(*Server).ReplayPQDuplexFromCookie": "cookie replay reconstructs the ClientHello/ServerHello transcript; the ClientAck MAC verified by the caller covers it",
	"transport.(*Server).ReplayDuplexFromCookie":   "legacy (pre-PQ) twin of ReplayPQDuplexFromCookie with the same replay role; exported but called from no live code",
}

type compareInfo struct {
	call     *ssa.Call
	macArg   ssa.Value
	otherArg ssa.Value
	key      atomKey // atom that is true iff equal
}

// macCompare recognises bytes.Equal / subtle.ConstantTimeCompare / hmac.Equal with a macBuf operand.
func macCompare(ins ssa.Instruction, macBuf *types.Var) *compareInfo {
	call, ok := ins.(*ssa.Call)
	if !ok {
		return nil
	}
	id := calleeID(ins)
	if id != "bytes.Equal" && id != "crypto/subtle.ConstantTimeCompare" && id != "crypto/hmac.Equal" {
		// a hand-written equality helper counts when its body is a full-width comparison
		if f := staticCallee(&call.Call); f == nil || !InModule(f) || !isFullWidthEqual(f) {
			return nil
		}
	}
	args := call.Call.Args
	if len(args) != 2 {
		return nil
	}
	ci := &compareInfo{call: call}
	switch {
	case hasField(args[0], macBuf):
		ci.macArg, ci.otherArg = args[0], args[1]
	case hasField(args[1], macBuf):
		ci.macArg, ci.otherArg = args[1], args[0]
	default:
		return nil
	}
	if id == "crypto/subtle.ConstantTimeCompare" {
		ci.key = atomKey{token.EQL, call, nil} // filled by caller: == 1
	} else {
		ci.key = atomKey{token.ILLEGAL, call, nil}
	}
	return ci
}

// isFullWidthEqual recognises func(a, b []byte) bool whose result is "no byte differs":
// an accumulator that starts at 0 and is OR-ed with a[i]^b[i] for every i below a
// length, compared with 0 at the end (a length mismatch may return false early).
// An accumulator updated with ^= or +, or a loop over part of the bytes, is not recognised.
func isFullWidthEqual(fn *ssa.Function) bool {
	if len(fn.Params) != 2 || !isByteSlice(fn.Params[0].Type()) || !isByteSlice(fn.Params[1].Type()) {
		return false
	}
	res := fn.Signature.Results()
	if res.Len() != 1 || !types.Identical(res.At(0).Type().Underlying(), types.Typ[types.Bool]) {
		return false
	}
	a, b := ssa.Value(fn.Params[0]), ssa.Value(fn.Params[1])
	isElem := func(v ssa.Value, of ssa.Value) (ssa.Value, bool) {
		u, ok := strip(v).(*ssa.UnOp)
		if !ok || u.Op != token.MUL {
			return nil, false
		}
		ia, ok := u.X.(*ssa.IndexAddr)
		if !ok || strip(ia.X) != of {
			return nil, false
		}
		return ia.Index, true
	}
	var acc *ssa.Phi
	eachInstr(fn, func(ins ssa.Instruction) {
		phi, ok := ins.(*ssa.Phi)
		if !ok || acc != nil {
			return
		}
		zero, upd := false, false
		for _, e := range phi.Edges {
			if n, isC := constInt(e); isC && n == 0 {
				zero = true
				continue
			}
			or, ok := strip(e).(*ssa.BinOp)
			if !ok || or.Op != token.OR {
				return
			}
			var x ssa.Value
			if strip(or.X) == ssa.Value(phi) {
				x = or.Y
			} else if strip(or.Y) == ssa.Value(phi) {
				x = or.X
			} else {
				return
			}
			xr, ok := strip(x).(*ssa.BinOp)
			if !ok || xr.Op != token.XOR {
				return
			}
			i1, ok1 := isElem(xr.X, a)
			i2, ok2 := isElem(xr.Y, b)
			if !ok1 || !ok2 {
				i1, ok1 = isElem(xr.X, b)
				i2, ok2 = isElem(xr.Y, a)
			}
			if !ok1 || !ok2 || i1 != i2 {
				return
			}
			upd = true
		}
		if zero && upd {
			acc = phi
		}
	})
	if acc == nil {
		return false
	}
	// the loop runs to a length of one of the operands
	bounded := false
	eachInstr(fn, func(ins ssa.Instruction) {
		if bo, ok := ins.(*ssa.BinOp); ok && bo.Op == token.LSS {
			if call, ok := strip(bo.Y).(*ssa.Call); ok {
				if bi, isB := call.Call.Value.(*ssa.Builtin); isB && bi.Name() == "len" && (strip(call.Call.Args[0]) == a || strip(call.Call.Args[0]) == b) {
					bounded = true
				}
			}
		}
	})
	if !bounded {
		return false
	}
	// every return: false, or acc == 0
	okRet := true
	var retOK func(v ssa.Value, d int) bool
	retOK = func(v ssa.Value, d int) bool {
		if bv, isC := constBool(v); isC {
			return !bv
		}
		if bo, ok := strip(v).(*ssa.BinOp); ok && bo.Op == token.EQL {
			if n, isC := constInt(bo.Y); isC && n == 0 && strip(bo.X) == ssa.Value(acc) {
				return true
			}
		}
		if phi, ok := v.(*ssa.Phi); ok && d < 3 {
			for _, e := range phi.Edges {
				if !retOK(e, d+1) {
					return false
				}
			}
			return true
		}
		return false
	}
	for _, blk := range fn.Blocks {
		if r, ok := blk.Instrs[len(blk.Instrs)-1].(*ssa.Return); ok {
			if len(r.Results) != 1 || !retOK(r.Results[0], 0) {
				okRet = false
			}
		}
	}
	return okRet
}

// compareOutcome finds on path p (from block ordinal i on) whether the compare was found equal.
func compareOutcome(p *Path, ci *compareInfo, from int) (equal, known bool) {
	for j := from; j < len(p.Blocks); j++ {
		for k, v := range p.FactsAt(j) {
			if k.op == token.ILLEGAL && k.x == ssa.Value(ci.call) {
				return v, true
			}
			if k.op == token.EQL && k.y != nil {
				// ConstantTimeCompare(...) == 1  /  != 1 / == 0
				var other ssa.Value
				if k.x == ssa.Value(ci.call) {
					other = k.y
				} else if k.y == ssa.Value(ci.call) {
					other = k.x
				} else {
					continue
				}
				if c, ok := constInt(other); ok {
					if c == 1 {
						return v, true
					}
					if c == 0 {
						return !v, true
					}
				}
			}
		}
	}
	return false, false
}

// sliceWidth returns the constant width of v if it is a slice expression with
// constant bounds (or a full slice of an array), else -1.
func sliceWidth(v ssa.Value) int64 {
	v = strip(v)
	s, ok := v.(*ssa.Slice)
	if !ok {
		return -1
	}
	var lo int64
	if s.Low != nil {
		c, ok := constInt(s.Low)
		if !ok {
			return -1
		}
		lo = c
	}
	if s.High != nil {
		c, ok := constInt(s.High)
		if !ok {
			return -1
		}
		return c - lo
	}
	t := s.X.Type().Underlying()
	if pt, ok := t.(*types.Pointer); ok {
		if at, ok := pt.Elem().Underlying().(*types.Array); ok {
			return at.Len() - lo
		}
	}
	return -1
}

// errReturnClass classifies the error result of the return ending path p.
func errReturnClass(p *Path) nilState {
	r := p.Returns()
	if r == nil {
		return nonNil // panic exits are not successes
	}
	k := errorResultIndex(p.Fn.Signature)
	if k < 0 || k >= len(r.Results) {
		return nilUnknown
	}
	return p.Nilness(r.Results[k], len(p.Blocks)-1)
}

func checkC01(c *Ctx) {
	P := c.P
	c.Rule("C01.R1", "every MAC squeezed into HandshakeState.macBuf is compared full-width with received bytes and a mismatch aborts with a non-nil error before any further duplex operation (E1 typestate per path)")
	c.Rule("C01.R2", "the certificate verifier's error is tested; its non-nil edge reaches only failing returns; the returned leaf is used only on the nil edge (E1)")
	c.Rule("C01.R3", "every HandshakeState a verifier runs on carries the configured policy: server side certVerify = s.config.ClientVerify before verification/publication, client side certVerify = &c.config.Verify (E1 dominance + E4 provenance)")
	c.Rule("C01.R4", "certificateParserAndVerifier is fail-closed: with a policy and without InsecureSkipVerify success requires AuthKeys.VerifyLeaf==nil or Store.VerifyLeaf==nil on the parsed leaf, name/time copied from the policy, parse errors and extra bytes rejected, callback error fatal (E1 decision table)")
	c.Rule("C01.R5", "key-possession binding: after the verifier call a DH/Agree with the verified leaf's public key is absorbed and followed by a MAC compare-and-abort (or, hidden server, by remoteStatic=leaf.PublicKey and Agree(remoteStatic) absorbed before the keys are derived) (E1 order)")
	c.Rule("C01.R6", "publish after authentication: pendingConnections is sent to only in finishHandshake, which is called only after the ClientAuth / hidden-request reader returned nil; session keys and handle are stored only there; client state goes Open only after the begin*Handshake call returned nil (E4 who-may + E1)")
	c.Rule("C01.R7", "fresh DH ephemerals: every handshake state that computes a DH generates its X25519 ephemeral with Generate() (crypto/rand) on every creating path and nothing else writes its key bytes; KEM operations draw from crypto/rand.Reader (a predictable ephemeral lets the counterpart compute the DH outputs that prove key possession) (E4 who-may-write + E1)")
	c.Decides("(b,d) every squeezed handshake MAC is verified and fatal on mismatch; (a,c) verification runs with the configured policy and its failure is fatal; publication/acceptance is ordered after authentication; key-possession DH is bound into the verified MAC")
	c.NotDecided("that the MAC/DH/KEM primitives are cryptographically sound; correctness of certs/authkeys verification itself (C04)")

	macBuf := P.Field("transport", "HandshakeState", "macBuf")
	if macBuf == nil {
		c.Undecided("C01.R1", "transport.HandshakeState.macBuf", "field not found")
		return
	}
	live := P.Live()
	c01R1(c, macBuf, live)
	c01R2R5(c, macBuf, live)
	c01R3(c, live)
	c01R4(c)
	c01R6(c, live)
	freshInputsRule(c, "C01.R7")
	c01R8(c)
}

// ---------------------------------------------------------------------------
// R1

func c01R1(c *Ctx, macBuf *types.Var, live map[*ssa.Function]bool) {
	P := c.P
	macLen := int64(-1)
	if at, ok := macBuf.Type().Underlying().(*types.Array); ok {
		macLen = at.Len()
	}
	type site struct {
		fn *ssa.Function
		sq *ssa.Call
	}
	var sites []site
	perFn := map[string]int{}
	for _, fn := range P.ModuleFuncs("transport") {
		if !live[fn] {
			continue
		}
		eachInstr(fn, func(ins ssa.Instruction) {
			if duplexOp(ins) == "Squeeze" {
				call := ins.(*ssa.Call)
				if len(call.Call.Args) == 2 && hasField(call.Call.Args[1], macBuf) {
					// a helper cut out of a reader is analysed as part of that reader
					owner, times := fn, 1
					if o := P.OwnerOf(fn); o != fn {
						for name := range macReaderFloors {
							if r := P.Func("transport", strings.TrimPrefix(name, "transport.")); r != nil && P.OwnedBy(fn, r) {
								owner, times = r, len(P.Callers(fn))
							}
						}
					}
					sites = append(sites, site{owner, call})
					perFn[FuncName(owner)] += times
				}
			}
		})
	}
	for name, fl := range macReaderFloors {
		c.Floor("C01.R1", "squeeze-into-macBuf sites in "+name, perFn[name], fl)
	}
	// group by function
	byFn := map[*ssa.Function][]*ssa.Call{}
	var fns []*ssa.Function
	for _, s := range sites {
		if _, ok := byFn[s.fn]; !ok {
			fns = append(fns, s.fn)
		}
		byFn[s.fn] = append(byFn[s.fn], s.sq)
	}
	sort.Slice(fns, func(i, j int) bool { return FuncName(fns[i]) < FuncName(fns[j]) })
	for _, fn := range fns {
		name := FuncName(fn)
		c.Analysed(name)
		if why, ok := macSqueezeExempt[name]; ok {
			for i, sq := range byFn[fn] {
				c.OK("C01.R1", fmt.Sprintf("%s#squeeze%d", name, i+1), P.InstrPos(sq), "tabled exception: "+why)
			}
			continue
		}
		sqIndex := map[*ssa.Call]int{}
		for i, sq := range byFn[fn] {
			sqIndex[sq] = i + 1
		}
		type viol struct {
			detail string
			site   string
			path   []string
		}
		bad := map[int]*viol{} // per squeeze ordinal
		seenCompare := map[int]bool{}
		report := func(sq *ssa.Call, site ssa.Instruction, detail string, p *Path) {
			k := sqIndex[sq]
			if bad[k] == nil {
				bad[k] = &viol{detail: detail, site: P.InstrPos(site), path: pathTrace(P, p)}
			}
		}
		n, complete := WalkPathsInl(fn, PathOpts{}, func(p *Path) bool {
			var pending, mismatch *ssa.Call
			p.ForEach(func(i int, ins ssa.Instruction) bool {
				if isLogCall(ins) {
					return true
				}
				if ci := macCompare(ins, macBuf); ci != nil {
					if pending == nil {
						return true
					}
					k := sqIndex[pending]
					// operand widths
					if w := sliceWidth(ci.macArg); w >= 0 && w < macLen {
						report(pending, ins, fmt.Sprintf("MAC comparison uses only %d of %d bytes of macBuf", w, macLen), p)
					}
					if w := sliceWidth(ci.otherArg); w >= 0 && w < macLen {
						report(pending, ins, fmt.Sprintf("MAC is compared with only %d received bytes (MacLen=%d)", w, macLen), p)
					}
					if hasField(ci.otherArg, macBuf) {
						report(pending, ins, "MAC buffer is compared with itself, not with received bytes", p)
					}
					eq, known := compareOutcome(p, ci, i)
					if !known {
						// result not branched on along this path: stays pending
						return true
					}
					seenCompare[k] = true
					if eq {
						pending = nil
					} else {
						mismatch, pending = pending, nil
					}
					return true
				}
				op := duplexOp(ins)
				if op == "" {
					return true
				}
				if op == "InitializeEmpty" {
					// transcript restarted (hidden-mode trial loop): nothing carried over
					pending, mismatch = nil, nil
					return true
				}
				call := ins.(*ssa.Call)
				if mismatch != nil {
					report(mismatch, ins, "MAC mismatch is not fatal: duplex operation "+op+" continues the handshake after a failed comparison", p)
					mismatch = nil
				}
				if pending != nil {
					report(pending, ins, "duplex operation "+op+" between the MAC squeeze and its comparison (squeezed MAC not verified first)", p)
					pending = nil
				}
				if op == "Squeeze" && len(call.Call.Args) == 2 && hasField(call.Call.Args[1], macBuf) {
					pending = call
				}
				return true
			})
			cls := errReturnClass(p)
			if mismatch != nil && cls != nonNil {
				report(mismatch, p.Exit(), "MAC mismatch is not fatal: a path through the mismatch edge returns without a non-nil error", p)
			}
			if pending != nil && cls != nonNil {
				report(pending, p.Exit(), "squeezed MAC is never compared (or the comparison result is not tested) on a path that returns success", p)
			}
			return true
		})
		if !complete {
			c.Undecided("C01.R1", name, fmt.Sprintf("path bound exceeded after %d paths", n))
			continue
		}
		for i, sq := range byFn[fn] {
			k := i + 1
			cons := fmt.Sprintf("%s#squeeze%d", name, k)
			if v := bad[k]; v != nil {
				c.Fail("C01.R1", cons, v.site, v.detail, v.path...)
			} else if !seenCompare[k] {
				c.Fail("C01.R1", cons, P.InstrPos(sq), "squeezed MAC is never compared with received bytes on any path")
			} else {
				c.OK("C01.R1", cons, P.InstrPos(sq), fmt.Sprintf("compare-and-abort on all %d paths", n))
			}
		}
	}
}

// pathTrace renders the branch decisions of a path.
func pathTrace(P *Program, p *Path) []string {
	var out []string
	for i := 0; i+1 < len(p.Blocks); i++ {
		b := p.Blocks[i]
		if t, ok := b.Instrs[len(b.Instrs)-1].(*ssa.If); ok {
			edge := "false"
			if b.Succs[0] == p.Blocks[i+1] {
				edge = "true"
			}
			out = append(out, fmt.Sprintf("%s: branch %s", P.Pos(valuePos(t.Cond)), edge))
		}
	}
	out = append(out, fmt.Sprintf("%s: exit", P.InstrPos(p.Exit())))
	if len(out) > 24 {
		out = append(out[:8], append([]string{"..."}, out[len(out)-15:]...)...)
	}
	return out
}

// ---------------------------------------------------------------------------
// R2 + R5

const verifierID = modPath + "/transport.HandshakeState).certificateParserAndVerifier"

func verifierFuncID() string {
	return hopID("transport", "HandshakeState", "certificateParserAndVerifier")
}

func c01R2R5(c *Ctx, macBuf *types.Var, live map[*ssa.Function]bool) {
	P := c.P
	vid := verifierFuncID()
	pubKey := P.Field("certs", "Certificate", "PublicKey")
	remoteStatic := P.Field("transport", "dhState", "remoteStatic")
	if pubKey == nil || remoteStatic == nil {
		c.Undecided("C01.R5", "certs.Certificate.PublicKey / transport.dhState.remoteStatic", "field not found")
		return
	}
	nsites := 0
	for _, fn := range P.ModuleFuncs("transport") {
		if !live[fn] {
			continue
		}
		calls := callSitesIn(fn, false, vid)
		if len(calls) == 0 {
			continue
		}
		name := FuncName(fn)
		c.Analysed(name)
		for ci, cinst := range calls {
			nsites++
			call, ok := cinst.(*ssa.Call)
			cons := fmt.Sprintf("%s#verify%d", name, ci+1)
			if !ok {
				c.Fail("C01.R2", cons, P.InstrPos(cinst), "verifier invoked via go/defer: result cannot be checked")
				continue
			}
			errV := errResultOf(call)
			leafV := extractOf(call, 0)
			if errV == nil {
				c.Fail("C01.R2", cons, P.InstrPos(call), "the verifier's error result is discarded")
				continue
			}
			// the alloc the leaf is stored into (address-taken local), if any
			var leafAlloc *ssa.Alloc
			if leafV != nil {
				for _, r := range *leafV.Referrers() {
					if st, ok := r.(*ssa.Store); ok && st.Val == leafV {
						if a, ok := st.Addr.(*ssa.Alloc); ok {
							leafAlloc = a
						}
					}
				}
			}
			isLeafUse := func(ins ssa.Instruction) bool {
				if leafV == nil {
					return false
				}
				var ops []*ssa.Value
				for _, o := range ins.Operands(ops) {
					if *o == nil {
						continue
					}
					if *o == leafV {
						if st, ok := ins.(*ssa.Store); ok && st.Val == leafV && st.Addr == ssa.Value(leafAlloc) {
							return false // the spill itself
						}
						if _, ok := ins.(*ssa.Return); ok {
							return false
						}
						return true
					}
					if leafAlloc != nil && *o == ssa.Value(leafAlloc) {
						if st, ok := ins.(*ssa.Store); ok && st.Addr == ssa.Value(leafAlloc) {
							return false
						}
						return true
					}
				}
				return false
			}
			var r2bad, r5bad string
			var r2site, r5site ssa.Instruction
			var r2path, r5path *Path
			r5seen := false
			n, complete := WalkPathsInl(fn, PathOpts{}, func(p *Path) bool {
				seenCall := false
				var dhVal ssa.Value // result of DH(leaf.PublicKey)
				absorbedDH := false
				comparedAfter := false
				storedRemoteStatic := false
				last := len(p.Blocks) - 1
				p.ForEach(func(i int, ins ssa.Instruction) bool {
					if ins == ssa.Instruction(call) {
						seenCall = true
						return true
					}
					if !seenCall || isLogCall(ins) {
						return true
					}
					if isLeafUse(ins) {
						if st := p.Nilness(errV, i); st != isNil {
							// facts at block entry may not yet include a test made in this block; check next block
							if r2bad == "" {
								r2bad = "the certificate returned by the verifier is used on a path where the verifier's error was not found nil"
								r2site, r2path = ins, p
							}
						}
					}
					// R5 events
					if cl, ok := ins.(*ssa.Call); ok {
						id := calleeID(ins)
						if id == hopID("keys", "X25519KeyPair", "DH") || id == hopID("keys", "X25519KeyPair", "Agree") || id == hopID("keys", "Exchangable", "Agree") {
							args := callArgs(&cl.Call)
							if len(args) == 2 && leafAlloc != nil {
								root, _ := accessPath(args[1])
								if root == ssa.Value(leafAlloc) && hasField(args[1], pubKey) {
									dhVal = extractOf(cl, 0)
								}
							}
						}
						if duplexOp(ins) == "Absorb" && dhVal != nil && len(cl.Call.Args) == 2 && p.Resolve(cl.Call.Args[1], i) == dhVal {
							absorbedDH = true
						}
						if ci := macCompare(ins, macBuf); ci != nil && absorbedDH {
							if eq, known := compareOutcome(p, ci, i); known && eq {
								comparedAfter = true
							}
						}
					}
					if st, ok := ins.(*ssa.Store); ok && endsInField(st.Addr, remoteStatic, false) && leafAlloc != nil {
						root, _ := accessPath(st.Val)
						if root == ssa.Value(leafAlloc) && hasField(st.Val, pubKey) {
							storedRemoteStatic = true
						}
					}
					return true
				})
				if !seenCall {
					return true
				}
				cls := errReturnClass(p)
				errState := p.Nilness(errV, last)
				if cls != nonNil { // success (or unclassified) return
					if errState != isNil && r2bad == "" {
						r2bad = "a path returns success although the verifier's error was not found nil (error unchecked or ignored)"
						r2site, r2path = p.Exit(), p
					}
					r5seen = true
					if !(absorbedDH && comparedAfter) && !storedRemoteStatic && r5bad == "" {
						r5bad = "a success path does not bind the verified leaf key: no DH/Agree(leaf.PublicKey) absorbed and followed by a passed MAC comparison, and dh.remoteStatic not set from the verified leaf"
						r5site, r5path = p.Exit(), p
					}
				} else if errState == nonNil {
					// fine: failing return on the non-nil edge
				}
				return true
			})
			if !complete {
				c.Undecided("C01.R2", cons, fmt.Sprintf("path bound exceeded after %d paths", n))
				continue
			}
			if r2bad != "" {
				c.Fail("C01.R2", cons, P.InstrPos(r2site), r2bad, pathTrace(P, r2path)...)
			} else {
				c.OK("C01.R2", cons, P.InstrPos(call), fmt.Sprintf("error tested, failing edge fatal, leaf used only on nil edge (%d paths)", n))
			}
			if r5bad != "" {
				c.Fail("C01.R5", cons, P.InstrPos(r5site), r5bad, pathTrace(P, r5path)...)
			} else if !r5seen {
				c.Fail("C01.R5", cons, P.InstrPos(call), "no success path found after the verifier call")
			} else {
				c.OK("C01.R5", cons, P.InstrPos(call), "verified leaf key bound on every success path")
			}
		}
	}
	c.Floor("C01.R2", "live call sites of certificateParserAndVerifier", nsites, 4)

	// R5, hidden server: Agree(hs.dh.remoteStatic) absorbed on every success path of the response writer.
	if w := P.Func("transport", "(*Server).writePQServerResponseHidden"); w == nil {
		c.Undecided("C01.R5", "transport.(*Server).writePQServerResponseHidden", "function not found")
	} else {
		name := FuncName(w)
		c.Analysed(name)
		var bad string
		var badPath *Path
		succ := 0
		_, complete := WalkPathsInl(w, PathOpts{}, func(p *Path) bool {
			if errReturnClass(p) == nonNil {
				return true
			}
			succ++
			var ss ssa.Value
			absorbed := false
			squeezedAfter := false
			p.ForEach(func(i int, ins ssa.Instruction) bool {
				cl, ok := ins.(*ssa.Call)
				if !ok {
					return true
				}
				id := calleeID(ins)
				if id == hopID("keys", "Exchangable", "Agree") || id == hopID("keys", "X25519KeyPair", "Agree") || id == hopID("keys", "X25519KeyPair", "DH") {
					args := callArgs(&cl.Call)
					if len(args) == 2 && hasField(args[1], remoteStatic) {
						ss = extractOf(cl, 0)
					}
				}
				if duplexOp(ins) == "Absorb" && ss != nil && p.Resolve(cl.Call.Args[1], i) == ss {
					absorbed = true
				}
				if duplexOp(ins) == "Squeeze" && absorbed {
					squeezedAfter = true
				}
				return true
			})
			if !(absorbed && squeezedAfter) && bad == "" {
				bad = "a success path of the hidden response does not absorb Agree(hs.dh.remoteStatic) before the final MAC: the session keys would not depend on the client's static key"
				badPath = p
			}
			return true
		})
		cons := name + "#ss"
		switch {
		case !complete:
			c.Undecided("C01.R5", cons, "path bound exceeded")
		case bad != "":
			c.Fail("C01.R5", cons, P.InstrPos(badPath.Exit()), bad, pathTrace(P, badPath)...)
		case succ == 0:
			c.Fail("C01.R5", cons, P.Pos(w.Pos()), "no success path")
		default:
			c.OK("C01.R5", cons, P.Pos(w.Pos()), fmt.Sprintf("DH(ss) absorbed before the final MAC on all %d success paths", succ))
		}
	}
}
