package main

// E4 — call-graph queries: live set, callers, reachability, who-may-write.

import (
	"go/ast"
	"go/token"
	"go/types"
	"sort"
	"strings"

	"golang.org/x/tools/go/callgraph"
	"golang.org/x/tools/go/ssa"
)

// Live returns the set of functions reachable from the program's roots:
// main functions, package initialisers and the exported API (functions and
// methods of exported types) of the module's packages.
func (p *Program) Live() map[*ssa.Function]bool {
	if p.live != nil {
		return p.live
	}
	cg := p.CG()
	live := map[*ssa.Function]bool{}
	var work []*ssa.Function
	push := func(fn *ssa.Function) {
		if fn != nil && !live[fn] {
			live[fn] = true
			work = append(work, fn)
		}
	}
	for path, sp := range p.SSAPkgs {
		if path != modPath && !strings.HasPrefix(path, modPath+"/") {
			continue
		}
		for _, m := range sp.Members {
			switch m := m.(type) {
			case *ssa.Function:
				if m.Name() == "main" || m.Name() == "init" || token.IsExported(m.Name()) {
					push(m)
				}
			case *ssa.Type:
				if !token.IsExported(m.Name()) {
					continue
				}
				for _, t := range []types.Type{m.Type(), types.NewPointer(m.Type())} {
					ms := p.Prog.MethodSets.MethodSet(t)
					for i := 0; i < ms.Len(); i++ {
						if token.IsExported(ms.At(i).Obj().Name()) {
							push(p.Prog.MethodValue(ms.At(i)))
						}
					}
				}
			}
		}
	}
	for len(work) > 0 {
		fn := work[len(work)-1]
		work = work[:len(work)-1]
		if n := cg.Nodes[fn]; n != nil {
			for _, e := range n.Out {
				push(e.Callee.Func)
			}
		}
		// closures created by fn are live when fn is (they may be stored and called later)
		for _, a := range fn.AnonFuncs {
			push(a)
		}
	}
	p.live = live
	return live
}

// Callers returns the call edges into fn (VTA graph).
func (p *Program) Callers(fn *ssa.Function) []*callgraph.Edge {
	n := p.CG().Nodes[fn]
	if n == nil {
		return nil
	}
	out := append([]*callgraph.Edge(nil), n.In...)
	sort.Slice(out, func(i, j int) bool {
		a, b := out[i], out[j]
		if FuncName(a.Caller.Func) != FuncName(b.Caller.Func) {
			return FuncName(a.Caller.Func) < FuncName(b.Caller.Func)
		}
		return a.Pos() < b.Pos()
	})
	return out
}

// LiveCallers returns call sites of fn located in live module functions.
func (p *Program) LiveCallers(fn *ssa.Function) []*callgraph.Edge {
	live := p.Live()
	var out []*callgraph.Edge
	for _, e := range p.Callers(fn) {
		if live[e.Caller.Func] && InModule(e.Caller.Func) {
			out = append(out, e)
		}
	}
	return out
}

// Reach computes the functions reachable from roots, following only callees
// for which follow returns true (roots are always included).
func (p *Program) Reach(roots []*ssa.Function, follow func(caller, callee *ssa.Function) bool) map[*ssa.Function]*ssa.Function {
	cg := p.CG()
	parent := map[*ssa.Function]*ssa.Function{}
	var work []*ssa.Function
	for _, r := range roots {
		if r != nil {
			if _, ok := parent[r]; !ok {
				parent[r] = nil
				work = append(work, r)
			}
		}
	}
	for len(work) > 0 {
		fn := work[0]
		work = work[1:]
		n := cg.Nodes[fn]
		var outs []*ssa.Function
		if n != nil {
			for _, e := range n.Out {
				outs = append(outs, e.Callee.Func)
			}
		}
		outs = append(outs, fn.AnonFuncs...)
		for _, c := range outs {
			if c == nil {
				continue
			}
			if _, ok := parent[c]; ok {
				continue
			}
			if follow != nil && !follow(fn, c) {
				continue
			}
			parent[c] = fn
			work = append(work, c)
		}
	}
	return parent
}

// chain renders the call chain root -> ... -> fn from a Reach parent map.
func chain(parent map[*ssa.Function]*ssa.Function, fn *ssa.Function) []string {
	var rev []string
	for f := fn; f != nil; f = parent[f] {
		rev = append(rev, FuncName(f))
		if len(rev) > 40 {
			break
		}
	}
	var out []string
	for i := len(rev) - 1; i >= 0; i-- {
		out = append(out, rev[i])
	}
	return out
}

// FieldWrite is one store into a struct field (or an update of a map/slice held in it).
type FieldWrite struct {
	Fn    *ssa.Function
	Instr ssa.Instruction
	Kind  string    // "store", "mapupdate", "mapdelete", "literal", "clear"
	Base  ssa.Value // the struct pointer
	Val   ssa.Value // stored value (store / mapupdate)
	// When the write sits in a local helper (see OwnerOf), Fn / Instr are the owning
	// function and its call of the helper, Base / Val are expressed over the owner's values
	// where they were the helper's parameters, and Orig is the writing instruction itself.
	Orig ssa.Instruction
}

// FieldWrites finds every write to field f in the module: direct stores through
// FieldAddr, map updates / deletes / clear on the map loaded from it.
func (p *Program) FieldWrites(f *types.Var, rels ...string) []FieldWrite {
	var out []FieldWrite
	for _, fn := range p.ModuleFuncs(rels...) {
		eachInstr(fn, func(ins ssa.Instruction) {
			switch x := ins.(type) {
			case *ssa.Store:
				if fa, ok := x.Addr.(*ssa.FieldAddr); ok && fieldOf(fa.X.Type(), fa.Field) == f {
					out = append(out, FieldWrite{Fn: fn, Instr: ins, Kind: "store", Base: fa.X, Val: x.Val})
				}
			case *ssa.MapUpdate:
				if lastField(x.Map) == f && isDirectFieldLoad(x.Map, f) {
					out = append(out, FieldWrite{Fn: fn, Instr: ins, Kind: "mapupdate", Base: baseOfFieldLoad(x.Map), Val: x.Value})
				}
			case *ssa.Call:
				if b, ok := x.Call.Value.(*ssa.Builtin); ok && (b.Name() == "delete" || b.Name() == "clear") && len(x.Call.Args) > 0 {
					if isDirectFieldLoad(x.Call.Args[0], f) {
						out = append(out, FieldWrite{Fn: fn, Instr: ins, Kind: "map" + b.Name(), Base: baseOfFieldLoad(x.Call.Args[0])})
					}
				}
			}
		})
	}
	for i := range out {
		out[i].Orig = out[i].Instr
	}
	return out
}

// HoistWrites re-expresses writes located in local helpers at the call sites of their owner,
// climbing until a function the rule knows by name (named) is reached.
func (p *Program) HoistWrites(ws []FieldWrite, named func(fn *ssa.Function) bool) []FieldWrite {
	var out []FieldWrite
	for _, w := range ws {
		cur := []FieldWrite{w}
		for step := 0; step < 3; step++ {
			var next []FieldWrite
			moved := false
			for _, x := range cur {
				owner := x.Fn
				if named == nil || !named(x.Fn) {
					owner = p.OwnerOf(x.Fn)
				}
				if owner == x.Fn {
					next = append(next, x)
					continue
				}
				// one step up: every static call site of x.Fn (all in one function by construction of OwnerOf, possibly an intermediate helper)
				for _, e := range p.Callers(x.Fn) {
					call, ok := e.Site.(*ssa.Call)
					if !ok {
						continue
					}
					args := callArgs(&call.Call)
					tr := func(v ssa.Value) ssa.Value {
						if v == nil {
							return nil
						}
						if k := paramIndex(x.Fn, v); k >= 0 && k < len(args) {
							return args[k]
						}
						return v
					}
					next = append(next, FieldWrite{Fn: e.Caller.Func, Instr: call, Kind: x.Kind, Base: tr(x.Base), Val: tr(x.Val), Orig: x.Orig})
					moved = true
				}
			}
			cur = next
			if !moved {
				break
			}
		}
		out = append(out, cur...)
	}
	return out
}

// isDirectFieldLoad: v is *(&x.f) for field f.
func isDirectFieldLoad(v ssa.Value, f *types.Var) bool {
	u, ok := strip(v).(*ssa.UnOp)
	if !ok || u.Op != token.MUL {
		return false
	}
	fa, ok := u.X.(*ssa.FieldAddr)
	return ok && fieldOf(fa.X.Type(), fa.Field) == f
}

func baseOfFieldLoad(v ssa.Value) ssa.Value {
	if u, ok := strip(v).(*ssa.UnOp); ok {
		if fa, ok := u.X.(*ssa.FieldAddr); ok {
			return fa.X
		}
	}
	return nil
}

// callSitesIn lists the call instructions in fn (deep: incl. closures if deep) whose resolved callee id is in ids.
func callSitesIn(fn *ssa.Function, deep bool, ids ...string) []ssa.CallInstruction {
	var out []ssa.CallInstruction
	visit := func(_ *ssa.Function, ins ssa.Instruction) {
		if ci, ok := ins.(ssa.CallInstruction); ok && isCall(ins, ids...) {
			out = append(out, ci)
		}
	}
	if deep {
		eachInstrDeep(fn, visit)
	} else {
		eachInstr(fn, func(ins ssa.Instruction) { visit(fn, ins) })
	}
	return out
}

// CallSitesOf lists all call sites of the function with id in live module code.
func (p *Program) CallSitesOf(id string, liveOnly bool) []ssa.CallInstruction {
	var out []ssa.CallInstruction
	live := map[*ssa.Function]bool{}
	if liveOnly {
		live = p.Live()
	}
	for _, fn := range p.ModuleFuncs() {
		if liveOnly && !live[fn] {
			continue
		}
		out = append(out, callSitesIn(fn, false, id)...)
	}
	return out
}

// OwnerOf maps a local helper to the function it was cut out of: an unexported,
// non-test module function all of whose callers are static calls from one and the
// same function is "owned" by that function (transitively, at most 3 steps). Rules of
// the who-may-call / who-may-write kind compare owners, so that moving a few lines into
// a helper does not create a new, unlisted actor.
func (p *Program) OwnerOf(fn *ssa.Function) *ssa.Function {
	return p.ownerChain(fn, nil)
}

// OwnedBy reports whether fn is owner, or a local helper (transitively) cut out of owner.
func (p *Program) OwnedBy(fn, owner *ssa.Function) bool {
	if fn == owner {
		return true
	}
	return p.ownerChain(fn, owner) == owner
}

func (p *Program) ownerChain(fn, stopAt *ssa.Function) *ssa.Function {
	for step := 0; step < 3; step++ {
		if stopAt != nil && fn == stopAt {
			return fn
		}
		if fn == nil || !InModule(fn) || fn.Parent() != nil || fn.Synthetic != "" || ast.IsExported(fn.Name()) {
			return fn
		}
		var owner *ssa.Function
		ok := true
		edges := p.Callers(fn)
		if len(edges) == 0 {
			return fn
		}
		for _, e := range edges {
			if e.Site == nil || e.Site.Common().StaticCallee() != fn {
				ok = false
				break
			}
			if _, isGo := e.Site.(*ssa.Go); isGo {
				ok = false // a goroutine entry is an actor of its own
				break
			}
			c := e.Caller.Func
			if c.Pkg != fn.Pkg {
				ok = false
				break
			}
			if owner == nil {
				owner = c
			} else if owner != c {
				ok = false
				break
			}
		}
		if !ok || owner == nil || owner == fn {
			return fn
		}
		// the helper must not be used as a value anywhere
		if fn.Referrers() != nil {
			for _, r := range *fn.Referrers() {
				if cc := callCommon(r); cc == nil || cc.Value != ssa.Value(fn) {
					return fn
				}
			}
		}
		fn = owner
	}
	return fn
}

// eachOwnedInstr visits the instructions of fn and of the local helpers cut out of it
// (OwnerOf(helper) == fn), once per call site of a helper. tr re-expresses a helper's
// parameter as the argument passed at that call site (recursively up to fn); other values
// are returned unchanged.
func (p *Program) eachOwnedInstr(fn *ssa.Function, visit func(in *ssa.Function, ins ssa.Instruction, tr func(ssa.Value) ssa.Value)) {
	var rec func(f *ssa.Function, tr func(ssa.Value) ssa.Value, depth int)
	rec = func(f *ssa.Function, tr func(ssa.Value) ssa.Value, depth int) {
		eachInstr(f, func(ins ssa.Instruction) {
			visit(f, ins, tr)
			call, ok := ins.(*ssa.Call)
			if !ok || depth >= 3 {
				return
			}
			g := staticCallee(&call.Call)
			if g == nil || g == f || g == fn || len(g.Blocks) == 0 || !p.OwnedBy(g, fn) {
				return
			}
			args := callArgs(&call.Call)
			rec(g, func(v ssa.Value) ssa.Value {
				if v == nil {
					return nil
				}
				if k := paramIndex(g, v); k >= 0 && k < len(args) {
					return tr(args[k])
				}
				return v
			}, depth+1)
		})
	}
	rec(fn, func(v ssa.Value) ssa.Value { return v }, 0)
}

// goBodiesOf lists the functions that parent starts as goroutines: its closures and the
// named functions / methods that are the operand of a go statement in it. Rules identify
// "the receive goroutine", "the rotation goroutine" among them by what they do, not by
// their position (a closure index changes when another closure becomes a method).
func goBodiesOf(parent *ssa.Function) []*ssa.Function {
	var out []*ssa.Function
	seen := map[*ssa.Function]bool{}
	eachInstr(parent, func(ins ssa.Instruction) {
		g, ok := ins.(*ssa.Go)
		if !ok {
			return
		}
		var f *ssa.Function
		switch v := g.Call.Value.(type) {
		case *ssa.MakeClosure:
			f, _ = v.Fn.(*ssa.Function)
		case *ssa.Function:
			f = v
		}
		if f == nil {
			f = staticCallee(&g.Call)
		}
		if f != nil && !seen[f] {
			seen[f] = true
			out = append(out, f)
		}
	})
	return out
}
