package main

// C02 — Any in-flight change to a handshake aborts it; success means equal fresh keys.

import (
	"fmt"
	"go/token"
	"go/types"
	"strings"

	"golang.org/x/tools/go/ssa"
)

func init() { register("C02", checkC02) }

var c02Readers = []string{
	"readPQClientHello", "readPQServerHello", "(*Server).readPQClientAck", "(*HandshakeState).readPQServerAuth",
	"(*Server).readPQClientAuth", "(*Server).readPQClientRequestHidden", "(*HandshakeState).readPQServerResponseHidden",
}

func bufParamOf(fn *ssa.Function) *ssa.Parameter {
	for _, p := range fn.Params {
		if sl, ok := p.Type().Underlying().(*types.Slice); ok {
			if bt, ok := sl.Elem().Underlying().(*types.Basic); ok && bt.Kind() == types.Uint8 {
				return p
			}
		}
	}
	return nil
}

func checkC02(c *Ctx) {
	P := c.P
	c.Rule("C02.R1", "transcript tiling, reader side: on every success path of each live handshake reader, the byte ranges of the received message that are absorbed (directly, through an unmodified copy, or as the parsed-and-remarshalled KEM key), decrypted by the duplex, decapsulated with the secret absorbed, opened as the cookie, or compared with a squeezed MAC tile [0, n) exactly, n being the length the reader reports; every non-MAC range is consumed before the last MAC comparison (E2 regions + E1 order)")
	c.Rule("C02.R2", "exact length: wherever a reader's result is accepted, the consumed length was found equal to the datagram length (E1 facts in the callers)")
	c.Rule("C02.R5", "key schedule shape: deriveFinalKeys squeezes each of its two outputs after a ratchet and the absorption of a distinct constant label; both endpoints pass (clientToServerKey, serverToClientKey) in that order; the client reads with serverToClient and writes with clientToServer, the server the mirror image, and no duplex operation lies between the last handshake message and the derivation (E1 + E4)")
	c.Rule("C02.R6", "fresh per-handshake inputs: the X25519 ephemeral of every handshake state that computes a DH is produced by Generate() (which fills it from crypto/rand) and its key material is written nowhere else; KEM key generation and encapsulation draw from crypto/rand.Reader; session ids come from crypto/rand (E4 who-may-write + E1 dominance)")
	c.Decides("that every byte of every handshake datagram is bound to a checked MAC, that truncated or extended datagrams are rejected, the shape of the directional key derivation, that per-handshake secrets are fresh")
	c.NotDecided("equality / distinctness of derived key bytes (a property of Cyclist, C13); probability of collisions; writer-side provenance and writer/reader sequence agreement are reported as R3/R4 when implemented")

	macBuf := P.Field("transport", "HandshakeState", "macBuf")
	if macBuf == nil {
		c.Undecided("C02.R1", "transport.HandshakeState.macBuf", "field not found")
		return
	}
	// ---- R1
	for _, rn := range c02Readers {
		fn := P.Func("transport", rn)
		if fn == nil {
			c.Undecided("C02.R1", "transport."+rn, "function not found")
			continue
		}
		name := FuncName(fn)
		c.Analysed(name)
		buf := bufParamOf(fn)
		if buf == nil {
			c.Undecided("C02.R1", name, "no []byte parameter")
			continue
		}
		an := newAn(P, fn)
		fs := newFailSet()
		succ := 0
		sample := ""
		ok := walkAllOpts(c, "C02.R1", fn, PathOpts{MaxVisits: 2}, func(p *Path) {
			if !isSuccess(p) {
				return
			}
			r := p.Returns()
			if r == nil {
				return
			}
			succ++
			n := an.formOf(p.Resolve(r.Results[0], len(p.Blocks)-1))
			regs, problems, lastMac := readerRegions(P, an, p, buf, macBuf)
			for _, pr := range problems {
				fs.add("tiling", pr, p.Exit(), p)
			}
			if gap := tile(regs, n); gap != "" {
				var parts []string
				for _, rg := range regs {
					parts = append(parts, rg.String())
				}
				fs.add("tiling", gap+": those bytes can be altered in flight without either side noticing (events on this path: "+strings.Join(parts, " ")+")", p.Exit(), p)
			}
			for _, rg := range regs {
				if rg.kind != "M" && lastMac >= 0 && rg.ord > lastMac {
					fs.add("before-mac", "bytes "+rg.String()+" are absorbed / decrypted after the last MAC comparison of the message: nothing verifies them", rg.ins, p)
				}
			}
			if lastMac < 0 {
				fs.add("tiling", "no MAC comparison against received bytes on a success path", p.Exit(), p)
			}
			if sample == "" {
				var parts []string
				for _, rg := range regs {
					parts = append(parts, rg.String())
				}
				sample = strings.Join(parts, " ")
			}
		})
		if ok {
			fs.report(c, "C02.R1", name, []string{"tiling", "before-mac"}, P.Pos(fn.Pos()), fmt.Sprintf("%d success path(s) tile the message: %s", succ, sample))
			c.Floor("C02.R1", "success paths of "+name, succ, 1)
		}
	}

	c02R2(c)
	c02R5(c)
	c02R6(c)
}

func c02R2(c *Ctx) {
	P := c.P
	readerIDs := map[string]bool{}
	for _, rn := range c02Readers {
		if fn := P.Func("transport", rn); fn != nil {
			if fo, ok := fn.Object().(*types.Func); ok {
				readerIDs[funcID(fo)] = true
			}
		}
	}
	// wrappers that return a reader's length unchanged count as readers for their callers
	for _, wn := range []string{"(*Server).handlePQClientHello", "(*Server).handlePQClientRequestHidden"} {
		if fn := P.Func("transport", wn); fn != nil {
			if fo, ok := fn.Object().(*types.Func); ok {
				readerIDs[funcID(fo)] = true
			}
		}
	}
	live := P.Live()
	nSites := 0
	for _, fn := range P.ModuleFuncs("transport") {
		if !live[fn] {
			continue
		}
		var sites []*ssa.Call
		eachInstr(fn, func(ins ssa.Instruction) {
			if call, ok := ins.(*ssa.Call); ok && readerIDs[calleeID(call)] {
				sites = append(sites, call)
			}
		})
		if len(sites) == 0 {
			continue
		}
		name := FuncName(fn)
		for _, site := range sites {
			// handlePQClientHello returns no length: its own check is inside (it is a caller of readPQClientHello)
			if call := site; call.Call.Signature().Results().Len() < 2 || !isIntType(call.Call.Signature().Results().At(0).Type()) {
				continue
			}
			nSites++
			cons := fmt.Sprintf("%s#%s", name, calleeFunc(&site.Call).Name())
			nV := extractOf(site, 0)
			ev := errResultOf(site)
			// the buffer argument
			var bufArg ssa.Value
			for _, a := range site.Call.Args {
				if sl, ok := a.Type().Underlying().(*types.Slice); ok {
					if bt, ok := sl.Elem().Underlying().(*types.Basic); ok && bt.Kind() == types.Uint8 {
						bufArg = a
					}
				}
			}
			bad := ""
			var badPath *Path
			accepted := 0
			n, complete := WalkPathsInl(fn, PathOpts{MaxVisits: 2, MaxPaths: 60000}, func(p *Path) bool {
				seen := false
				at := 0
				p.ForEach(func(i int, ins ssa.Instruction) bool {
					if ins == ssa.Instruction(site) {
						seen, at = true, i
					}
					return true
				})
				if !seen || ev == nil {
					return true
				}
				last := len(p.Blocks) - 1
				if p.Nilness(ev, last) != isNil {
					return true
				}
				// "accepted": the function goes on to return success (or, for wrappers, returns the state)
				if !isSuccess(p) {
					return true
				}
				accepted++
				if nV == nil {
					if bad == "" {
						bad, badPath = "the consumed length returned by the reader is discarded: trailing bytes after a valid message are accepted", p
					}
					return true
				}
				okLen := false
				for k, v := range p.FactsAt(last) {
					if k.op != token.EQL || k.y == nil || !v {
						continue
					}
					var other ssa.Value
					if k.x == nV {
						other = k.y
					} else if k.y == nV {
						other = k.x
					} else {
						continue
					}
					// len(arg), the high bound of the slice passed, or the datagram length from ReadMsgUDP
					if call, ok := other.(*ssa.Call); ok {
						if b, isB := call.Call.Value.(*ssa.Builtin); isB && b.Name() == "len" && bufArg != nil && p.Deref(call.Call.Args[0], at) == p.Deref(bufArg, at) {
							okLen = true
						}
					}
					if sl, ok := strip(bufArg).(*ssa.Slice); ok && sl.High != nil && sl.High == other {
						okLen = true
					}
					if ex, ok := other.(*ssa.Extract); ok && ex.Index == 0 {
						if rc, ok := ex.Tuple.(*ssa.Call); ok && calleeID(rc) == hopID("transport", "UDPLike", "ReadMsgUDP") {
							okLen = true
						}
					}
				}
				if !okLen && bad == "" {
					bad, badPath = "the reader's result is accepted on a path where the consumed length was not found equal to the datagram length: a truncated or extended datagram completes this step", p
				}
				return true
			})
			switch {
			case !complete:
				c.Undecided("C02.R2", cons, fmt.Sprintf("path bound exceeded after %d paths", n))
			case bad != "":
				c.Fail("C02.R2", cons, P.InstrPos(site), bad, pathTrace(P, badPath)...)
			case accepted == 0:
				c.Fail("C02.R2", cons, P.InstrPos(site), "no accepting path found after this reader call")
			default:
				c.OK("C02.R2", cons, P.InstrPos(site), fmt.Sprintf("consumed length == datagram length on all %d accepting paths", accepted))
			}
		}
	}
	c.Floor("C02.R2", "reader call sites whose length is checked", nSites, 6)
}

func c02R5(c *Ctx) {
	P := c.P
	fn := P.Func("transport", "(*HandshakeState).deriveFinalKeys")
	if fn == nil {
		c.Undecided("C02.R5", "transport.(*HandshakeState).deriveFinalKeys", "function not found")
		return
	}
	name := FuncName(fn)
	c.Analysed(name)
	fs := newFailSet()
	ok := walkAll(c, "C02.R5", fn, func(p *Path) {
		if !isSuccess(p) {
			return
		}
		type step struct {
			op    string
			label string
			param int
		}
		var seq []step
		p.ForEach(func(i int, ins ssa.Instruction) bool {
			call, ok := ins.(*ssa.Call)
			if !ok {
				return true
			}
			switch duplexOp(call) {
			case "Ratchet":
				seq = append(seq, step{op: "R"})
			case "Absorb":
				lab := "?"
				if cv, ok := strip(call.Call.Args[1]).(*ssa.Convert); ok {
					if cst, ok := cv.X.(*ssa.Const); ok {
						lab, _ = constString(cst)
					}
				}
				seq = append(seq, step{op: "A", label: lab})
			case "Squeeze", "SqueezeKey":
				root, _ := accessPath(call.Call.Args[1])
				seq = append(seq, step{op: "S", param: paramIndex(fn, root)})
			case "Encrypt", "Decrypt", "Initialize", "InitializeEmpty":
				seq = append(seq, step{op: "X"})
			}
			return true
		})
		okShape := len(seq) == 6 && seq[0].op == "R" && seq[1].op == "A" && seq[2].op == "S" && seq[3].op == "R" && seq[4].op == "A" && seq[5].op == "S"
		if !okShape {
			fs.add("shape", "deriveFinalKeys is not Ratchet, Absorb(label), Squeeze(key1), Ratchet, Absorb(label), Squeeze(key2)", p.Exit(), p)
			return
		}
		if seq[1].label == "?" || seq[4].label == "?" || seq[1].label == seq[4].label {
			fs.add("labels", "the two directional keys are not separated by distinct constant labels (the two directions could share a key)", p.Exit(), p)
		}
		if !(seq[2].param == 1 && seq[5].param == 2) {
			fs.add("outputs", "the two squeezes do not fill the first and the second key parameter respectively (both directions would get related or identical keys)", p.Exit(), p)
		}
	})
	if ok {
		fs.report(c, "C02.R5", name, []string{"shape", "labels", "outputs"}, P.Pos(fn.Pos()), "ratchet + distinct label + squeeze for each direction")
	}
	// call sites: (&X.clientToServerKey, &X.serverToClientKey)
	fC2S := P.Field("transport", "SessionState", "clientToServerKey")
	fS2C := P.Field("transport", "SessionState", "serverToClientKey")
	fRead := P.Field("transport", "SessionState", "readKey")
	fWrite := P.Field("transport", "SessionState", "writeKey")
	n := 0
	for _, f := range P.ModuleFuncs("transport") {
		for _, cs := range callSitesIn(f, false, hopID("transport", "HandshakeState", "deriveFinalKeys")) {
			n++
			a := cs.Common().Args
			okv := len(a) == 3 && endsInField(a[1], fC2S, false) && endsInField(a[2], fS2C, false)
			c.Check(okv, "C02.R5", "call:deriveFinalKeys@"+FuncName(f), P.InstrPos(cs), "(&clientToServerKey, &serverToClientKey)", "deriveFinalKeys is not called with (&clientToServerKey, &serverToClientKey) in that order: the two ends would disagree on which key protects which direction")
			// no duplex operation between the start of this function's tail and the derivation other than through message functions:
			// direct duplex ops in the caller before the call are not allowed
			bad := false
			eachInstr(f, func(ins ssa.Instruction) {
				if op := duplexOp(ins); op != "" && op != "InitializeEmpty" && dominatesInstr(ins, cs) && FuncName(f) == "transport.(*Server).finishHandshake" {
					bad = true
				}
			})
			c.Check(!bad, "C02.R5", "position:deriveFinalKeys@"+FuncName(f), P.InstrPos(cs), "no extra duplex operation before the derivation in the finisher", "the finisher performs a duplex operation of its own before deriving the keys: the two ends derive from different transcripts")
		}
	}
	c.Floor("C02.R5", "call sites of deriveFinalKeys", n, 2)
	// role assignment
	want := map[string][2]*types.Var{
		"transport.(*Client).clientHandshakeLocked": {fS2C, fC2S}, // read, write
		"transport.(*Server).finishHandshake":       {fC2S, fS2C},
	}
	for fnName, rw := range want {
		f := P.Func("transport", strings.TrimPrefix(fnName, "transport."))
		if f == nil {
			c.Undecided("C02.R5", fnName, "function not found")
			continue
		}
		okR, okW := false, false
		for _, st := range storesToField(f, fRead) {
			if fa, ok := st.Val.(*ssa.FieldAddr); ok && fieldOf(fa.X.Type(), fa.Field) == rw[0] {
				okR = true
			} else {
				okR = false
			}
		}
		for _, st := range storesToField(f, fWrite) {
			if fa, ok := st.Val.(*ssa.FieldAddr); ok && fieldOf(fa.X.Type(), fa.Field) == rw[1] {
				okW = true
			} else {
				okW = false
			}
		}
		c.Check(okR && okW, "C02.R5", "roles@"+fnName, P.Pos(f.Pos()), fmt.Sprintf("reads with %s, writes with %s", rw[0].Name(), rw[1].Name()),
			"this endpoint does not read with the peer's sending key and write with its own: the two directions would use the same key, or neither side could open the other's packets")
	}
}

func c02R6(c *Ctx) { freshInputsRule(c, "C02.R6") }

// freshInputsRule: shared by C02.R6 and C01.R7 (a predictable ephemeral voids the DH-based proof of key possession).
func freshInputsRule(c *Ctx, rule string) {
	P := c.P
	fPriv := P.Field("keys", "X25519KeyPair", "Private")
	fPub := P.Field("keys", "X25519KeyPair", "Public")
	fEph := P.Field("transport", "dhState", "ephemeral")
	if fPriv == nil || fPub == nil || fEph == nil {
		c.Undecided(rule, "keys.X25519KeyPair / transport.dhState.ephemeral", "fields not found")
		return
	}
	// (a) nobody outside package keys writes the key material of a handshake ephemeral
	nW := 0
	for _, fn := range P.ModuleFuncs("transport") {
		eachInstr(fn, func(ins ssa.Instruction) {
			fa, ok := ins.(*ssa.FieldAddr)
			if !ok {
				return
			}
			f := fieldOf(fa.X.Type(), fa.Field)
			if f != fPriv && !(f == fEph) {
				return
			}
			for _, r := range *fa.Referrers() {
				write := false
				switch y := r.(type) {
				case *ssa.Store:
					write = y.Addr == ssa.Value(fa)
				case *ssa.Slice:
					// a slice of the private key handed to something that fills it
					write = f == fPriv && mayWriteThrough(y, 0)
				case *ssa.Call:
					// method calls on the ephemeral: Generate (ok), others that may write?
					if f == fEph {
						if cf := calleeFunc(&y.Call); cf != nil && cf.Name() != "Generate" && cf.Name() != "DH" && cf.Name() != "Agree" && cf.Name() != "Share" {
							write = true
						}
					}
				}
				if write {
					nW++
					c.Fail(rule, "write:ephemeral-key@"+FuncName(fn), P.InstrPos(r), "the key material of a handshake's X25519 ephemeral is written outside keys.Generate: an ephemeral derived from anything the counterpart knows or can predict lets it compute the DH values that are supposed to prove key possession")
				}
			}
		})
	}
	if nW == 0 {
		c.OK(rule, "write:ephemeral-key", "-", "no store to dhState.ephemeral / X25519KeyPair.Private in transport outside Generate")
	}
	// (b) Generate dominates the successful return of the state-creating functions that use the ephemeral for DH
	genID := hopID("keys", "X25519KeyPair", "Generate")
	// the functions that create a DH state whose ephemeral is then used for DH: the cookie replay, the
	// client's handshake, and whichever function allocates the state handed to the hidden-request reader
	// (its wrapper today; the caller when the wrapper is inlined)
	allocsDH := func(f *ssa.Function) bool {
		has := false
		eachInstr(f, func(ins ssa.Instruction) {
			if a, ok := ins.(*ssa.Alloc); ok && a.Heap {
				if pt, ok := a.Type().Underlying().(*types.Pointer); ok && strings.HasSuffix(types.TypeString(pt.Elem(), nil), "transport.dhState") {
					has = true
				}
			}
		})
		return has
	}
	var creators []*ssa.Function
	for _, fnName := range []string{"(*Server).ReplayPQDuplexFromCookie", "(*Client).clientHandshakeLocked"} {
		if fn := P.Func("transport", fnName); fn != nil {
			creators = append(creators, fn)
		} else {
			c.Undecided(rule, "transport."+fnName, "function not found")
		}
	}
	liveT := P.Live()
	for _, f := range P.ModuleFuncs("transport") {
		if !(liveT[f] && f.Parent() == nil && allocsDH(f)) {
			continue
		}
		callsReader := func(g *ssa.Function) bool {
			return len(callSitesIn(g, false, hopID("transport", "Server", "readPQClientRequestHidden"))) > 0
		}
		hidden := callsReader(f)
		if !hidden {
			// a constructor cut out of the function that hands the state to the hidden-request reader
			if edges := P.Callers(f); len(edges) > 0 {
				hidden = true
				for _, e := range edges {
					if e.Site == nil || e.Site.Common().StaticCallee() != f || !callsReader(e.Caller.Func) {
						hidden = false
						continue
					}
					// what f returned is what the caller hands to the reader
					flows := false
					res, _ := e.Site.(*ssa.Call)
					for _, cs := range callSitesIn(e.Caller.Func, false, hopID("transport", "Server", "readPQClientRequestHidden")) {
						for _, a := range cs.Common().Args {
							v := lookThrough(a)
							if ex, ok := v.(*ssa.Extract); ok {
								v = ex.Tuple
							}
							if res != nil && v == ssa.Value(res) {
								flows = true
							}
						}
					}
					if !flows {
						hidden = false
					}
				}
			}
		}
		if hidden {
			creators = append(creators, f)
		}
	}
	c.Floor(rule, "functions that allocate a handshake DH state", len(creators), 3)
	for _, fn := range creators {
		fs := newFailSet()
		succ := 0
		ok := walkAllOpts(c, rule, fn, PathOpts{MaxVisits: 2}, func(p *Path) {
			if !isSuccess(p) {
				return
			}
			// only paths that allocate a DH state (in fn itself) must generate its ephemeral afterwards
			allocAt := -1
			k := 0
			gen := false
			p.ForEach(func(i int, ins ssa.Instruction) bool {
				k++
				if a, ok := ins.(*ssa.Alloc); ok && a.Heap && a.Parent() == fn {
					if pt, ok := a.Type().Underlying().(*types.Pointer); ok && strings.HasSuffix(types.TypeString(pt.Elem(), nil), "transport.dhState") {
						allocAt = k
					}
				}
				if call, ok := ins.(*ssa.Call); ok && allocAt >= 0 && calleeID(call) == genID && hasField(call.Call.Args[0], fEph) {
					gen = true
				}
				return true
			})
			if allocAt < 0 {
				return
			}
			succ++
			if !gen {
				fs.add("generate", "a handshake state is produced on a path that never generates its X25519 ephemeral (a zero or reused ephemeral makes the DH outputs, and with them the proof of key possession, predictable)", p.Exit(), p)
			}
		})
		if ok {
			fs.report(c, rule, FuncName(fn), []string{"generate"}, P.Pos(fn.Pos()), fmt.Sprintf("ephemeral generated on all %d success paths", succ))
		}
	}
	// (c) Generate fills Private from crypto/rand
	if g := P.Func("keys", "(*X25519KeyPair).Generate"); g == nil {
		c.Undecided(rule, "keys.(*X25519KeyPair).Generate", "function not found")
	} else {
		okv := false
		for _, cs := range callSitesIn(g, false, "crypto/rand.Read") {
			if hasField(cs.Common().Args[0], fPriv) {
				okv = true
			}
		}
		c.Check(okv, rule, FuncName(g)+"#entropy", P.Pos(g.Pos()), "Private filled by crypto/rand.Read", "Generate does not fill the private key from crypto/rand")
	}
	// (d) KEM randomness
	n := 0
	for _, fn := range P.ModuleFuncs("transport") {
		for _, cs := range callSitesIn(fn, false, hopID("keys", "", "GenerateKEMKeyPair"), hopID("keys", "", "Encapsulate")) {
			if !P.Live()[fn] {
				continue
			}
			n++
			okv := false
			if u, ok := strip(cs.Common().Args[0]).(*ssa.UnOp); ok {
				if gl, ok := u.X.(*ssa.Global); ok && gl.Pkg.Pkg.Path() == "crypto/rand" && gl.Name() == "Reader" {
					okv = true
				}
			}
			c.Check(okv, rule, fmt.Sprintf("rng:%s@%s", calleeFunc(cs.Common()).Name(), FuncName(fn)), P.InstrPos(cs), "draws from crypto/rand.Reader", "a KEM key pair / encapsulation of the handshake does not draw from crypto/rand.Reader")
		}
	}
	c.Floor(rule, "KEM randomness call sites in live transport code", n, 4)
	// (e) session ids
	if cs := P.Func("transport", "(*Server).createSessionFromHandshakeLocked"); cs != nil {
		fSID := P.Field("transport", "HandshakeState", "sessionID")
		okv := false
		for _, rc := range callSitesIn(cs, false, "crypto/rand.Read") {
			if hasField(rc.Common().Args[0], fSID) {
				okv = true
			}
		}
		c.Check(okv, rule, FuncName(cs)+"#session-id", P.Pos(cs.Pos()), "session id from crypto/rand", "session ids are not drawn from crypto/rand")
	}
}

// mayWriteThrough reports whether slice value v (or a sub-slice of it) is stored
// into, is the destination of a copy, is handed to a known filler (rand.Read,
// io.ReadFull, a Read method) or to a module function that does one of those
// through the corresponding parameter.
func mayWriteThrough(v ssa.Value, depth int) bool {
	if depth > 4 || v.Referrers() == nil {
		return depth > 4
	}
	for _, r := range *v.Referrers() {
		switch y := r.(type) {
		case *ssa.IndexAddr:
			for _, rr := range *y.Referrers() {
				if st, ok := rr.(*ssa.Store); ok && st.Addr == ssa.Value(y) {
					return true
				}
			}
		case *ssa.Slice:
			if mayWriteThrough(y, depth) {
				return true
			}
		case *ssa.Phi:
			if mayWriteThrough(y, depth+1) {
				return true
			}
		case ssa.CallInstruction:
			cc := y.Common()
			if b, ok := cc.Value.(*ssa.Builtin); ok {
				if b.Name() == "copy" && cc.Args[0] == v {
					return true
				}
				continue
			}
			cf := calleeFunc(cc)
			if cf == nil {
				continue
			}
			if cf.Pkg() != nil && strings.HasPrefix(cf.Pkg().Path(), "hop.computer/hop") {
				if sf := r.Parent().Prog.FuncValue(cf); sf != nil && len(sf.Blocks) > 0 {
					args := callArgs(cc)
					for i, a := range args {
						if a == v && i < len(sf.Params) && mayWriteThrough(sf.Params[i], depth+1) {
							return true
						}
					}
				}
				continue
			}
			switch cf.Name() {
			case "Read", "ReadFull", "ReadAtLeast", "PutUint16", "PutUint32", "PutUint64":
				return true
			case "XORKeyStream", "Seal", "Open":
				// only the destination (the first []byte argument) is written
				for _, a := range cc.Args {
					if _, isSlice := a.Type().Underlying().(*types.Slice); isSlice {
						if a == v {
							return true
						}
						break
					}
				}
			}
		}
	}
	return false
}
