package main

// Shared rule shapes built on E1.

import (
	"fmt"
	"go/ast"
	"go/token"
	"go/types"
	"strings"

	"golang.org/x/tools/go/ssa"
)

type pathCall struct {
	call *ssa.Call
	at   int
}

func callsOnPath(p *Path) []pathCall {
	var out []pathCall
	p.ForEach(func(i int, ins ssa.Instruction) bool {
		if c, ok := ins.(*ssa.Call); ok {
			out = append(out, pathCall{c, i})
		}
		return true
	})
	return out
}

// errorConstructors never "fail": their error result is the value being built.
func isErrorConstructor(call *ssa.Call) bool {
	switch calleeID(call) {
	case "errors.New", "fmt.Errorf", "github.com/pkg/errors.New", "github.com/pkg/errors.Errorf", "github.com/pkg/errors.Wrap", "github.com/pkg/errors.Wrapf", "errors.Join":
		return true
	}
	return false
}

// returnedErr resolves the error operand of the return ending p (through phis and defer spills).
func returnedErr(p *Path) ssa.Value {
	r := p.Returns()
	if r == nil {
		return nil
	}
	k := errorResultIndex(p.Fn.Signature)
	if k < 0 || k >= len(r.Results) {
		return nil
	}
	last := len(p.Blocks) - 1
	v := p.Resolve(r.Results[k], last)
	for i := 0; i < 4; i++ {
		u, ok := v.(*ssa.UnOp)
		if !ok || u.Op != token.MUL {
			break
		}
		a, ok := u.X.(*ssa.Alloc)
		if !ok {
			break
		}
		st, bi := p.lastStoreBefore(a, last, u)
		if st == nil {
			break
		}
		v = p.Resolve(st.Val, bi)
	}
	return v
}

// swallowedErrors lists error-returning calls on success path p whose error is
// neither found nil on the path nor the very value returned (propagated).
func swallowedErrors(p *Path, exempt func(*ssa.Call) bool) []*ssa.Call {
	var out []*ssa.Call
	last := len(p.Blocks) - 1
	ret := returnedErr(p)
	for _, pc := range callsOnPath(p) {
		c := pc.call
		if isLogCall(c) || isErrorConstructor(c) {
			continue
		}
		if _, isBuiltin := c.Call.Value.(*ssa.Builtin); isBuiltin {
			continue
		}
		ev := errResultOf(c)
		if errorResultIndex(c.Call.Signature()) < 0 {
			continue
		}
		if exempt != nil && exempt(c) {
			continue
		}
		if c.Call.IsInvoke() {
			// hash.Hash.Write never returns an error (documented contract)
			if nt, ok := c.Call.Value.Type().(*types.Named); ok && nt.Obj().Pkg() != nil && nt.Obj().Pkg().Path() == "hash" && nt.Obj().Name() == "Hash" {
				continue
			}
		}
		if ev == nil {
			out = append(out, c) // error result discarded
			continue
		}
		if ret != nil && strip(ret) == strip(ev) {
			continue // propagated
		}
		if p.Nilness(ev, last) == isNil {
			continue
		}
		out = append(out, c)
	}
	return out
}

// boolOnPath: the boolean result of call as decided by the branches of p.
func boolOnPath(p *Path, call ssa.Value) (val, known bool) {
	for j := len(p.Blocks) - 1; j >= 0; j-- {
		if v, ok := p.FactsAt(j)[atomKey{token.ILLEGAL, canon(call), nil}]; ok {
			return v, true
		}
	}
	return false, false
}

// isSuccess: path ends in a return whose error is not provably non-nil.
func isSuccess(p *Path) bool {
	return p.Returns() != nil && errReturnClass(p) != nonNil
}

// paramIndex returns the index of v among fn's params (-1 if not a param), looking through spills.
func paramIndex(fn *ssa.Function, v ssa.Value) int {
	v = lookThrough(v)
	for i, p := range fn.Params {
		if ssa.Value(p) == v {
			return i
		}
	}
	return -1
}

// describeCall renders a call for messages.
func describeCall(P *Program, c *ssa.Call) string {
	return fmt.Sprintf("%s (%s)", shortCallee(c.Common()), P.InstrPos(c))
}

// fieldLoadFact finds in facts an atom on a load whose access path ends in field f.
func fieldBoolFact(facts map[atomKey]bool, f *types.Var) (val, known bool) {
	for k, v := range facts {
		if k.op == token.ILLEGAL && endsInField(k.x, f, false) {
			return v, true
		}
	}
	return false, false
}

// walkAll enumerates paths and reports incompleteness as undecided. Returns false if undecided.
func walkAll(c *Ctx, rule string, fn *ssa.Function, visit func(p *Path)) bool {
	return walkAllOpts(c, rule, fn, PathOpts{}, visit)
}

func walkAllOpts(c *Ctx, rule string, fn *ssa.Function, opts PathOpts, visit func(p *Path)) bool {
	n, complete := WalkPathsInl(fn, opts, func(p *Path) bool { visit(p); return true })
	if !complete {
		c.Undecided(rule, FuncName(fn), fmt.Sprintf("path bound exceeded after %d paths", n))
		return false
	}
	return true
}

// WalkPathsInl is WalkPaths with the default inlining policy (localHelper) at the deepest
// level whose path count stays within the bound.
func WalkPathsInl(fn *ssa.Function, opts PathOpts, visit func(p *Path) bool) (int, bool) {
	if opts.Inline == nil && !opts.NoInline {
		opts.Inline = localHelper
	}
	if opts.Inline != nil && opts.InlineDepth == 0 {
		// the deepest inlining whose path count stays within the bound (dry runs), else none
		opts.InlineDepth = -1
		for _, d := range []int{2, 1} {
			try := opts
			try.InlineDepth = d
			if _, ok := WalkPaths(fn, try, func(*Path) bool { return true }); ok {
				opts.InlineDepth = d
				break
			}
		}
		if opts.InlineDepth < 0 {
			opts.Inline, opts.InlineDepth = nil, 0
		}
	}
	return WalkPaths(fn, opts, visit)
}

// firstFail collects the first failure per key.
type failSet struct {
	m     map[string]*failRec
	order []string
}
type failRec struct {
	msg  string
	site ssa.Instruction
	path *Path
}

func newFailSet() *failSet { return &failSet{m: map[string]*failRec{}} }
func (f *failSet) add(key, msg string, site ssa.Instruction, p *Path) {
	if f.m[key] == nil {
		f.m[key] = &failRec{msg, site, p}
		f.order = append(f.order, key)
	}
}

// report emits one obligation per key in keys: Fail if recorded, else OK.
func (f *failSet) report(c *Ctx, rule, fnName string, keys []string, okSite, okDetail string) {
	for _, k := range keys {
		cons := fnName + "#" + k
		if r := f.m[k]; r != nil {
			var tr []string
			if r.path != nil {
				tr = pathTrace(c.P, r.path)
			}
			site := okSite
			if r.site != nil {
				site = c.P.InstrPos(r.site)
			}
			c.Fail(rule, cons, site, r.msg, tr...)
		} else {
			c.OK(rule, cons, okSite, okDetail)
		}
	}
	for _, k := range f.order {
		found := false
		for _, k2 := range keys {
			if k2 == k {
				found = true
			}
		}
		if !found {
			r := f.m[k]
			c.Fail(rule, fnName+"#"+k, c.P.InstrPos(r.site), r.msg, pathTrace(c.P, r.path)...)
		}
	}
}

func hasPrefixAny(s string, pre ...string) bool {
	for _, p := range pre {
		if strings.HasPrefix(s, p) {
			return true
		}
	}
	return false
}

// Deref resolves phis and loads of local allocs (through the last store on the path before block ordinal at).
func (p *Path) Deref(v ssa.Value, at int) ssa.Value {
	for i := 0; i < 8; i++ {
		v = p.Resolve(v, at)
		u, ok := v.(*ssa.UnOp)
		if !ok || u.Op != token.MUL {
			return v
		}
		a, ok := u.X.(*ssa.Alloc)
		if !ok {
			return v
		}
		var before ssa.Instruction
		if u.Block() == p.Blocks[min(at, len(p.Blocks)-1)] {
			before = u
		}
		st, bi := p.lastStoreBefore(a, at, before)
		if st == nil {
			return v
		}
		v, at = st.Val, bi
	}
	return v
}

// boolAfter: the truth value of the boolean result of the call occurrence at block
// ordinal at, as decided by the first branch on it after that occurrence.
func boolAfter(p *Path, call ssa.Value, at int) (val, known bool) {
	key := atomKey{token.ILLEGAL, canon(call), nil}
	for j := at + 1; j < len(p.Blocks); j++ {
		if v, ok := p.FactsAt(j)[key]; ok {
			return v, true
		}
		if p.Blocks[j] == p.Blocks[at] {
			break // re-executed before being tested
		}
	}
	return false, false
}

// localHelper is the default inlining policy of the path rules: unexported functions of
// the same package with a modest body. How a function is cut into such helpers is then
// invisible to a rule (extract-method / inline-method refactorings do not change what it sees).
func localHelper(root, callee *ssa.Function) bool {
	if callee.Pkg == nil || root.Pkg == nil || callee.Pkg != root.Pkg {
		return false
	}
	if callee.Synthetic != "" || callee.Parent() != nil {
		return false
	}
	if ast.IsExported(callee.Name()) {
		return false
	}
	if len(callee.Blocks) > 60 {
		return false
	}
	// error constructors (every path returns a non-nil error) are not logic: their
	// internal branching only chooses a message
	if res := callee.Signature.Results(); res.Len() == 1 && isErrorLike(res.At(0).Type()) && alwaysNonNil(callee, 0, 0) {
		return false
	}
	// a helper with many paths of its own (loops over data, long decision chains) multiplies
	// the caller's paths without being "a few lines moved out"
	return ownPathCount(callee) <= 12
}

var ownPathCache = map[*ssa.Function]int{}

func ownPathCount(fn *ssa.Function) int {
	if n, ok := ownPathCache[fn]; ok {
		return n
	}
	// the helper's own paths (its callees opaque); nesting is bounded by PathOpts.InlineDepth
	n, complete := WalkPaths(fn, PathOpts{MaxPaths: 40}, func(*Path) bool { return true })
	if !complete {
		n = 1000
	}
	ownPathCache[fn] = n
	return n
}

// isErrorLike: error, or an interface type that embeds it / declares Error() string.
func isErrorLike(t types.Type) bool {
	if isErrorType(t) {
		return true
	}
	it, ok := t.Underlying().(*types.Interface)
	if !ok {
		return false
	}
	for i := 0; i < it.NumMethods(); i++ {
		if m := it.Method(i); m.Name() == "Error" {
			if sig, ok := m.Type().(*types.Signature); ok && sig.Params().Len() == 0 && sig.Results().Len() == 1 {
				return true
			}
		}
	}
	return false
}

// knownEqual lists the pairs of values found equal on path p at ordinal at: x == y facts,
// bytes.Equal / hmac.Equal / a recognised full-width helper found true,
// subtle.ConstantTimeCompare(...) found == 1. Operands are returned as written (slices of
// arrays included): compare roots with accessPath.
func knownEqual(p *Path, at int) [][2]ssa.Value {
	var out [][2]ssa.Value
	for k, v := range p.FactsAt(at) {
		switch {
		case k.op == token.EQL && k.y != nil && v:
			// ConstantTimeCompare(a, b) == 1
			for _, pr := range [][2]ssa.Value{{k.x, k.y}, {k.y, k.x}} {
				if call, ok := pr[0].(*ssa.Call); ok && calleeID(call) == "crypto/subtle.ConstantTimeCompare" {
					if n, isC := constInt(pr[1]); isC && n == 1 && len(call.Call.Args) == 2 {
						out = append(out, [2]ssa.Value{call.Call.Args[0], call.Call.Args[1]})
					}
				}
			}
			out = append(out, [2]ssa.Value{k.x, k.y})
		case k.op == token.EQL && k.y != nil && !v:
			// ConstantTimeCompare(a, b) != 0 is not equality; == 0 false neither: ignored
		case k.op == token.ILLEGAL && v:
			if call, ok := k.x.(*ssa.Call); ok && len(call.Call.Args) == 2 {
				id := calleeID(call)
				if id == "bytes.Equal" || id == "crypto/hmac.Equal" {
					out = append(out, [2]ssa.Value{call.Call.Args[0], call.Call.Args[1]})
				} else if f := staticCallee(&call.Call); f != nil && InModule(f) && isFullWidthEqual(f) {
					out = append(out, [2]ssa.Value{call.Call.Args[0], call.Call.Args[1]})
				}
			}
		}
	}
	return out
}

// provenance walks the data dependencies of v as they resolve on p, starting at block ordinal 'at':
// through conversions, slices, field / element loads, arithmetic, result extraction and the arguments
// (and receiver) of calls. It returns every call met on the way and the leaves the walk ends in
// (parameters, constants, globals, allocations, field loads of state). Phis resolve to the edge the
// path took, so a value taken from a different source on another branch is not confused with this one.
func provenance(p *Path, v ssa.Value, at int) (calls []*ssa.Call, leaves []ssa.Value) {
	calls, leaves, _ = provenanceNodes(p, v, at)
	return
}

// provenanceNodes: as provenance, also returning every value visited.
func provenanceNodes(p *Path, v ssa.Value, at int) (calls []*ssa.Call, leaves []ssa.Value, nodes []ssa.Value) {
	seen := map[ssa.Value]bool{}
	var walk func(v ssa.Value, at, depth int)
	walk = func(v ssa.Value, at, depth int) {
		if v == nil {
			return
		}
		v = p.Resolve(v, at)
		if seen[v] || depth > 40 {
			return
		}
		seen[v] = true
		nodes = append(nodes, v)
		switch x := v.(type) {
		case *ssa.Call:
			calls = append(calls, x)
			if x.Call.IsInvoke() {
				walk(x.Call.Value, at, depth+1)
			}
			for _, a := range x.Call.Args {
				walk(a, at, depth+1)
			}
		case *ssa.Extract:
			walk(x.Tuple, at, depth+1)
		case *ssa.Convert:
			walk(x.X, at, depth+1)
		case *ssa.ChangeType:
			walk(x.X, at, depth+1)
		case *ssa.ChangeInterface:
			walk(x.X, at, depth+1)
		case *ssa.MakeInterface:
			walk(x.X, at, depth+1)
		case *ssa.TypeAssert:
			walk(x.X, at, depth+1)
		case *ssa.Slice:
			if a, ok := x.X.(*ssa.Alloc); ok {
				// a variadic argument list (or a local array): what was stored into its elements
				n := 0
				for _, r := range *a.Referrers() {
					if ia, ok := r.(*ssa.IndexAddr); ok {
						for _, rr := range *ia.Referrers() {
							if st, ok := rr.(*ssa.Store); ok && st.Addr == ssa.Value(ia) {
								n++
								walk(st.Val, at, depth+1)
							}
						}
					}
				}
				if n > 0 {
					return
				}
			}
			walk(x.X, at, depth+1)
		case *ssa.BinOp:
			walk(x.X, at, depth+1)
			walk(x.Y, at, depth+1)
		case *ssa.Field:
			walk(x.X, at, depth+1)
		case *ssa.Index:
			walk(x.X, at, depth+1)
		case *ssa.Lookup:
			walk(x.X, at, depth+1)
		case *ssa.UnOp:
			if x.Op == token.MUL {
				if a, ok := x.X.(*ssa.Alloc); ok {
					if d := p.Deref(x, at); d != nil && d != ssa.Value(x) {
						walk(d, at, depth+1)
						return
					}
					leaves = append(leaves, a)
					return
				}
				leaves = append(leaves, x)
				return
			}
			walk(x.X, at, depth+1)
		default:
			leaves = append(leaves, v)
		}
	}
	walk(v, at, 0)
	return
}

func describeLeaves(P *Program, leaves []ssa.Value) string {
	var out []string
	for _, l := range leaves {
		if _, isConst := l.(*ssa.Const); isConst {
			continue
		}
		s := apString(l)
		if s == "" {
			s = l.Name()
		}
		out = append(out, s)
		if len(out) == 4 {
			break
		}
	}
	if len(out) == 0 {
		return "no source found"
	}
	return "it comes from " + strings.Join(out, ", ")
}

// pathInt / pathBool fold a value to a constant along the path: phis resolve to the edge taken, the
// result of an inlined call to what the callee returned on this path, comparisons of two such constants
// are evaluated.
func pathInt(p *Path, v ssa.Value, at int) (int64, bool) {
	saved := p.throughCalls
	p.throughCalls = true
	r := p.Resolve(v, at)
	p.throughCalls = saved
	if n, ok := constInt(r); ok {
		return n, true
	}
	if cv, ok := r.(*ssa.Convert); ok {
		return pathInt(p, cv.X, at)
	}
	return 0, false
}

func pathBool(p *Path, v ssa.Value, at int) (bool, bool) {
	saved := p.throughCalls
	p.throughCalls = true
	r := p.Resolve(v, at)
	p.throughCalls = saved
	if b, ok := constBool(r); ok {
		return b, true
	}
	switch x := r.(type) {
	case *ssa.UnOp:
		if x.Op == token.NOT {
			if b, ok := pathBool(p, x.X, at); ok {
				return !b, true
			}
		}
	case *ssa.BinOp:
		a, ok1 := pathInt(p, x.X, at)
		b, ok2 := pathInt(p, x.Y, at)
		if ok1 && ok2 {
			switch x.Op {
			case token.EQL:
				return a == b, true
			case token.NEQ:
				return a != b, true
			case token.LSS:
				return a < b, true
			case token.LEQ:
				return a <= b, true
			case token.GTR:
				return a > b, true
			case token.GEQ:
				return a >= b, true
			}
		}
	}
	if b, known := boolOnPath(p, r); known {
		return b, true
	}
	return false, false
}
