package main

// C18 — Wire encodings round-trip, and re-encoding preserves what was parsed.

func init() { register("C18", checkC18) }

func checkC18(c *Ctx) {
	P := c.P
	c.Rule("C18.R1", "narrowing is guarded: every conversion of a length-derived value to 8 or 16 bits in the encoders (incl. the byte(x>>8), byte(x) pair idiom) is provably within range at the conversion; a guard after the conversion does not count (E3 on the E2 engine)")
	c.Decides("that no length prefix can silently wrap when encoding")
	c.NotDecided("round-trip equality for all values (functional statement)")
	rangeRule(c, "C18.R1", pkgFuncs(P, true, "certs", "common", "userauth", "codex", "portforwarding", "tubes", "authgrants", "transport", "keys"), narrowingObs,
		"a length is narrowed to its wire width without a bound that holds at the conversion: an over-long value is truncated / mis-framed instead of rejected", "length-prefix narrowing conversions", 10)
	c18Layout(c)
	c18FullReads(c)
	c18Consume(c)
	c18HostPort(c)
}
