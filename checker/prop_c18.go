package main

// C18 — Wire encodings round-trip, and re-encoding preserves what was parsed.

func init() { register("C18", checkC18) }

func checkC18(c *Ctx) {
	P := c.P
	c.Rule("C18.R1", "narrowing is guarded: every conversion of a length-derived value to 8 or 16 bits in the encoders (incl. the byte(x>>8), byte(x) pair idiom) is provably within range at the conversion; a guard after the conversion does not count (E3 on the E2 engine)")
	c.Decides("that no length prefix can silently wrap when encoding")
	c.NotDecided("round-trip equality for all values (functional statement)")
	rangeRule(c, "C18.R1", pkgFuncs(P, true, "certs", "common", "userauth", "codex", "portforwarding", "tubes", "authgrants", "transport", "keys"), narrowingObs,
		"a length is narrowed to its wire width without a bound that holds at the conversion: an over-long value is truncated / mis-framed instead of rejected", "length-prefix narrowing conversions", 10)
	c.Rule("C18.R6", "no wrap in a bound test's operand: an addition, constant multiplication or constant shift computed in an 8- or 16-bit unsigned type on a value read from the wire or derived from a length, and compared afterwards, is provably within the type's range at that point (E3 on the E2 engine); no such construct on the pinned tree, the rule's mutants are its positive control")
	c.Decides("that a decoder's or encoder's bound test cannot be defeated by its own operands wrapping (a label length of 253..255 passing `n+3 > size` in byte arithmetic)")
	rangeRule(c, "C18.R6", pkgFuncs(P, true, "certs", "common", "userauth", "codex", "portforwarding", "tubes", "authgrants", "transport", "keys"), narrowArithObs,
		"arithmetic on a wire-derived length is carried out in a narrow unsigned type and may wrap: the bound test it feeds accepts values it was written to reject", "narrow-arithmetic sites feeding a comparison", 0)
	c.NotDecided("wrap in subtractions and in sums that feed a slice expression (run-time bounds check; C10)")
	c18Layout(c)
	c18FullReads(c)
	c18Consume(c)
	c18HostPort(c)
}
