package main

// Anchor re-identification. Rules name their subjects (functions, fields) as they are
// called on the tree the rules were written against. /verif/anchors.json records, for
// every name a rule looked up there, what the subject looked like (receiver, signature,
// the set of callees of its body; the type of a field). When a later tree no longer has
// the name, the subject is looked for under another name: same receiver and signature
// and a sufficiently similar callee set (functions), same struct and type (fields).
// A re-identified anchor is reported in the output and in the evidence; if nothing
// matches unambiguously the lookup fails as before and the rule ends undecided.

import (
	"encoding/json"
	"fmt"
	"go/types"
	"os"
	"path/filepath"
	"sort"
	"strings"
	"sync"

	"golang.org/x/tools/go/ssa"
)

type anchorRec struct {
	Recv    string   `json:"recv,omitempty"`
	Sig     string   `json:"sig,omitempty"`
	Callees []string `json:"callees,omitempty"`
	Type    string   `json:"type,omitempty"`   // fields
	Fields  []string `json:"fields,omitempty"` // struct|rel|typ: the field names of the reference tree
}

var (
	anchorMu      sync.Mutex
	anchorTable   map[string]anchorRec
	anchorLoaded  bool
	anchorRecord  = map[string]anchorRec{}
	anchorRenamed = map[string]string{}
)

func loadAnchors() map[string]anchorRec {
	anchorMu.Lock()
	defer anchorMu.Unlock()
	if anchorLoaded {
		return anchorTable
	}
	anchorLoaded = true
	b, err := os.ReadFile(filepath.Join(verifDir(), "anchors.json"))
	if err != nil {
		return nil
	}
	_ = json.Unmarshal(b, &anchorTable)
	return anchorTable
}

func sigString(sig *types.Signature) string {
	q := func(p *types.Package) string { return p.Path() }
	return types.TypeString(sig.Params(), q) + " " + types.TypeString(sig.Results(), q)
}

func recvString(fn *ssa.Function) string {
	if r := fn.Signature.Recv(); r != nil {
		return types.TypeString(r.Type(), func(p *types.Package) string { return p.Path() })
	}
	return ""
}

func calleeSet(fn *ssa.Function) []string {
	set := map[string]bool{}
	eachInstr(fn, func(ins ssa.Instruction) {
		if cc := callCommon(ins); cc != nil {
			if id := calleeID(ins); id != "" {
				set[id] = true
			} else if b, ok := cc.Value.(*ssa.Builtin); ok {
				set["builtin."+b.Name()] = true
			}
		}
	})
	var out []string
	for k := range set {
		out = append(out, k)
	}
	sort.Strings(out)
	return out
}

func recordFuncAnchor(rel, name string, fn *ssa.Function) {
	if os.Getenv("HOPVERIF_RECORD_ANCHORS") == "" || strings.Contains(name, "$") {
		return
	}
	anchorMu.Lock()
	_, done := anchorRecord["pkgfuncs|"+rel]
	anchorMu.Unlock()
	if !done && curProgram != nil {
		var names []string
		for _, f := range curProgram.ModuleFuncs(rel) {
			if f.Parent() == nil && f.Synthetic == "" {
				names = append(names, strings.TrimPrefix(actualFuncName(f), rel+"."))
			}
		}
		sort.Strings(names)
		anchorMu.Lock()
		anchorRecord["pkgfuncs|"+rel] = anchorRec{Fields: names}
		anchorMu.Unlock()
	}
	anchorMu.Lock()
	defer anchorMu.Unlock()
	anchorRecord["func|"+rel+"|"+name] = anchorRec{Recv: recvString(fn), Sig: sigString(fn.Signature), Callees: calleeSet(fn)}
}

func recordFieldAnchor(rel, typ, field string, v *types.Var) {
	if os.Getenv("HOPVERIF_RECORD_ANCHORS") == "" {
		return
	}
	anchorMu.Lock()
	defer anchorMu.Unlock()
	if P := curProgram; P != nil {
		if sp := P.Pkg(rel); sp != nil {
			if obj := sp.Pkg.Scope().Lookup(typ); obj != nil {
				if st, ok := obj.Type().Underlying().(*types.Struct); ok {
					var names []string
					for i := 0; i < st.NumFields(); i++ {
						names = append(names, st.Field(i).Name())
					}
					anchorRecord["struct|"+rel+"|"+typ] = anchorRec{Fields: names}
				}
			}
		}
	}
	anchorRecord["field|"+rel+"|"+typ+"|"+field] = anchorRec{Type: types.TypeString(v.Type(), func(p *types.Package) string { return p.Path() })}
}

func flushAnchors() {
	path := os.Getenv("HOPVERIF_RECORD_ANCHORS")
	if path == "" {
		return
	}
	anchorMu.Lock()
	defer anchorMu.Unlock()
	old := map[string]anchorRec{}
	if b, err := os.ReadFile(path); err == nil {
		_ = json.Unmarshal(b, &old)
	}
	for k, v := range anchorRecord {
		old[k] = v
	}
	b, _ := json.MarshalIndent(old, "", " ")
	_ = os.WriteFile(path, b, 0o644)
}

func jaccard(a, b []string) float64 {
	if len(a) == 0 && len(b) == 0 {
		return 1
	}
	m := map[string]bool{}
	for _, x := range a {
		m[x] = true
	}
	inter := 0
	for _, x := range b {
		if m[x] {
			inter++
		}
	}
	union := len(a) + len(b) - inter
	if union == 0 {
		return 1
	}
	return float64(inter) / float64(union)
}

// reidentifyFunc looks for the function recorded as (rel, name) under another name.
func (p *Program) reidentifyFunc(rel, name string) *ssa.Function {
	tab := loadAnchors()
	rec, ok := tab["func|"+rel+"|"+name]
	if !ok {
		return nil
	}
	sp := p.Pkg(rel)
	if sp == nil {
		return nil
	}
	// names that still resolve exactly belong to their own anchors
	taken := map[*ssa.Function]bool{}
	for k := range tab {
		parts := strings.SplitN(k, "|", 3)
		if len(parts) == 3 && parts[0] == "func" && parts[1] == rel && parts[2] != name {
			if f := p.funcExact(rel, parts[2]); f != nil {
				taken[f] = true
			}
		}
	}
	// a function that already existed under its present name in the reference tree is itself,
	// not the renamed anchor (a sibling with the same signature must not be mistaken for it)
	existed := map[string]bool{}
	for _, n := range tab["pkgfuncs|"+rel].Fields {
		existed[n] = true
	}
	type cand struct {
		fn    *ssa.Function
		score float64
	}
	var cands []cand
	for _, fn := range p.ModuleFuncs(rel) {
		if fn.Pkg != sp || fn.Parent() != nil || fn.Synthetic != "" || taken[fn] {
			continue
		}
		if existed[strings.TrimPrefix(actualFuncName(fn), rel+".")] {
			continue
		}
		if recvString(fn) != rec.Recv || sigString(fn.Signature) != rec.Sig {
			continue
		}
		cands = append(cands, cand{fn, jaccard(rec.Callees, calleeSet(fn))})
	}
	sort.Slice(cands, func(i, j int) bool { return cands[i].score > cands[j].score })
	if len(cands) == 0 || cands[0].score < 0.5 {
		return nil
	}
	if len(cands) > 1 && cands[1].score > cands[0].score-0.15 {
		return nil
	}
	anchorMu.Lock()
	anchorRenamed[rel+"."+name] = actualFuncName(cands[0].fn)
	anchorMu.Unlock()
	return cands[0].fn
}

// reidentifyField looks for the field recorded as rel.typ.field under another name.
func (p *Program) reidentifyField(rel, typ, field string, st *types.Struct) *types.Var {
	tab := loadAnchors()
	rec, ok := tab["field|"+rel+"|"+typ+"|"+field]
	if !ok {
		return nil
	}
	takenNames := map[string]bool{}
	for k := range tab {
		parts := strings.SplitN(k, "|", 4)
		if len(parts) == 4 && parts[0] == "field" && parts[1] == rel && parts[2] == typ && parts[3] != field {
			takenNames[parts[3]] = true
		}
	}
	// names the struct already had in the reference tree are those fields, not this one
	for _, n := range tab["struct|"+rel+"|"+typ].Fields {
		if n != field {
			takenNames[n] = true
		}
	}
	var found *types.Var
	for i := 0; i < st.NumFields(); i++ {
		f := st.Field(i)
		if takenNames[f.Name()] {
			continue
		}
		if types.TypeString(f.Type(), func(p *types.Package) string { return p.Path() }) != rec.Type {
			continue
		}
		if found != nil {
			return nil // ambiguous
		}
		found = f
	}
	if found != nil {
		anchorMu.Lock()
		anchorRenamed[rel+"."+typ+"."+field] = rel + "." + typ + "." + found.Name()
		anchorMu.Unlock()
	}
	return found
}

func renamedAnchors() []string {
	anchorMu.Lock()
	defer anchorMu.Unlock()
	var out []string
	for k, v := range anchorRenamed {
		out = append(out, fmt.Sprintf("%s is no longer present; re-identified as %s (same receiver and signature, similar body / same struct and type)", k, v))
	}
	sort.Strings(out)
	return out
}

// knownFuncID: some function, method or interface method of the module has this id.
func (p *Program) knownFuncID(id string) bool {
	p.idOnce.Do(func() {
		p.ids = map[string]bool{}
		for _, fn := range p.ModuleFuncs() {
			if fo, ok := fn.Object().(*types.Func); ok {
				p.ids[funcID(fo)] = true
			}
		}
		for _, pk := range p.Roots {
			sc := pk.Types.Scope()
			for _, n := range sc.Names() {
				tn, ok := sc.Lookup(n).(*types.TypeName)
				if !ok {
					continue
				}
				if it, ok := tn.Type().Underlying().(*types.Interface); ok {
					for i := 0; i < it.NumMethods(); i++ {
						p.ids[funcID(it.Method(i))] = true
					}
				}
				if nt, ok := tn.Type().(*types.Named); ok {
					for i := 0; i < nt.NumMethods(); i++ {
						p.ids[funcID(nt.Method(i))] = true
					}
				}
			}
		}
	})
	return p.ids[id]
}

// recordIDAnchor records the function behind a hopID so that it can be re-identified later.
func recordIDAnchor(p *Program, rel, typ, name string) {
	if os.Getenv("HOPVERIF_RECORD_ANCHORS") == "" {
		return
	}
	for _, n := range []string{name, "(*" + typ + ")." + name, typ + "." + name} {
		if (typ == "") != (n == name) {
			continue
		}
		if fn := p.funcExact(rel, n); fn != nil && len(fn.Blocks) > 0 {
			recordFuncAnchor(rel, n, fn)
			return
		}
	}
}

var refNameCache = map[*ssa.Function]string{}
var refNameBusy bool

// referenceName: if fn is a function of the module whose present name the reference tree
// did not have, and it is the re-identification of a recorded anchor whose name is gone,
// the recorded name ("rel.(*T).name"); "" otherwise.
func referenceName(fn *ssa.Function) string {
	P := curProgram
	if P == nil || fn.Parent() != nil || fn.Synthetic != "" || !InModule(fn) {
		return ""
	}
	anchorMu.Lock()
	if n, ok := refNameCache[fn]; ok {
		anchorMu.Unlock()
		return n
	}
	if refNameBusy {
		anchorMu.Unlock()
		return ""
	}
	refNameBusy = true
	anchorMu.Unlock()
	defer func() {
		anchorMu.Lock()
		refNameBusy = false
		anchorMu.Unlock()
	}()
	res := ""
	tab := loadAnchors()
	if tab != nil {
		rel := relPkg(fn)
		actual := actualFuncName(fn)
		short := strings.TrimPrefix(actual, rel+".")
		if _, recorded := tab["func|"+rel+"|"+short]; !recorded {
			for k := range tab {
				parts := strings.SplitN(k, "|", 3)
				if len(parts) != 3 || parts[0] != "func" || parts[1] != rel {
					continue
				}
				if P.funcExact(rel, parts[2]) != nil {
					continue
				}
				if P.reidentifyFunc(rel, parts[2]) == fn {
					res = rel + "." + parts[2]
					break
				}
			}
		}
	}
	anchorMu.Lock()
	refNameCache[fn] = res
	anchorMu.Unlock()
	return res
}
