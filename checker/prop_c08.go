package main

// C08 — Reliable tubes deliver the written byte stream in order, intact and complete.
// C09 — Tubes are isolated from each other and from earlier tubes with the same id.

import (
	"fmt"
	"go/token"
	"go/types"

	"golang.org/x/tools/go/ssa"
)

func init() {
	register("C08", checkC08)
	register("C09", checkC09)
}

func checkC08(c *Ctx) {
	P := c.P
	c.Rule("C08.R1", "the retransmission buffer shrinks only when acknowledged: sender.frames is re-sliced only in recvAck inside the loop guarded by s.ackNo < newAckNo, and appended to only in write and sendFin (E4 who-may-write, classified by the stored value)")
	c.Rule("C08.R2", "in-order reassembly: in processIntoBuffer every buffer.Write(frag.value) is on the equal edge of r.windowStart == frag.priority and is followed, in that iteration, by exactly one windowStart++ and one ackNo++; a fragment ahead of the window is pushed back; receive pushes only frames that are in bounds and carry data or FIN (E1)")
	c.Rule("C08.R3", "FIN is numbered after all data and ends writing: sendFin takes s.frameNo and then increments it under s.m and sets finSent; write appends nothing once finSent is set; the receiver marks end-of-stream only for the in-order FIN fragment (E1)")
	c.Rule("C08.R4", "the retransmission timer stays armed: every path of recvAck that stops the ticker and returns a nil error re-arms it (resetRetransmitTicker) after the stop (E1 pairing)")
	c.Decides("who may discard unacknowledged data, the in-order condition of delivery, FIN ordering (incl. that a FIN acts only once consumed in order), stop/re-arm pairing of the retransmission timer, that every REQ is answered, ownership of the receive buffer and of frame payloads")
	c.NotDecided("liveness under outage and recovery (incl. how many frames a retransmission timeout resends: seeded change C08-5 is not reported), duplicate-ack limits, RTO arithmetic, sequence-number unwrapping (value- and schedule-dependent)")

	fFrames := P.Field("tubes", "sender", "frames")
	if fFrames == nil {
		c.Undecided("C08.R1", "tubes.sender.frames", "field not found")
		return
	}
	// ---- R1
	ws := P.HoistWrites(P.FieldWrites(fFrames, "tubes"), func(fn *ssa.Function) bool {
		switch FuncName(fn) {
		case "tubes.(*sender).write", "tubes.(*sender).sendFin", "tubes.(*sender).recvAck", "tubes.newSender":
			return true
		}
		return false
	})
	fAck := P.Field("tubes", "sender", "ackNo")
	for _, w := range ws {
		fn := FuncName(w.Fn)
		kind := "other"
		if w.Kind == "store" && w.Val != nil {
			switch v := strip(w.Val).(type) {
			case *ssa.Call:
				if b, ok := v.Call.Value.(*ssa.Builtin); ok && b.Name() == "append" && endsInField(v.Call.Args[0], fFrames, false) {
					kind = "append"
				}
			case *ssa.Slice:
				if endsInField(v.X, fFrames, false) {
					kind = "shrink"
				}
			case *ssa.MakeSlice:
				kind = "init"
			case *ssa.Const:
				kind = "init"
			}
		}
		cons := fmt.Sprintf("write:sender.frames(%s)@%s", kind, fn)
		switch kind {
		case "append":
			c.Check(fn == "tubes.(*sender).write" || fn == "tubes.(*sender).sendFin", "C08.R1", cons, P.InstrPos(w.Instr), "frames queued by write / sendFin", "the retransmission buffer is appended to outside sender.write / sender.sendFin")
		case "shrink":
			okv := fn == "tubes.(*sender).recvAck"
			if okv {
				// guarded by ackNo < newAckNo
				mf := ComputeMustFacts(w.Fn)
				g := false
				for k, v := range mf.At(w.Instr) {
					if k.op == token.LSS && v && lastField(k.x) == fAck {
						g = true
					}
				}
				okv = g
			}
			c.Check(okv, "C08.R1", cons, P.InstrPos(w.Instr), "dropped only as acknowledged (loop guarded by ackNo < newAckNo)",
				"a frame is removed from the retransmission buffer without having been acknowledged: if it was lost, the stream the peer reads has a hole it can never fill (or stalls forever)")
		case "init":
			c.OK("C08.R1", cons, P.InstrPos(w.Instr), "construction")
		default:
			c.Fail("C08.R1", cons, P.InstrPos(w.Instr), "the retransmission buffer is overwritten in a way that is neither an append nor an acknowledged drop")
		}
	}
	c.Floor("C08.R1", "writers of sender.frames", len(ws), 3)

	c08R5(c)
	c08R6(c)
	c.Rule("C08.R7", "acknowledged bytes reach the reader: receiver.buffer is appended to only by processIntoBuffer, consumed only by the receiver's read function, never reset, truncated, exposed or replaced (see C16.R6) (E4 who-may-call, classified by method)")
	recvBufferOwners(c, "C08.R7")
	c.Rule("C08.R8", "never corrupted: a frame payload that outlives the call that decoded it is a private copy — the decoder copies it out of the muxer's reused read buffer, or every retaining site (reassembly heap, unreliable queue) does (see C09.R6) (def-use)")
	payloadOwnershipRule(c, "C08.R8")
	c08R2(c)
	c08R3(c)
	c08R4(c)
}

func c08R2(c *Ctx) {
	P := c.P
	fn := P.Func("tubes", "(*receiver).processIntoBuffer")
	fWS := P.Field("tubes", "receiver", "windowStart")
	fAckNo := P.Field("tubes", "receiver", "ackNo")
	fBuf := P.Field("tubes", "receiver", "buffer")
	fPrio := P.Field("tubes", "pqItem", "priority")
	fVal := P.Field("tubes", "pqItem", "value")
	fFIN := P.Field("tubes", "pqItem", "FIN")
	fClosed := P.Field("tubes", "receiver", "closed")
	if fn == nil || fWS == nil || fAckNo == nil || fBuf == nil || fPrio == nil || fVal == nil || fFIN == nil || fClosed == nil {
		c.Undecided("C08.R2", "tubes.(*receiver).processIntoBuffer", "function or fields not found")
		return
	}
	name := FuncName(fn)
	c.Analysed(name)
	fs := newFailSet()
	fs3 := newFailSet()
	nWrites := 0
	isIncOf := func(st *ssa.Store, f *types.Var) bool {
		if !endsInField(st.Addr, f, false) {
			return false
		}
		b, ok := st.Val.(*ssa.BinOp)
		if !ok || b.Op != token.ADD {
			return false
		}
		n, isC := constInt(b.Y)
		return isC && n == 1 && endsInField(b.X, f, false)
	}
	ok := walkAllOpts(c, "C08.R2", fn, PathOpts{MaxVisits: 3}, func(p *Path) {
		// walk the path; track the in-order fact of the current iteration
		inOrder := false
		var pendingWrite ssa.Instruction
		incWS, incAck := 0, 0
		flush := func(at ssa.Instruction) {
			if pendingWrite != nil {
				if incWS != 1 || incAck != 1 {
					fs.add("advance", fmt.Sprintf("after delivering a fragment the window start is advanced %d time(s) and the ack number %d time(s) in that iteration (exactly once each required: a fragment would be delivered twice or the next one skipped)", incWS, incAck), pendingWrite, p)
				}
			}
			pendingWrite, incWS, incAck = nil, 0, 0
		}
		for i, b := range p.Blocks {
			// new iteration: the heap.Pop
			for _, ins := range b.Instrs {
				switch x := ins.(type) {
				case *ssa.Call:
					if calleeID(x) == "container/heap.Pop" {
						flush(ins)
						inOrder = false
					}
					if calleeID(x) == "(bytes.Buffer).Write" {
						if len(x.Call.Args) == 2 && endsInField(x.Call.Args[0], fBuf, false) {
							nWrites++
							if !endsInField(p.Deref(x.Call.Args[1], i), fVal, false) {
								fs.add("in-order", "something other than the fragment's payload is written to the stream buffer", ins, p)
							}
							if !inOrder {
								fs.add("in-order", "a fragment is written to the stream buffer on a path where its number was not found equal to the window start (out-of-order or duplicate data would reach the reader)", ins, p)
							}
							if pendingWrite != nil {
								fs.add("advance", "two fragments are delivered without advancing the window in between", ins, p)
							}
							pendingWrite = ins
						}
					}
					if calleeID(x) == "(sync/atomic.Bool).Store" && len(x.Call.Args) == 2 && endsInField(x.Call.Args[0], fClosed, false) {
						finFact := false
						for k, v := range p.FactsAt(i) {
							if k.op == token.ILLEGAL && v && lastField(k.x) == fFIN {
								finFact = true
							}
						}
						if !inOrder || !finFact {
							fs3.add("eof-in-order", "the receiver marks end-of-stream for a fragment that is not the in-order FIN (EOF could be reported before all earlier bytes were delivered)", ins, p)
						}
					}
				case *ssa.Store:
					if isIncOf(x, fWS) {
						incWS++
					} else if endsInField(x.Addr, fWS, false) {
						fs.add("advance", "the window start is assigned something other than windowStart+1", ins, p)
					}
					if isIncOf(x, fAckNo) {
						incAck++
					}
				}
			}
			// in-order fact established on the edge leaving b
			if i+1 < len(p.Blocks) {
				if t, ok := b.Instrs[len(b.Instrs)-1].(*ssa.If); ok {
					key, pol := normCond(t.Cond)
					if key.op == token.EQL && key.y != nil {
						fx, fy := lastField(key.x), lastField(key.y)
						if (fx == fWS && fy == fPrio) || (fx == fPrio && fy == fWS) {
							took := b.Succs[0] == p.Blocks[i+1]
							inOrder = (took == pol)
						}
					}
				}
			}
		}
		flush(nil)
	})
	if ok {
		fs.report(c, "C08.R2", name, []string{"in-order", "advance"}, P.Pos(fn.Pos()), "delivery only on the equal edge; window and ack advance exactly once per delivered fragment")
		fs3.report(c, "C08.R3", name, []string{"eof-in-order"}, P.Pos(fn.Pos()), "end-of-stream only for the in-order FIN")
		c.Floor("C08.R2", "stream-buffer writes on paths of processIntoBuffer", nWrites, 1)
	}
	// push-back of fragments ahead of the window: heap.Push of the popped fragment under priority > windowStart
	mf := ComputeMustFacts(fn)
	nPush := 0
	for _, cs := range callSitesIn(fn, false, "container/heap.Push") {
		nPush++
		g := false
		for k, v := range mf.At(cs) {
			if k.op == token.LSS && v && lastField(k.x) == fWS && lastField(k.y) == fPrio {
				g = true
			}
		}
		c.Check(g, "C08.R2", name+"#push-back", P.InstrPos(cs), "pushed back only when ahead of the window", "a fragment is pushed back onto the reorder heap without being ahead of the window (stale fragments would accumulate or loop)")
	}
	c.Floor("C08.R2", "push-back sites in processIntoBuffer", nPush, 1)
	// receive: pushes only in-bounds data/FIN frames
	rc := P.Func("tubes", "(*receiver).receive")
	if rc == nil {
		c.Undecided("C08.R2", "tubes.(*receiver).receive", "function not found")
		return
	}
	c.Analysed(FuncName(rc))
	mf2 := ComputeMustFacts(rc)
	for _, cs := range callSitesIn(rc, false, "container/heap.Push") {
		inb := false
		for k, v := range mf2.At(cs) {
			if k.op == token.ILLEGAL && v {
				if call, ok := k.x.(*ssa.Call); ok && calleeID(call) == hopID("tubes", "", "frameInBounds") {
					inb = true
				}
			}
		}
		// decided on paths (the helper, whatever its name, is inlined) from the order atoms
		_ = inb
		inb = c08PushInBounds(c, rc, cs, fWS, fPrio)
		c.Check(inb, "C08.R2", FuncName(rc)+"#push-in-bounds", P.InstrPos(cs), "pushed only when the frame number lies in the receive window", "a frame is pushed onto the reorder heap without the receive-window bounds test (a frame far outside the window could be delivered later as if in order)")
	}
}

// c08PushInBounds: on every path to the push, with F the priority pushed, W the window start and
// E = W + const the window end: if W < E then neither E < F nor F < W; otherwise not both.
func c08PushInBounds(c *Ctx, rc *ssa.Function, push ssa.Instruction, fWS, fPrio *types.Var) bool {
	okAll, seen := true, false
	walkOK := walkAllOpts(c, "C08.R2", rc, PathOpts{MaxVisits: 2}, func(p *Path) {
		at := -1
		var F ssa.Value
		p.ForEach(func(i int, ins ssa.Instruction) bool {
			if st, ok := ins.(*ssa.Store); ok && lastField(st.Addr) == fPrio && at < 0 {
				F = p.Resolve(st.Val, i)
			}
			if ins == push {
				at = i
				return false
			}
			return true
		})
		if at < 0 {
			return
		}
		seen = true
		if F == nil {
			okAll = false
			return
		}
		role := func(v ssa.Value) byte {
			v = p.Resolve(v, at)
			switch {
			case v == F:
				return 'F'
			case lastField(v) == fWS:
				return 'W'
			}
			if b, ok := v.(*ssa.BinOp); ok && b.Op == token.ADD {
				if _, isC := constInt(b.Y); isC && lastField(p.Resolve(b.X, at)) == fWS {
					return 'E'
				}
			}
			return 0
		}
		known := map[string]bool{}
		val := map[string]bool{}
		for k, v := range p.FactsAt(at) {
			if k.op != token.LSS {
				continue
			}
			a, b := role(k.x), role(k.y)
			if a == 0 || b == 0 {
				continue
			}
			key := string([]byte{a, '<', b})
			known[key], val[key] = true, v
		}
		switch {
		case known["W<E"] && val["W<E"]:
			if !(known["E<F"] && !val["E<F"] && known["F<W"] && !val["F<W"]) {
				okAll = false
			}
		case known["W<E"] && !val["W<E"]:
			if !((known["E<F"] && !val["E<F"]) || (known["F<W"] && !val["F<W"])) {
				okAll = false
			}
		default:
			okAll = false
		}
	})
	return walkOK && seen && okAll
}

func c08R3(c *Ctx) {
	P := c.P
	sf := P.Func("tubes", "(*sender).sendFin")
	wr := P.Func("tubes", "(*sender).write")
	fFrameNo := P.Field("tubes", "sender", "frameNo")
	fFin := P.Field("tubes", "sender", "finSent")
	fM := P.Field("tubes", "sender", "m")
	fFrames := P.Field("tubes", "sender", "frames")
	fBuffer := P.Field("tubes", "sender", "buffer")
	if sf == nil || wr == nil || fFrameNo == nil || fFin == nil || fM == nil {
		c.Undecided("C08.R3", "tubes.(*sender).sendFin / write", "function or fields not found")
		return
	}
	c.Analysed(FuncName(sf))
	c.Analysed(FuncName(wr))
	fs := newFailSet()
	fins := 0
	ok := walkAll(c, "C08.R3", sf, func(p *Path) {
		held, took, incd, set := false, false, false, false
		appended := false
		fFrameNoOfFrame := P.Field("tubes", "frame", "frameNo")
		order := map[ssa.Instruction]int{}
		tick := 0
		var finLoad ssa.Instruction
		var incStore ssa.Instruction
		nInc := 0
		p.ForEach(func(i int, ins ssa.Instruction) bool {
			tick++
			order[ins] = tick
			switch x := ins.(type) {
			case *ssa.Call:
				if calleeID(x) == "(sync.Mutex).Lock" && endsInField(x.Call.Args[0], fM, false) {
					held = true
				}
			case *ssa.UnOp:
				if x.Op == token.MUL && endsInField(x, fFrameNo, false) {
					if _, isFA := x.X.(*ssa.FieldAddr); isFA && !incd {
						took = true
					}
				}
			case *ssa.Store:
				if fFrameNoOfFrame != nil && endsInField(x.Addr, fFrameNoOfFrame, false) && !endsInField(x.Addr, fFrameNo, false) {
					if l, ok := p.Deref(x.Val, i).(*ssa.UnOp); ok && endsInField(l, fFrameNo, false) {
						finLoad = l
					}
				}
				if endsInField(x.Addr, fFrameNo, false) {
					if incStore == nil {
						incStore = ins // the first change of the frame number on this path
					}
					nInc++
					if !took {
						fs.add("fin-number", "sendFin increments the frame number before taking it for the FIN frame (the FIN would carry a number that is never filled or collides with data)", ins, p)
					}
					if !held {
						fs.add("fin-number", "sendFin changes the frame number without holding s.m", ins, p)
					}
					incd = true
				}
				if endsInField(x.Addr, fFin, false) {
					if v, isC := constBool(x.Val); isC && v {
						set = true
					}
				}
				if endsInField(x.Addr, fFrames, false) {
					appended = true
				}
			}
			return true
		})
		if appended {
			fins++
			if finLoad == nil || incStore == nil || order[finLoad] > order[incStore] || nInc != 1 {
				fs.add("fin-number", "the FIN frame does not carry the frame number read before the increment (it must be the number right after the last data frame, so that it is ordered after all data and before nothing)", p.Exit(), p)
			}
			if !incd || !set {
				fs.add("fin-number", "a FIN frame is queued on a path that does not both advance the frame number and set finSent", p.Exit(), p)
			}
		}
	})
	if ok {
		fs.report(c, "C08.R3", FuncName(sf), []string{"fin-number"}, P.Pos(sf.Pos()), "FIN takes the next frame number under s.m and sets finSent")
		c.Floor("C08.R3", "FIN-queueing paths of sendFin", fins, 1)
	}
	// write: nothing appended once finSent
	mf := ComputeMustFacts(wr)
	n := 0
	eachInstr(wr, func(ins ssa.Instruction) {
		st, ok := ins.(*ssa.Store)
		if !ok || !(endsInField(st.Addr, fFrames, false) || endsInField(st.Addr, fBuffer, false)) {
			return
		}
		n++
		v, known := fieldBoolFact(mf.At(ins), fFin)
		c.Check(known && !v, "C08.R3", FuncName(wr)+"#no-write-after-fin", P.InstrPos(ins), "data queued only while finSent is false", "sender.write queues data on a path where finSent was not found false (bytes could be numbered after the FIN and never delivered, or delivered after end-of-stream)")
	})
	c.Floor("C08.R3", "queueing stores in sender.write", n, 2)
}

func c08R4(c *Ctx) {
	P := c.P
	fn := P.Func("tubes", "(*sender).recvAck")
	fTicker := P.Field("tubes", "sender", "RetransmitTicker")
	if fn == nil || fTicker == nil {
		c.Undecided("C08.R4", "tubes.(*sender).recvAck", "function or field not found")
		return
	}
	name := FuncName(fn)
	c.Analysed(name)
	fs := newFailSet()
	stops := 0
	reset := hopID("tubes", "sender", "resetRetransmitTicker")
	ok := walkAll(c, "C08.R4", fn, func(p *Path) {
		stopped := false
		p.ForEach(func(i int, ins ssa.Instruction) bool {
			call, ok := ins.(*ssa.Call)
			if !ok {
				return true
			}
			switch calleeID(call) {
			case "(time.Ticker).Stop":
				if endsInField(call.Call.Args[0], fTicker, false) {
					stopped = true
					stops++
				}
			case "(time.Ticker).Reset":
				if endsInField(call.Call.Args[0], fTicker, false) {
					stopped = false
				}
			case reset:
				stopped = false
			}
			return true
		})
		if stopped && isSuccess(p) {
			fs.add("re-arm", "recvAck stops the retransmission ticker and returns without error on a path that never re-arms it: if the next flight is lost nothing will ever retransmit it (the stream stalls for good)", p.Exit(), p)
		}
	})
	if ok {
		fs.report(c, "C08.R4", name, []string{"re-arm"}, P.Pos(fn.Pos()), "every non-failing path re-arms the ticker after stopping it")
		c.Floor("C08.R4", "ticker stops on paths of recvAck", stops, 1)
	}
}

// ---------------------------------------------------------------------------
// C09

// c08R5: loss of the RESP datagram is survivable only because the initiator repeats its REQ and the
// responder answers it again, whatever it has done in between.
func c08R5(c *Ctx) {
	P := c.P
	c.Rule("C08.R5", "every request to open is answered: on each path of Reliable.receiveInitiatePkt that handles a frame with the REQ flag and returns without queueing a response, the tube was found closed (a responder that stops answering repeated REQs once it has started to close leaves the initiator, whose first RESP was lost, waiting forever with the data it was sent unreadable) (E1 decision table)")
	fn := P.Func("tubes", "(*Reliable).receiveInitiatePkt")
	fREQ := P.Field("tubes", "frameFlags", "REQ")
	fState := P.Field("tubes", "Reliable", "tubeState")
	fQ := P.Field("tubes", "Reliable", "sendQueue")
	if fn == nil || fREQ == nil || fState == nil || fQ == nil {
		c.Undecided("C08.R5", "tubes.(*Reliable).receiveInitiatePkt", "function or fields not found")
		return
	}
	closedC := pkgConst(P, "tubes", "closed")
	name := FuncName(fn)
	c.Analysed(name)
	fs := newFailSet()
	nReq := 0
	ok := walkAll(c, "C08.R5", fn, func(p *Path) {
		if p.Returns() == nil || errReturnClass(p) == nonNil {
			return
		}
		facts := p.FactsAt(len(p.Blocks) - 1)
		req := false
		for k, v := range facts {
			if k.op == token.ILLEGAL && v && lastField(k.x) == fREQ {
				req = true
			}
		}
		if !req {
			return
		}
		nReq++
		sends := 0
		p.ForEach(func(i int, ins ssa.Instruction) bool {
			if sd, ok := ins.(*ssa.Send); ok && lastField(sd.Chan) == fQ {
				sends++
			}
			return true
		})
		if sends > 0 {
			return
		}
		isClosed := false
		for k, v := range facts {
			if k.op == token.EQL && k.y != nil && v {
				for _, pr := range [][2]ssa.Value{{k.x, k.y}, {k.y, k.x}} {
					if n, isC := constInt(pr[1]); isC && n == closedC && lastField(pr[0]) == fState {
						isClosed = true
					}
				}
			}
		}
		if !isClosed {
			fs.add("req-answered", "a frame with the REQ flag is left unanswered on a path where the tube was not found closed: if the first RESP was lost, the initiator's repeated REQs are ignored once the responder has begun to close, the initiator stays un-initiated and never reads the bytes written to it", p.Exit(), p)
		}
	})
	if ok {
		fs.report(c, "C08.R5", name, []string{"req-answered"}, P.Pos(fn.Pos()), fmt.Sprintf("REQ answered, or the tube is closed, on all %d REQ paths", nReq))
		c.Floor("C08.R5", "paths of receiveInitiatePkt that handle a REQ", nReq, 2)
	}
}

func checkC09(c *Ctx) {
	P := c.P
	c.Rule("C09.R1", "one key, three users: addTube, getTube, reapTube and pickTubeID select reliableTubes vs unreliableTubes by the same reliability predicate and index by the tube id; IsReliable is constant true / false on the two implementations; receiver looks up with (REL flag, tube id) of the frame it dispatches (E1)")
	c.Rule("C09.R2", "id choice and insertion are one critical section: in Create*Tube m.m is held from before pickTubeID until make...TubeWithID (which inserts) returned, with no unlock in between (E1 order)")
	c.Rule("C09.R3", "offered once, as requested: the accept queue is sent to only in make...TubeWithID under !req; those are called with req=false only from receiver, on the not-found edge of getTube under the REQ flag, with the type and reliability of that frame (E4 + E1)")
	c.Rule("C09.R4", "one frame per unreliable message: WriteMsgUDP builds one frame with data = b and dataLength = len(b) and sends it once; Unreliable.receive enqueues the frame's payload once (E1)")
	c.Rule("C09.R5", "the two ends pick from disjoint id sets: pickTubeID starts at int(m.idParity), steps by 2, stays below 256 before narrowing and returns an id only on the not-present edge of the map of the requested reliability; newMuxer assigns parity 0 iff isServer; Client / Server pass false / true (induction shape + E1)")
	c.Rule("C09.R6", "payload ownership: a frame payload that outlives the call that decoded it is a private copy, never a slice of the muxer's reused read buffer: the decoder copies, or every retaining site (reassembly heap, unreliable queue) does (def-use)")
	c.Rule("C09.R7", "id quarantine covers the peer's last-ack wait: the multiple of the RTT estimate for which reapTube keeps a closed reliable tube's id reserved is not smaller than the multiple after which enterLastAckState gives up waiting for the final ACK (otherwise the id is handed to a new tube while the peer still maps it to the old one) (sibling constants)")
	c.Decides("keying of the tube tables, atomicity of id allocation, single offer (on every returning path once registered), framing of unreliable messages (no retained fragments), parity split, payload ownership, the quarantine / last-ack multipliers")
	c.NotDecided("late frames of a closed tube reaching a successor with the same id (history-dependent); interleavings; the two ends' RTT estimates differing")
	c09R7(c)
	c09R8(c)

	fRel := P.Field("tubes", "Muxer", "reliableTubes")
	fUnrel := P.Field("tubes", "Muxer", "unreliableTubes")
	if fRel == nil || fUnrel == nil {
		c.Undecided("C09.R1", "tubes.Muxer.reliableTubes/unreliableTubes", "fields not found")
		return
	}
	// ---- R1
	isRelID1, isRelID2 := hopID("tubes", "Tube", "IsReliable"), hopID("tubes", "Reliable", "IsReliable")
	nAcc := 0
	fRELflag := P.Field("tubes", "frameFlags", "REL")
	fFrameTubeID := P.Field("tubes", "frame", "tubeID")
	fInitTubeID := P.Field("tubes", "initiateFrame", "tubeID")
	// every function of the package that makes a keyed access to one of the two tables
	var accessors []*ssa.Function
	for _, f := range P.ModuleFuncs("tubes") {
		keyed := false
		eachInstr(f, func(ins ssa.Instruction) {
			var m ssa.Value
			switch x := ins.(type) {
			case *ssa.Lookup:
				m = x.X
			case *ssa.MapUpdate:
				m = x.Map
			case *ssa.Call:
				if b, ok := x.Call.Value.(*ssa.Builtin); ok && b.Name() == "delete" {
					m = x.Call.Args[0]
				}
			}
			if m != nil && (endsInField(m, fRel, false) || endsInField(m, fUnrel, false)) {
				keyed = true
			}
		})
		if keyed {
			accessors = append(accessors, f)
		}
	}
	for _, fn := range accessors {
		c.Analysed(FuncName(fn))
		mf := ComputeMustFacts(fn)
		predAt := func(ins ssa.Instruction) (val, known bool) {
			for k, v := range mf.At(ins) {
				if k.op != token.ILLEGAL {
					continue
				}
				if call, ok := k.x.(*ssa.Call); ok {
					if id := calleeID(call); id == isRelID1 || id == isRelID2 {
						return v, true
					}
				}
				if prm, ok := lookThrough(k.x).(*ssa.Parameter); ok {
					if bt, isB := prm.Type().Underlying().(*types.Basic); isB && bt.Kind() == types.Bool {
						return v, true // the reliability the caller asks for
					}
				}
				if fRELflag != nil && lastField(k.x) == fRELflag {
					return v, true // the REL flag of the frame being dispatched
				}
			}
			return false, false
		}
		check := func(ins ssa.Instruction, m ssa.Value, key ssa.Value) {
			var which *types.Var
			switch {
			case endsInField(m, fRel, false):
				which = fRel
			case endsInField(m, fUnrel, false):
				which = fUnrel
			default:
				return
			}
			nAcc++
			v, known := predAt(ins)
			okv := known && (v == (which == fRel))
			c.Check(okv, "C09.R1", fmt.Sprintf("%s#%s", FuncName(fn), which.Name()), P.InstrPos(ins), "map selected by the reliability predicate",
				"a tube table is accessed under the wrong (or no) reliability predicate: a reliable and an unreliable tube with the same id would be confused, and one tube's frames delivered on the other")
			// key is the tube id
			if key != nil {
				kOK := false
				kv := strip(key)
				if call, _ := fromCall(kv); call != nil && calleeFunc(&call.Call) != nil && calleeFunc(&call.Call).Name() == "GetID" {
					kOK = true
				}
				if prm, ok := lookThrough(kv).(*ssa.Parameter); ok {
					if bt, isB := prm.Type().Underlying().(*types.Basic); isB && (bt.Kind() == types.Uint8 || bt.Kind() == types.Byte) {
						kOK = true // the tube id asked for
					}
				}
				if lf := lastField(kv); lf != nil && (lf == fFrameTubeID || lf == fInitTubeID) {
					kOK = true // the tube id of the frame being dispatched
				}
				if cv, ok := kv.(*ssa.Convert); ok {
					if _, isPhi := cv.X.(*ssa.Phi); isPhi {
						kOK = true // the candidate id of pickTubeID
					}
				}
				c.Check(kOK, "C09.R1", fmt.Sprintf("%s#%s:key", FuncName(fn), which.Name()), P.InstrPos(ins), "indexed by the tube id", "a tube table is indexed by something other than the tube id")
			}
		}
		eachInstr(fn, func(ins ssa.Instruction) {
			switch x := ins.(type) {
			case *ssa.Lookup:
				check(ins, x.X, x.Index)
			case *ssa.MapUpdate:
				check(ins, x.Map, x.Key)
			case *ssa.Call:
				if b, ok := x.Call.Value.(*ssa.Builtin); ok && b.Name() == "delete" {
					check(ins, x.Call.Args[0], x.Call.Args[1])
				}
			}
		})
	}
	c.Floor("C09.R1", "keyed tube-table accesses in package tubes", nAcc, 8)
	for _, spec := range []struct {
		fn   string
		want bool
	}{{"(*Reliable).IsReliable", true}, {"(*Unreliable).IsReliable", false}} {
		fn := P.Func("tubes", spec.fn)
		okv := fn != nil
		if fn != nil {
			for _, b := range fn.Blocks {
				if r, ok := b.Instrs[len(b.Instrs)-1].(*ssa.Return); ok {
					v, isC := constBool(r.Results[0])
					if !isC || v != spec.want {
						okv = false
					}
				}
			}
		}
		c.Check(okv, "C09.R1", "tubes."+spec.fn+"#const", "-", fmt.Sprintf("constant %v", spec.want), "IsReliable is not the constant it must be for this tube kind")
	}
	// receiver dispatch: getTube(frame.flags.REL, frame.tubeID)
	rcv := P.Func("tubes", "(*Muxer).receiver")
	fREL := P.Field("tubes", "frameFlags", "REL")
	fTubeID := P.Field("tubes", "frame", "tubeID")
	if rcv != nil && fREL != nil && fTubeID != nil {
		c.Analysed(FuncName(rcv))
		if P.Func("tubes", "(*Muxer).getTube") == nil {
			c.OK("C09.R1", FuncName(rcv)+"#dispatch", P.Pos(rcv.Pos()), "no getTube helper: the receiver's own table accesses are checked above (REL flag, frame tube id)")
		}
		for _, cs := range callSitesIn(rcv, false, hopID("tubes", "Muxer", "getTube")) {
			a := cs.Common().Args
			okv := len(a) == 3 && endsInField(a[1], fREL, false) && endsInField(a[2], fTubeID, false)
			if okv {
				r1, _ := accessPath(a[1])
				r2, _ := accessPath(a[2])
				okv = loadSourceOrSelf(r1) == loadSourceOrSelf(r2)
			}
			c.Check(okv, "C09.R1", FuncName(rcv)+"#dispatch-key", P.InstrPos(cs), "looked up by (frame.flags.REL, frame.tubeID) of the received frame", "the receiver does not look the tube up by the reliability flag and id of the frame it is dispatching")
		}
	}

	c09R2R3(c)
	c09R4(c)
	c09R5(c)
	c09R6(c)
}

func loadSourceOrSelf(v ssa.Value) ssa.Value {
	if s := loadSource(v); s != nil {
		return s
	}
	if u, ok := v.(*ssa.UnOp); ok {
		return u.X
	}
	return v
}

func c09R2R3(c *Ctx) {
	P := c.P
	fM := P.Field("tubes", "Muxer", "m")
	fQ := P.Field("tubes", "Muxer", "tubeQueue")
	pick := hopID("tubes", "Muxer", "pickTubeID")
	mkR, mkU := hopID("tubes", "Muxer", "makeReliableTubeWithID"), hopID("tubes", "Muxer", "makeUnreliableTubeWithID")
	addT := hopID("tubes", "Muxer", "addTube")
	for _, fname := range []string{"(*Muxer).CreateReliableTube", "(*Muxer).CreateUnreliableTube"} {
		fn := P.Func("tubes", fname)
		if fn == nil {
			c.Undecided("C09.R2", "tubes."+fname, "function not found")
			continue
		}
		name := FuncName(fn)
		c.Analysed(name)
		fs := newFailSet()
		made := 0
		ok := walkAll(c, "C09.R2", fn, func(p *Path) {
			held := false
			picked := false
			p.ForEach(func(i int, ins ssa.Instruction) bool {
				call, ok := ins.(*ssa.Call)
				if !ok {
					return true
				}
				switch calleeID(call) {
				case "(sync.Mutex).Lock":
					if endsInField(call.Call.Args[0], fM, false) {
						held = true
					}
				case "(sync.Mutex).Unlock":
					if endsInField(call.Call.Args[0], fM, false) {
						held = false
						if picked {
							fs.add("atomic", "m.m is released between choosing a tube id and inserting the tube: two concurrent creators can pick the same id", ins, p)
						}
					}
				case pick:
					if !held {
						fs.add("atomic", "a tube id is chosen without holding m.m", ins, p)
					}
					picked = true
				case mkR, mkU:
					made++
					if !held || !picked {
						fs.add("atomic", "the tube is created and inserted without m.m held continuously since its id was chosen", ins, p)
					}
					// the id passed is the id picked
					if pc, k := fromCall(p.Deref(call.Call.Args[2], i)); pc == nil || calleeID(pc) != pick || k != 0 {
						fs.add("atomic", "the tube is created with an id other than the one pickTubeID returned", ins, p)
					}
					picked = false
				}
				return true
			})
		})
		if ok {
			fs.report(c, "C09.R2", name, []string{"atomic"}, P.Pos(fn.Pos()), "pick and insert under one hold of m.m")
			c.Floor("C09.R2", "tube creations on paths of "+name, made, 1)
		}
	}
	// make...WithID inserts (addTube) before returning a tube
	for _, fname := range []string{"(*Muxer).makeReliableTubeWithID", "(*Muxer).makeUnreliableTubeWithID"} {
		fn := P.Func("tubes", fname)
		if fn == nil {
			c.Undecided("C09.R2", "tubes."+fname, "function not found")
			continue
		}
		name := FuncName(fn)
		c.Analysed(name)
		fs, fs3 := newFailSet(), newFailSet()
		sends := 0
		ok := walkAll(c, "C09.R2", fn, func(p *Path) {
			added := false
			sent := 0
			reqParam := ssa.Value(fn.Params[len(fn.Params)-1])
			p.ForEach(func(i int, ins ssa.Instruction) bool {
				if call, ok := ins.(*ssa.Call); ok && calleeID(call) == addT {
					added = true
				}
				isSend := false
				switch x := ins.(type) {
				case *ssa.Send:
					isSend = endsInField(x.Chan, fQ, false)
				case *ssa.Select:
					for k, st := range x.States {
						if st.Dir == types.SendOnly && endsInField(st.Chan, fQ, false) {
							// the send happened only if this case was the one chosen on the path
							chosen := x.Blocking && len(x.States) == 1
							if idx := extractIdx(x, 0); idx != nil {
								for key, val := range p.FactsAt(len(p.Blocks) - 1) {
									if key.op == token.EQL && key.y != nil && val {
										for _, pr := range [][2]ssa.Value{{key.x, key.y}, {key.y, key.x}} {
											if strip(pr[0]) == idx {
												if n, isC := constInt(pr[1]); isC && n == int64(k) {
													chosen = true
												}
											}
										}
									}
								}
							}
							isSend = chosen
						}
					}
				}
				if isSend {
					sent++
					sends++
					v, known := p.Holds(reqParam, i)
					if !(known && !v) {
						fs3.add("offer", "a tube is put on the accept queue on a path where req was not found false (a locally created tube would be offered to the local acceptor)", ins, p)
					}
					if !added {
						fs3.add("offer", "a tube is offered to the acceptor before it was inserted into the tube table", ins, p)
					}
				}
				return true
			})
			if isSuccess(p) && !added {
				fs.add("inserted", "make...TubeWithID returns a tube that was not inserted into the tube table", p.Exit(), p)
			}
			if sent > 1 {
				fs3.add("offer", "a tube is offered to the acceptor more than once", p.Exit(), p)
			}
			// remote tubes (req false) must be offered on success, and whenever they were registered: a tube
			// that is in the table answers the peer's repeated REQ itself and is never offered again
			if p.Returns() != nil {
				if v, known := p.Holds(reqParam, len(p.Blocks)-1); known && !v && sent != 1 && (isSuccess(p) || added) {
					fs3.add("offer", "a remotely opened tube is registered in the tube table but not offered to the acceptor (the opener is answered and considers the tube open; the acceptor never sees it)", p.Exit(), p)
				}
			}
		})
		if ok {
			fs.report(c, "C09.R2", name, []string{"inserted"}, P.Pos(fn.Pos()), "inserted before it is returned")
			fs3.report(c, "C09.R3", name, []string{"offer"}, P.Pos(fn.Pos()), "offered exactly once, only when req is false, after insertion")
			c.Floor("C09.R3", "accept-queue sends on paths of "+name, sends, 1)
		}
	}
	// who else sends on tubeQueue
	if fQ != nil {
		for _, f := range P.ModuleFuncs("tubes") {
			for _, s := range chanSends(f, fQ) {
				n := FuncName(f)
				c.Check(n == "tubes.(*Muxer).makeReliableTubeWithID" || n == "tubes.(*Muxer).makeUnreliableTubeWithID", "C09.R3", "send:tubeQueue@"+n, P.InstrPos(s), "offered by make...TubeWithID", "the accept queue is sent to outside make...TubeWithID")
			}
		}
	}
	// callers with req=false: only receiver, on not-found + REQ, with that frame's type and reliability
	rcv := P.Func("tubes", "(*Muxer).receiver")
	fREQ := P.Field("tubes", "frameFlags", "REQ")
	fRELf := P.Field("tubes", "frameFlags", "REL")
	fTT := P.Field("tubes", "initiateFrame", "tubeType")
	fTID := P.Field("tubes", "initiateFrame", "tubeID")
	nResp := 0
	// the sites, wherever they are; those in the receiver or in helpers cut out of it are checked on paths
	type siteInfo struct {
		seen, ok bool
		cons     string
	}
	sites := map[ssa.Instruction]*siteInfo{}
	for _, f := range P.ModuleFuncs("tubes") {
		for _, cs := range callSitesIn(f, false, mkR, mkU) {
			a := cs.Common().Args
			reqV, isC := constBool(a[3])
			if isC && reqV {
				continue // local creation
			}
			nResp++
			ownerName := FuncName(f)
			if P.OwnedBy(f, rcv) {
				ownerName = FuncName(rcv)
			}
			cons := fmt.Sprintf("call:%s@%s", calleeFunc(cs.Common()).Name(), ownerName)
			if !P.OwnedBy(f, rcv) {
				c.Fail("C09.R3", cons, P.InstrPos(cs), "a tube is created on behalf of the peer (req=false) outside the receiver")
				continue
			}
			if !isC {
				c.Fail("C09.R3", cons, P.InstrPos(cs), "the req argument of a tube creation in the receiver is not the constant false")
				continue
			}
			sites[cs.(ssa.Instruction)] = &siteInfo{ok: true, cons: cons}
		}
	}
	if rcv != nil && len(sites) > 0 {
		okWalk := walkAllOpts(c, "C09.R3", rcv, PathOpts{MaxVisits: 1, InlineDepth: 2, EmitTruncated: true}, func(p *Path) {
			p.ForEach(func(i int, ins ssa.Instruction) bool {
				si := sites[ins]
				if si == nil {
					return true
				}
				si.seen = true
				cs := ins.(ssa.CallInstruction)
				a := cs.Common().Args
				notFound, reqFlag, relOK := false, false, false
				relSeen := map[bool]bool{}
				for k, v := range p.FactsAt(i) {
					if k.op != token.ILLEGAL {
						continue
					}
					if lastField(k.x) == fRELf {
						relSeen[v] = true
					}
					if ex, ok := k.x.(*ssa.Extract); ok && ex.Index == 1 && !v {
						if call, ok := ex.Tuple.(*ssa.Call); ok && calleeID(call) == hopID("tubes", "Muxer", "getTube") {
							notFound = true
						}
						// the lookup written out in the receiver itself
						if lk, ok := ex.Tuple.(*ssa.Lookup); ok && lk.CommaOk && (endsInField(lk.X, P.Field("tubes", "Muxer", "reliableTubes"), false) || endsInField(lk.X, P.Field("tubes", "Muxer", "unreliableTubes"), false)) {
							notFound = true
						}
					}
					if lastField(k.x) == fREQ && v {
						reqFlag = true
					}
					if lastField(k.x) == fRELf {
						relOK = v == (calleeID(cs) == mkR)
					}
				}
				if len(relSeen) == 2 {
					// two reads of the frame's REL flag with different outcomes: not a feasible path
					// (the frame is a local value; its loads are not merged by the walker)
					return true
				}
				argsOK := endsInField(a[1], fTT, false) && endsInField(a[2], fTID, false)
				if !(notFound && reqFlag && relOK && argsOK) {
					si.ok = false
				}
				return true
			})
		})
		for ins, si := range sites {
			switch {
			case !okWalk:
			case !si.seen:
				c.Undecided("C09.R3", si.cons, "the creation site is not on any enumerated path of the receiver")
			default:
				c.Check(si.ok, "C09.R3", si.cons, P.InstrPos(ins),
					"created for the peer only when no such tube exists, the frame carries REQ, with that frame's reliability, type and id",
					"the receiver creates (and offers) a tube for the peer without all of: lookup missed, REQ flag set, reliability / type / id taken from that frame (a duplicate request would be offered twice, or the tube would get the wrong type or reliability)")
			}
		}
	}
	c.Floor("C09.R3", "peer-initiated tube creations", nResp, 2)
}

func c09R4(c *Ctx) {
	P := c.P
	fn := P.Func("tubes", "(*Unreliable).WriteMsgUDP")
	fData := P.Field("tubes", "frame", "data")
	fDL := P.Field("tubes", "frame", "dataLength")
	if fn == nil || fData == nil || fDL == nil {
		c.Undecided("C09.R4", "tubes.(*Unreliable).WriteMsgUDP", "function or fields not found")
		return
	}
	name := FuncName(fn)
	c.Analysed(name)
	fs := newFailSet()
	succ := 0
	sendID := "(*" + modPath + "/common.DeadlineChan[[]byte]).Send"
	ok := walkAll(c, "C09.R4", fn, func(p *Path) {
		if !isSuccess(p) {
			return
		}
		succ++
		sends := 0
		dataOK, lenOK := false, false
		p.ForEach(func(i int, ins ssa.Instruction) bool {
			switch x := ins.(type) {
			case *ssa.Store:
				if endsInField(x.Addr, fData, false) && paramIndex(fn, x.Val) == 1 {
					dataOK = true
				}
				if endsInField(x.Addr, fDL, false) {
					v := p.Deref(x.Val, i)
					if cv, ok := v.(*ssa.Convert); ok {
						if call, ok := cv.X.(*ssa.Call); ok {
							if b, isB := call.Call.Value.(*ssa.Builtin); isB && b.Name() == "len" && paramIndex(fn, call.Call.Args[0]) == 1 {
								lenOK = true
							}
						}
					}
				}
			case *ssa.Call:
				if f := calleeFunc(&x.Call); f != nil && f.Name() == "Send" {
					sends++
				}
			}
			return true
		})
		_ = sendID
		if sends != 1 {
			fs.add("one-frame", fmt.Sprintf("a successful WriteMsgUDP hands %d frames to the sender (exactly one per message required)", sends), p.Exit(), p)
		}
		if !dataOK || !lenOK {
			fs.add("one-frame", "the frame built for an unreliable message does not carry data = b and dataLength = len(b)", p.Exit(), p)
		}
	})
	if ok {
		fs.report(c, "C09.R4", name, []string{"one-frame"}, P.Pos(fn.Pos()), fmt.Sprintf("one frame with the whole message on all %d success paths", succ))
		c.Floor("C09.R4", "success paths of Unreliable.WriteMsgUDP", succ, 1)
	}
	// receive enqueues pkt.data once
	rc := P.Func("tubes", "(*Unreliable).receive")
	if rc == nil {
		c.Undecided("C09.R4", "tubes.(*Unreliable).receive", "function not found")
		return
	}
	c.Analysed(FuncName(rc))
	fs2 := newFailSet()
	ok = walkAll(c, "C09.R4", rc, func(p *Path) {
		n := 0
		p.ForEach(func(i int, ins ssa.Instruction) bool {
			var sent ssa.Value
			switch x := ins.(type) {
			case *ssa.Send:
				sent = x.X
			case *ssa.Select:
				for _, st := range x.States {
					if st.Dir == types.SendOnly {
						sent = st.Send
					}
				}
			}
			if sent != nil {
				n++
				if !endsInField(sent, fData, false) && !wholeCopyOf(p.Resolve(sent, i), fData) {
					fs2.add("whole-message", "Unreliable.receive enqueues something other than the frame's payload", ins, p)
				}
			}
			return true
		})
		if n > 1 {
			fs2.add("whole-message", "Unreliable.receive enqueues a frame's payload more than once", p.Exit(), p)
		}
	})
	if ok {
		fs2.report(c, "C09.R4", FuncName(rc), []string{"whole-message"}, P.Pos(rc.Pos()), "payload enqueued at most once, unmodified")
	}
}

func c09R5(c *Ctx) {
	P := c.P
	fn := P.Func("tubes", "(*Muxer).pickTubeID")
	fPar := P.Field("tubes", "Muxer", "idParity")
	if fn == nil || fPar == nil {
		c.Undecided("C09.R5", "tubes.(*Muxer).pickTubeID", "function or field not found")
		return
	}
	name := FuncName(fn)
	// the candidate phi
	var cand *ssa.Phi
	eachInstr(fn, func(ins ssa.Instruction) {
		if p, ok := ins.(*ssa.Phi); ok && isIntType(p.Type()) {
			cand = p
		}
	})
	if cand == nil {
		c.Undecided("C09.R5", name+"#candidate", "no candidate loop variable found (shape outside the recognised idiom)")
		return
	}
	startOK, step := false, int64(0)
	for _, e := range cand.Edges {
		if b, ok := e.(*ssa.BinOp); ok && b.Op == token.ADD && b.X == ssa.Value(cand) {
			step, _ = constInt(b.Y)
			continue
		}
		v := e
		if cv, ok := v.(*ssa.Convert); ok {
			v = cv.X
		}
		if endsInField(v, fPar, false) {
			startOK = true
		}
	}
	c.Check(startOK, "C09.R5", name+"#start", P.Pos(fn.Pos()), "search starts at the muxer's parity", "pickTubeID does not start its search at int(m.idParity): the two ends can pick the same id for concurrently opened tubes")
	c.Check(step == 2, "C09.R5", name+"#step", P.Pos(fn.Pos()), "steps by 2", fmt.Sprintf("pickTubeID steps by %d, not 2: it leaves its parity class and can collide with ids chosen by the peer", step))
	// returned id: byte(candidate) under candidate < 256 and not-present
	mf := ComputeMustFacts(fn)
	nRet := 0
	for _, b := range fn.Blocks {
		r, ok := b.Instrs[len(b.Instrs)-1].(*ssa.Return)
		if !ok || len(r.Results) != 2 || !isNilConst(r.Results[1]) {
			continue
		}
		nRet++
		cv, isCv := r.Results[0].(*ssa.Convert)
		okv := isCv && cv.X == ssa.Value(cand)
		bounded, free := false, false
		for k, v := range mf.At(r) {
			if k.op == token.LSS && v && k.x == ssa.Value(cand) {
				if n, isC := constInt(k.y); isC && n <= 256 {
					bounded = true
				}
			}
			if k.op == token.ILLEGAL && !v {
				if ex, ok := k.x.(*ssa.Extract); ok && ex.Index == 1 {
					free = true
				}
				if _, ok := k.x.(*ssa.Phi); ok {
					free = true // ok = phi(lookup#1, lookup#1) of the two maps
				}
			}
		}
		c.Check(okv && bounded && free, "C09.R5", name+"#returned-id", P.InstrPos(r), "returns byte(candidate) with candidate < 256 on the not-present edge",
			"pickTubeID can return an id that is not the bounded, currently unused candidate (an id in use, or a candidate narrowed after exceeding 255)")
	}
	c.Floor("C09.R5", "id-returning exits of pickTubeID", nRet, 1)
	// newMuxer: parity 0 iff isServer
	nm := P.Func("tubes", "newMuxer")
	if nm == nil {
		c.Undecided("C09.R5", "tubes.newMuxer", "function not found")
		return
	}
	okPar := false
	eachInstr(nm, func(ins ssa.Instruction) {
		if st, ok := ins.(*ssa.Store); ok && endsInField(st.Addr, fPar, false) {
			if phi, ok := st.Val.(*ssa.Phi); ok && len(phi.Edges) == 2 {
				// edges: from the isServer-true block 0, from the false block 1
				blk := phi.Block()
				vals := map[bool]int64{}
				for i, pred := range blk.Preds {
					n, isC := constInt(phi.Edges[i])
					if !isC {
						return
					}
					// which polarity of isServer leads to pred?
					for _, pp := range pred.Preds {
						if t, ok := pp.Instrs[len(pp.Instrs)-1].(*ssa.If); ok {
							if prm, ok := lookThrough(t.Cond).(*ssa.Parameter); ok && prm.Name() == "isServer" {
								vals[pp.Succs[0] == pred] = n
							}
						}
					}
				}
				if vals[true] == 0 && vals[false] == 1 && len(vals) == 2 {
					okPar = true
				}
			}
		}
	})
	c.Check(okPar, "C09.R5", FuncName(nm)+"#parity", P.Pos(nm.Pos()), "parity 0 iff isServer", "newMuxer does not assign parity 0 to the server and 1 to the client")
	for _, spec := range []struct {
		fn   string
		want bool
	}{{"Client", false}, {"Server", true}} {
		f := P.Func("tubes", spec.fn)
		okv := false
		if f != nil {
			for _, cs := range callSitesIn(f, false, hopID("tubes", "", "newMuxer")) {
				if v, isC := constBool(cs.Common().Args[2]); isC && v == spec.want {
					okv = true
				}
			}
		}
		c.Check(okv, "C09.R5", "tubes."+spec.fn+"#role", "-", fmt.Sprintf("passes isServer=%v", spec.want), "tubes."+spec.fn+" does not pass the right isServer value to newMuxer (both ends would share a parity)")
	}
}

func c09R6(c *Ctx) { payloadOwnershipRule(c, "C09.R6") }

// payloadOwnershipRule (C09.R6, shared as C08.R8): a frame payload that outlives the call that decoded it
// is a private copy. The muxer decodes every datagram out of one reused read buffer. Either the decoder
// copies the payload (then every consumer is safe), or every site that retains it does: the reassembly
// heap of the reliable receiver (pqItem.value) and whatever Unreliable.receive hands to its queue.
func payloadOwnershipRule(c *Ctx, rule string) {
	P := c.P
	fn := P.Func("tubes", "fromBytes")
	fData := P.Field("tubes", "frame", "data")
	if fn == nil || fData == nil {
		c.Undecided(rule, "tubes.fromBytes", "function or field not found")
		return
	}
	isFreshCopy := func(val ssa.Value) bool {
		switch v := strip(val).(type) {
		case *ssa.Call:
			if b, ok := v.Call.Value.(*ssa.Builtin); ok && b.Name() == "append" && (isNilConst(v.Call.Args[0]) || isFreshSlice(v.Call.Args[0])) {
				return true
			}
			if id := calleeID(v); id == "bytes.Clone" || id == "slices.Clone" {
				return true
			}
		case *ssa.MakeSlice:
			return true
		case *ssa.Slice:
			if _, ok := strip(v.X).(*ssa.MakeSlice); ok {
				return true
			}
			if a, ok := strip(v.X).(*ssa.Alloc); ok && a.Heap {
				return true
			}
		}
		return false
	}
	n := 0
	decoderCopies := true
	var aliasSite ssa.Instruction
	eachInstr(fn, func(ins ssa.Instruction) {
		st, ok := ins.(*ssa.Store)
		if !ok || !endsInField(st.Addr, fData, false) {
			return
		}
		n++
		if !isFreshCopy(st.Val) {
			decoderCopies = false
			aliasSite = ins
		}
	})
	c.Floor(rule, "stores to frame.data in fromBytes", n, 1)
	if n == 0 {
		return
	}
	if decoderCopies {
		c.OK(rule, FuncName(fn)+"#data-copy", P.Pos(fn.Pos()), "payload copied out of the input at decode")
		return
	}
	// the decoder aliases its input: every retaining site must copy
	msg := "a decoded frame's payload aliases the decoder's input (" + P.InstrPos(aliasSite) + ") and is retained here without a copy; the muxer decodes every datagram out of one reused read buffer, so a payload still queued (unread unreliable message, out-of-order reliable fragment) is overwritten by the next datagram, whatever tube that belongs to"
	bad := 0
	sites := 0
	fValue := P.Field("tubes", "pqItem", "value")
	for _, f := range P.ModuleFuncs("tubes") {
		eachInstr(f, func(ins ssa.Instruction) {
			switch x := ins.(type) {
			case *ssa.Store:
				if fValue != nil && endsInField(x.Addr, fValue, false) && isByteSlice(x.Val.Type()) {
					sites++
					if endsInField(x.Val, fData, false) || !isFreshCopy(x.Val) && derivesFromField(x.Val, fData, 0) {
						bad++
						c.Fail(rule, FuncName(f)+"#retains-payload", P.InstrPos(ins), msg)
					}
				}
			case *ssa.Send:
				if endsInField(x.X, fData, false) {
					sites++
					bad++
					c.Fail(rule, FuncName(f)+"#retains-payload", P.InstrPos(ins), msg)
				}
			case *ssa.Select:
				for _, st := range x.States {
					if st.Dir == types.SendOnly && st.Send != nil && isByteSlice(st.Send.Type()) {
						sites++
						if endsInField(st.Send, fData, false) {
							bad++
							c.Fail(rule, FuncName(f)+"#retains-payload", P.InstrPos(ins), msg)
						}
					}
				}
			case *ssa.Call:
				// handing the payload itself to a queue (DeadlineChan.Send and the like)
				if fn2 := calleeFunc(&x.Call); fn2 != nil && fn2.Name() == "Send" {
					for _, a := range callArgs(&x.Call) {
						if isByteSlice(a.Type()) && endsInField(a, fData, false) {
							sites++
							bad++
							c.Fail(rule, FuncName(f)+"#retains-payload", P.InstrPos(ins), msg)
						}
					}
				}
			}
		})
	}
	if fValue == nil {
		c.Undecided(rule, "tubes.pqItem.value", "the decoder aliases its input and the reassembly heap's payload field was not found")
		return
	}
	if bad == 0 {
		c.OK(rule, FuncName(fn)+"#data-copy", P.Pos(fn.Pos()), fmt.Sprintf("the decoder aliases its input; all %d retaining sites copy", sites))
	}
}

// derivesFromField: v is a (re-slice of a) load of field f.
func derivesFromField(v ssa.Value, f *types.Var, depth int) bool {
	if v == nil || depth > 6 {
		return false
	}
	v = strip(v)
	if endsInField(v, f, true) {
		return true
	}
	if sl, ok := v.(*ssa.Slice); ok {
		return derivesFromField(sl.X, f, depth+1)
	}
	return false
}

// rttMultiples lists the constants k in timer durations k * <...>.RTT started in fn (incl. its closures' parents only).
func rttMultiples(fn *ssa.Function, fRTT *types.Var) []int64 {
	var out []int64
	eachInstr(fn, func(ins ssa.Instruction) {
		call, ok := ins.(*ssa.Call)
		if !ok {
			return
		}
		switch calleeID(call) {
		case "time.NewTimer", "time.AfterFunc", "time.After", "time.Sleep", "time.NewTicker":
		default:
			return
		}
		d := strip(call.Call.Args[0])
		if b, ok := d.(*ssa.BinOp); ok && b.Op == token.MUL {
			for _, pr := range [][2]ssa.Value{{b.X, b.Y}, {b.Y, b.X}} {
				if k, isC := constInt(pr[0]); isC && lastField(pr[1]) == fRTT {
					out = append(out, k)
				}
			}
		} else if lastField(d) == fRTT {
			out = append(out, 1)
		}
	})
	return out
}

func c09R7(c *Ctx) {
	P := c.P
	fRTT := P.Field("tubes", "sender", "RTT")
	reap, la := P.Func("tubes", "(*Muxer).reapTube"), P.Func("tubes", "(*Reliable).enterLastAckState")
	if la == nil {
		// the helper may be inlined: the last-ack wait is armed by whichever function stores the lastAckTimer
		if fT := P.Field("tubes", "Reliable", "lastAckTimer"); fT != nil {
			for _, w := range P.FieldWrites(fT, "tubes") {
				if len(rttMultiples(w.Fn, fRTT)) > 0 {
					la = w.Fn
				}
			}
		}
	}
	if fRTT == nil || reap == nil || la == nil {
		c.Undecided("C09.R7", "tubes.(*Muxer).reapTube / (*Reliable).enterLastAckState", "functions or sender.RTT not found")
		return
	}
	kq, kl := rttMultiples(reap, fRTT), rttMultiples(la, fRTT)
	if len(kq) != 1 || len(kl) != 1 {
		c.Undecided("C09.R7", "tubes.(*Muxer).reapTube~(*Reliable).enterLastAckState", fmt.Sprintf("expected one RTT-multiple timer in each (quarantine %v, last-ack %v)", kq, kl))
		return
	}
	c.Check(kq[0] >= kl[0], "C09.R7", "tubes.(*Muxer).reapTube~(*Reliable).enterLastAckState", P.Pos(reap.Pos()),
		fmt.Sprintf("quarantine %d x RTT >= last-ack wait %d x RTT", kq[0], kl[0]),
		fmt.Sprintf("reapTube releases a closed tube's id after %d x RTT, but the peer may stay in lastAck for %d x RTT: a new tube can get the id while the peer still answers for the old one (its REQ is swallowed, its data acknowledged and discarded, the old FIN ends it)", kq[0], kl[0]))
}

// c08R6: the peer's FIN moves the tube only once it has been consumed in order.
//
// Reliable.receive changes the tube state for two reasons: an acknowledgement (everything under a test
// of pkt.flags.ACK: our FIN was acknowledged, or the acknowledgement was invalid) and the peer's FIN.
// Every state change that is not under the ACK test must lie, on the path, after the in-order signal:
// the first result of recvWindow.receive found true (the FIN fragment reached the head of the window
// and was written to the buffer behind all data), or recvWindow.closed found true (a repeated FIN after
// that). A FIN that overtakes missing data must not close the receive window: the retransmitted data
// would be refused and Read would report end-of-stream on a truncated stream.
func c08R6(c *Ctx) {
	P := c.P
	const rule = "C08.R6"
	c.Rule(rule, "the peer's FIN acts only in order: in Reliable.receive every change of the tube state that is not under the test of pkt.flags.ACK lies on the path after recvWindow.receive reported the FIN as processed, or after recvWindow.closed was found set (an early FIN that closes the window makes Read report end-of-stream before all bytes written before the close were delivered) (E1 decision table)")
	fn := P.Func("tubes", "(*Reliable).receive")
	fACK := P.Field("tubes", "frameFlags", "ACK")
	fState := P.Field("tubes", "Reliable", "tubeState")
	fClosed := P.Field("tubes", "receiver", "closed")
	if fn == nil || fACK == nil || fState == nil || fClosed == nil {
		c.Undecided(rule, "tubes.(*Reliable).receive", "function or fields not found")
		return
	}
	recvID := hopID("tubes", "receiver", "receive")
	name := FuncName(fn)
	c.Analysed(name)
	// module functions that store tubeState themselves
	writers := map[*ssa.Function]bool{}
	for _, w := range P.FieldWrites(fState, "tubes") {
		if w.Kind == "store" {
			writers[w.Fn] = true
		}
	}
	changesState := func(ins ssa.Instruction) bool {
		switch x := ins.(type) {
		case *ssa.Store:
			fa, ok := x.Addr.(*ssa.FieldAddr)
			return ok && fieldOf(fa.X.Type(), fa.Field) == fState
		case *ssa.Call:
			g := staticCallee(&x.Call)
			return g != nil && g != fn && writers[g]
		}
		return false
	}
	// blocks reachable only through the true edge of a test of pkt.flags.ACK
	underACK := func(b *ssa.BasicBlock) bool {
		for _, blk := range b.Parent().Blocks {
			iff, ok := blk.Instrs[len(blk.Instrs)-1].(*ssa.If)
			if !ok {
				continue
			}
			key, pol := normCond(iff.Cond)
			if key.op != token.ILLEGAL || !pol {
				continue
			}
			if lastField(key.x) != fACK {
				continue
			}
			s := blk.Succs[0]
			if len(s.Preds) == 1 && s.Dominates(b) {
				return true
			}
		}
		return false
	}
	fs := newFailSet()
	nChanges := 0
	ok := true
	done := map[*ssa.Function]bool{}
	// walkFn judges the state changes on the paths of f. sig lists the boolean parameters of f that carry
	// the in-order signal (for the entry function none; for a helper that was too large to inline, the
	// parameters its caller binds to the result of recvWindow.receive).
	var walkFn func(f *ssa.Function, sig map[int]bool, depth int)
	walkFn = func(f *ssa.Function, sig map[int]bool, depth int) {
		if done[f] || depth > 2 {
			return
		}
		done[f] = true
		c.Analysed(FuncName(f))
		isSignal := func(p *Path, v ssa.Value) bool {
			if ex, ok := v.(*ssa.Extract); ok && ex.Index == 0 {
				if call, ok := ex.Tuple.(*ssa.Call); ok && calleeID(call) == recvID {
					return true
				}
			}
			if call, ok := v.(*ssa.Call); ok && !call.Call.IsInvoke() {
				if fn2 := calleeFunc(&call.Call); fn2 != nil && fn2.Name() == "Load" && len(call.Call.Args) == 1 && lastField(call.Call.Args[0]) == fClosed {
					return true
				}
			}
			if k := paramIndex(f, v); k >= 0 && sig[k] {
				return true
			}
			return false
		}
		if !walkAll(c, rule, f, func(p *Path) {
			p.ForEach(func(i int, ins ssa.Instruction) bool {
				if !changesState(ins) {
					return true
				}
				call, isCall := ins.(*ssa.Call)
				if isCall && p.InlinedCall(call) {
					return true // judged instruction by instruction inside the helper
				}
				for _, site := range p.SiteChain(i, ins) {
					if underACK(site.Block()) {
						return true
					}
				}
				nChanges++
				// the in-order signal as known at this point of the path
				inOrder := false
				for key, val := range p.FactsAt(i) {
					if key.op == token.ILLEGAL && val && isSignal(p, p.Resolve(key.x, i)) {
						inOrder = true
					}
				}
				if inOrder {
					return true
				}
				// a helper that decides for itself: judge its body, with the signal it is handed
				if isCall {
					if g := staticCallee(&call.Call); g != nil && g != f && len(g.Blocks) > 0 && !p.Inlined(ins) {
						gs := map[int]bool{}
						for k, a := range call.Call.Args {
							if isSignal(p, p.Resolve(a, i)) {
								gs[k] = true
							}
						}
						walkFn(g, gs, depth+1)
						return true
					}
				}
				fs.add("fin-in-order", "Reliable.receive changes the tube state outside the acknowledgement branch on a path where neither recvWindow.receive reported the FIN as processed nor recvWindow.closed was found set: a FIN that overtakes missing data closes the tube and the stream is cut short", ins, p)
				return true
			})
		}) {
			ok = false
		}
	}
	walkFn(fn, map[int]bool{}, 0)
	if ok {
		fs.report(c, rule, name, []string{"fin-in-order"}, P.Pos(fn.Pos()), fmt.Sprintf("holds for all %d FIN-driven state changes on the paths", nChanges))
		c.Floor(rule, "FIN-driven state changes on paths of Reliable.receive", nChanges, 3)
	}
}

// wholeCopyOf: v is a fresh copy of the whole slice held in field f: append([]byte(nil), x.f...),
// append([]byte{}, x.f...), bytes.Clone(x.f), slices.Clone(x.f), or make + copy(dst, x.f) of len(x.f).
func wholeCopyOf(v ssa.Value, f *types.Var) bool {
	call, ok := strip(v).(*ssa.Call)
	if !ok {
		return false
	}
	if b, ok := call.Call.Value.(*ssa.Builtin); ok && b.Name() == "append" && len(call.Call.Args) == 2 {
		return (isNilConst(call.Call.Args[0]) || isFreshSlice(call.Call.Args[0])) && endsInField(call.Call.Args[1], f, false)
	}
	if id := calleeID(call); (id == "bytes.Clone" || id == "slices.Clone") && len(call.Call.Args) == 1 {
		return endsInField(call.Call.Args[0], f, false)
	}
	return false
}

// c09R8: a read takes a whole message or its head, never leaves a tail for later. An unreliable tube
// delivers datagrams: what does not fit the caller's buffer is dropped with an error (as net.UDPConn does).
// A reader that keeps the remainder of a message in the tube and hands it out on the next call turns one
// message into two "messages" and shifts every later boundary. Rule: in the methods of *Unreliable, a value
// taken from the receive queue (u.recv) is never stored — itself or re-sliced — into a field.
func c09R8(c *Ctx) {
	P := c.P
	const rule = "C09.R8"
	c.Rule(rule, "no fragment is kept for later: in the methods of tubes.Unreliable a message taken from the receive queue is never stored, whole or re-sliced, into a field of the tube (a retained tail is delivered by the next read as if it were a message of its own) (def-use)")
	fRecv := P.Field("tubes", "Unreliable", "recv")
	if fRecv == nil {
		c.Undecided(rule, "tubes.Unreliable.recv", "field not found")
		return
	}
	nTakes := 0
	for _, f := range P.ModuleFuncs("tubes") {
		if f.Blocks == nil {
			continue
		}
		eachInstr(f, func(ins ssa.Instruction) {
			var msg ssa.Value
			switch x := ins.(type) {
			case *ssa.Call:
				if fn := calleeFunc(&x.Call); fn != nil && fn.Name() == "Recv" && len(x.Call.Args) >= 1 && hasField(x.Call.Args[0], fRecv) {
					msg = x
				}
			case *ssa.UnOp:
				if x.Op == token.ARROW && hasField(x.X, fRecv) {
					msg = x
				}
			}
			if msg == nil {
				return
			}
			nTakes++
			cons := fmt.Sprintf("%s#take%d", FuncName(f), nTakes)
			var bad ssa.Instruction
			seen := map[ssa.Value]bool{}
			var follow func(v ssa.Value, depth int)
			follow = func(v ssa.Value, depth int) {
				if v == nil || depth > 6 || seen[v] || v.Referrers() == nil {
					return
				}
				seen[v] = true
				for _, r := range *v.Referrers() {
					switch y := r.(type) {
					case *ssa.Extract:
						if isByteSlice(y.Type()) {
							follow(y, depth+1)
						}
					case *ssa.Slice:
						follow(y, depth+1)
					case *ssa.Phi:
						follow(y, depth+1)
					case *ssa.Store:
						if y.Val == v {
							if _, isField := y.Addr.(*ssa.FieldAddr); isField {
								bad = y
							} else if a, isAlloc := y.Addr.(*ssa.Alloc); isAlloc {
								// a local variable: follow its loads
								for _, rr := range *a.Referrers() {
									if u, ok := rr.(*ssa.UnOp); ok && u.Op == token.MUL {
										follow(u, depth+1)
									}
								}
							}
						}
					}
				}
			}
			follow(msg, 0)
			if bad != nil {
				c.Fail(rule, cons, P.InstrPos(bad), "part of a message taken from the receive queue is kept in a field of the tube: the next read hands out the tail of that message as a message of its own, and every later boundary is shifted")
			} else {
				c.OK(rule, cons, P.InstrPos(ins), "the message is handed to the caller and not retained")
			}
		})
	}
	c.Floor(rule, "takes from Unreliable.recv", nTakes, 1)
}
