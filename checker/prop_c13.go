package main

// C13 — The Cyclist duplex matches its specification and stays in sync across peers.
//
// Equality of output bytes with the specification is a numerical statement and is
// not decided. Decided here are three structural necessary conditions of it that
// are visible in the shape of cyclist.go and do not pin a source fragment:
// every operation moves the duplex even for an empty operand, the domain bytes
// separate the operations (and only the first block of an operand carries one),
// and both directions of crypt feed the plaintext back into the state.

import (
	"fmt"
	"go/token"
	"go/types"
	"sort"

	"golang.org/x/tools/go/ssa"
)

func init() { register("C13", checkC13) }

func checkC13(c *Ctx) {
	P := c.P
	c.Rule("C13.R1", "every operation moves the duplex: each path through absorbAny and crypt performs at least one down, each path through crypt and squeezeAny at least one up, whatever the operand length (the specification splits an empty string into one empty block; an early return for empty input leaves the state of one peer behind the other's) (E1 counting)")
	c.Rule("C13.R2", "domain separation: the constants that reach the domain-byte parameter of down/up from Absorb, absorbKey, crypt, Squeeze, SqueezeKey and Ratchet are non-zero and pairwise distinct, and every block after the first of one operand carries the byte 0 (def-use of the domain-byte operands)")
	c.Rule("C13.R3", "both directions absorb the plaintext: in crypt the block handed to down derives from the input on the encrypting arm and from the output (written by the keystream addition before) on the decrypting arm, and both arms perform up, keystream addition, down in that order with the same domain byte (sibling agreement of the two arms)")
	c.Decides("that empty operands still advance the state, that the operations are domain-separated, that encrypting and decrypting peers absorb the same bytes, that the counter is absorbed in one-byte blocks")
	c.NotDecided("equality of the outputs with the Cyclist specification (the permutation, the lane packing, the rates, the padding byte positions, how many blocks an operand is split into — seeded change C13-5, an extra empty block at exact multiples of the rate, is not reported); panics in the wrong mode")

	down := P.Func("cyclist", "(*Cyclist).down")
	up := P.Func("cyclist", "(*Cyclist).up")
	if down == nil || up == nil {
		c.Undecided("C13.R1", "cyclist.(*Cyclist).up/down", "functions not found")
		return
	}
	isCallTo := func(ins ssa.Instruction, f *ssa.Function) *ssa.Call {
		if call, ok := ins.(*ssa.Call); ok && staticCallee(&call.Call) == f {
			return call
		}
		return nil
	}

	// ---- R1
	for _, spec := range []struct {
		name           string
		needUp, needDn bool
	}{{"(*Cyclist).absorbAny", false, true}, {"(*Cyclist).crypt", true, true}, {"(*Cyclist).squeezeAny", true, false}} {
		fn := P.Func("cyclist", spec.name)
		if fn == nil {
			c.Undecided("C13.R1", "cyclist."+spec.name, "function not found")
			continue
		}
		name := FuncName(fn)
		c.Analysed(name)
		fs := newFailSet()
		paths := 0
		ok := walkAllOpts(c, "C13.R1", fn, PathOpts{MaxVisits: 2}, func(p *Path) {
			if p.Returns() == nil {
				return
			}
			paths++
			ups, downs := 0, 0
			p.ForEach(func(i int, ins ssa.Instruction) bool {
				if isCallTo(ins, up) != nil {
					ups++
				}
				if isCallTo(ins, down) != nil {
					downs++
				}
				return true
			})
			if spec.needDn && downs == 0 {
				fs.add("moves", name+" can return without a single down (an empty or short operand is skipped): the state is not advanced, so the peer that did process the empty block is out of step", p.Exit(), p)
			}
			if spec.needUp && ups == 0 {
				fs.add("moves", name+" can return without a single up (an empty or short operand is skipped): the state is not advanced, so the peer that did process the empty block is out of step", p.Exit(), p)
			}
		})
		if ok {
			fs.report(c, "C13.R1", name, []string{"moves"}, P.Pos(fn.Pos()), fmt.Sprintf("at least one up/down on each of %d returning paths", paths))
			c.Floor("C13.R1", "returning paths of "+name, paths, 1)
		}
	}

	// ---- R2: domain bytes
	absorbAny := P.Func("cyclist", "(*Cyclist).absorbAny")
	squeezeAny := P.Func("cyclist", "(*Cyclist).squeezeAny")
	crypt := P.Func("cyclist", "(*Cyclist).crypt")
	if absorbAny == nil || squeezeAny == nil || crypt == nil {
		c.Undecided("C13.R2", "cyclist.absorbAny/squeezeAny/crypt", "functions not found")
		return
	}
	// constants (first-block bytes) per operation
	type dom struct {
		op   string
		val  int64
		site string
	}
	var doms []dom
	lastParam := func(fn *ssa.Function) *ssa.Parameter { return fn.Params[len(fn.Params)-1] }
	collectCalls := func(target *ssa.Function, role string) {
		for _, fn := range P.ModuleFuncs("cyclist") {
			eachInstr(fn, func(ins ssa.Instruction) {
				call := isCallTo(ins, target)
				if call == nil {
					return
				}
				arg := call.Call.Args[len(call.Call.Args)-1]
				if v, isC := constInt(arg); isC {
					doms = append(doms, dom{fn.Name() + "->" + role, v, P.InstrPos(call)})
				} else {
					c.Fail("C13.R2", "domain:"+FuncName(fn)+"->"+role, P.InstrPos(call), "the domain byte of this operation is not a constant: operations are no longer separated by construction")
				}
			})
		}
	}
	collectCalls(absorbAny, "absorbAny")
	collectCalls(squeezeAny, "squeezeAny")
	// crypt: the first-block byte is the non-zero constant edge of the phi that feeds up's domain byte
	firstAndRest := func(fn *ssa.Function, callee *ssa.Function, what string) {
		// the domain-byte operand of each call of callee in fn: constant, parameter, or a phi of {first, 0}
		n := 0
		eachInstr(fn, func(ins ssa.Instruction) {
			call := isCallTo(ins, callee)
			if call == nil {
				return
			}
			n++
			arg := call.Call.Args[len(call.Call.Args)-1]
			cons := fmt.Sprintf("blocks:%s->%s#%d", FuncName(fn), callee.Name(), n)
			switch x := arg.(type) {
			case *ssa.Const:
				// a fixed byte for this call: 0 (continuation), or non-zero outside a loop
				v, _ := constInt(x)
				c.Check(v == 0 || !inLoop(call.Block()), "C13.R2", cons, P.InstrPos(call), "constant domain byte "+x.Value.ExactString(),
					"every block of "+what+" carries a non-zero domain byte (only the first may)")
			case *ssa.Phi:
				nonZero, zero, other := 0, 0, 0
				for _, e := range x.Edges {
					if v, isC := constInt(e); isC {
						if v == 0 {
							zero++
						} else {
							nonZero++
							if fn == crypt {
								doms = append(doms, dom{"crypt", v, P.InstrPos(call)})
							}
						}
					} else if _, isP := e.(*ssa.Parameter); isP && e == ssa.Value(lastParam(fn)) {
						nonZero++
					} else {
						other++
					}
				}
				c.Check(other == 0 && zero >= 1 && nonZero == 1, "C13.R2", cons, P.InstrPos(call), "first block carries the operation's byte, later blocks 0",
					"the domain byte of "+what+" is not {the operation's byte for the first block, 0 afterwards}: a multi-block operand is framed differently from the specification")
			case *ssa.Parameter:
				c.Check(!inLoop(call.Block()), "C13.R2", cons, P.InstrPos(call), "the operation's byte (single call)",
					"every block of "+what+" carries the operation's domain byte (only the first may): a multi-block operand is framed differently from the specification")
			default:
				c.Fail("C13.R2", cons, P.InstrPos(call), "the domain byte handed to "+callee.Name()+" is neither a constant, the operation's parameter, nor {first, 0}")
			}
		})
	}
	firstAndRest(absorbAny, down, "absorbAny's blocks")
	firstAndRest(crypt, up, "crypt's blocks")
	firstAndRest(squeezeAny, up, "squeezeAny's blocks")
	// distinctness of the non-zero first-block bytes
	byVal := map[int64][]string{}
	nNZ := 0
	for _, d := range doms {
		if d.val != 0 {
			nNZ++
			byVal[d.val] = append(byVal[d.val], d.op)
		}
	}
	var clash []string
	for v, ops := range byVal {
		set := map[string]bool{}
		for _, o := range ops {
			set[o] = true
		}
		if len(set) > 1 {
			var os []string
			for o := range set {
				os = append(os, o)
			}
			sort.Strings(os)
			clash = append(clash, fmt.Sprintf("0x%02x used by %v", v, os))
		}
	}
	sort.Strings(clash)
	c.Check(len(clash) == 0, "C13.R2", "domain:distinct", "-", fmt.Sprintf("%d non-zero domain bytes, pairwise distinct across operations", nNZ),
		fmt.Sprintf("two operations share a domain byte (%v): their effects on the state are indistinguishable, which the specification excludes", clash))
	c.Floor("C13.R2", "non-zero domain bytes of the operations", nNZ, 6)

	// ---- R3: crypt arms
	c13Crypt(c, crypt, up, down)
	c13Counter(c)
}

// c13Crypt: per path of one loop iteration, [up, keystream add, down] and what down absorbs.
func c13Crypt(c *Ctx, crypt, up, down *ssa.Function) {
	P := c.P
	add := P.Func("cyclist", "(*Cyclist).stateCopyAndAddBytes")
	if add == nil {
		c.Undecided("C13.R3", "cyclist.(*Cyclist).stateCopyAndAddBytes", "function not found")
		return
	}
	name := FuncName(crypt)
	// parameters: out, in, decrypt
	var outP, inP, decP *ssa.Parameter
	for _, p := range crypt.Params[1:] {
		if isByteSlice(p.Type()) {
			if outP == nil {
				outP = p
			} else {
				inP = p
			}
		} else if b, ok := p.Type().Underlying().(*types.Basic); ok && b.Kind() == types.Bool {
			decP = p
		}
	}
	if outP == nil || inP == nil || decP == nil {
		c.Undecided("C13.R3", name, "parameters (out, in []byte, decrypt bool) not recognised")
		return
	}
	rootIs := func(p *Path, v ssa.Value, at int, want ssa.Value) bool {
		// follow slices, local array copies (copy(p[:], in[...]) makes p derive from in)
		seen := 0
		for seen < 8 {
			seen++
			r, _ := accessPath(p.Deref(v, at))
			if r == want {
				return true
			}
			if a, ok := r.(*ssa.Alloc); ok {
				// local buffer: what was copied into it on this path?
				var src ssa.Value
				p.ForEach(func(i int, ins ssa.Instruction) bool {
					if call, ok := ins.(*ssa.Call); ok {
						if b, isB := call.Call.Value.(*ssa.Builtin); isB && b.Name() == "copy" {
							if dr, _ := accessPath(call.Call.Args[0]); dr == ssa.Value(a) {
								src = call.Call.Args[1]
							}
						}
					}
					return true
				})
				if src == nil {
					return false
				}
				v = src
				continue
			}
			return false
		}
		return false
	}
	fs := newFailSet()
	nEnc, nDec := 0, 0
	ok := walkAllOpts(c, "C13.R3", crypt, PathOpts{MaxVisits: 1}, func(p *Path) {
		// one pass through the loop body (MaxVisits 1): which arm?
		dec, known := false, false
		for k, v := range p.FactsAt(len(p.Blocks) - 1) {
			if k.op == 0 && k.x == ssa.Value(decP) {
				dec, known = v, true
			}
		}
		if !known {
			return
		}
		var seq []string
		var downArg ssa.Value
		downAt, addAt := -1, -1
		var addOut ssa.Value
		p.ForEach(func(i int, ins ssa.Instruction) bool {
			call, ok := ins.(*ssa.Call)
			if !ok {
				return true
			}
			switch staticCallee(&call.Call) {
			case up:
				seq = append(seq, "up")
			case add:
				seq = append(seq, "add")
				addAt = len(seq)
				addOut = call.Call.Args[2]
				if !rootIs(p, call.Call.Args[1], i, inP) || !rootIs(p, call.Call.Args[2], i, outP) {
					fs.add("arms", "the keystream addition does not read the input block and write the output block", ins, p)
				}
			case down:
				seq = append(seq, "down")
				downAt = len(seq)
				downArg = call.Call.Args[1]
				if dec {
					if !rootIs(p, downArg, i, outP) {
						fs.add("arms", "the decrypting arm absorbs something other than the plaintext it produced (the output block): the two ends of a channel absorb different bytes and their later tags and keys differ", ins, p)
					}
				} else if !rootIs(p, downArg, i, inP) {
					fs.add("arms", "the encrypting arm absorbs something other than its plaintext (the input block): the two ends of a channel absorb different bytes and their later tags and keys differ", ins, p)
				}
			}
			return true
		})
		_ = addOut
		okSeq := len(seq) > 0 && len(seq)%3 == 0
		for k := 0; okSeq && k+2 < len(seq); k += 3 {
			if seq[k] != "up" || seq[k+1] != "add" || seq[k+2] != "down" {
				okSeq = false
			}
		}
		if !okSeq || downAt < addAt {
			fs.add("arms", fmt.Sprintf("the blocks of crypt are processed as %v (up, keystream addition, down required for every block on both arms)", seq), p.Exit(), p)
		}
		if dec {
			nDec++
		} else {
			nEnc++
		}
	})
	if ok {
		fs.report(c, "C13.R3", name, []string{"arms"}, P.Pos(crypt.Pos()), fmt.Sprintf("%d encrypting and %d decrypting single-block paths: up, add, down; plaintext absorbed", nEnc, nDec))
		c.Floor("C13.R3", "encrypting single-block paths of crypt", nEnc, 1)
		c.Floor("C13.R3", "decrypting single-block paths of crypt", nDec, 1)
	}
}

// c13Counter (C13.R4): the counter trickles in. The specification absorbs the key block at the absorb rate
// and then the counter with block length 1, one duplexing call per byte (AbsorbAny(counter, 1, 0x00)):
// that is what makes an incremented counter cost one permutation. The rule looks at absorbKey: the
// call that is handed (a slice of) the counter parameter must split it into blocks of one byte — the
// block-length operand is the constant 1, or the data handed over is a one-byte slice. Absorbing the
// counter at the absorb rate yields a state no other Cyclist implementation reaches, while two peers
// running the same code still agree, and nothing in the tree passes a counter longer than one byte.
func c13Counter(c *Ctx) {
	P := c.P
	const rule = "C13.R4"
	c.Rule(rule, "the counter trickles in: in absorbKey the call that absorbs the counter parameter splits it into one-byte blocks (block-length operand constant 1, or a one-byte slice per call), while the key block uses the absorb rate (the specification's AbsorbAny(counter, 1, 0x00); at the absorb rate every keyed initialisation with a counter of two or more bytes leaves the specified state) (def-use of the block-length operand)")
	fn := P.Func("cyclist", "(*Cyclist).absorbKey")
	if fn == nil || len(fn.Params) != 4 {
		c.Undecided(rule, "cyclist.(*Cyclist).absorbKey", "function not found or its parameters are not (receiver, key, id, counter)")
		return
	}
	name := FuncName(fn)
	c.Analysed(name)
	counter := fn.Params[3]
	n := 0
	eachInstr(fn, func(ins ssa.Instruction) {
		call, ok := ins.(*ssa.Call)
		if !ok {
			return
		}
		g := staticCallee(&call.Call)
		if g == nil || !InModule(g) {
			return
		}
		dataIdx := -1
		for k, a := range call.Call.Args {
			if isByteSlice(a.Type()) {
				root, _ := accessPath(a)
				if lookThrough(root) == ssa.Value(counter) || sliceRootParam(fn, a, 3, 0) {
					dataIdx = k
				}
			}
		}
		if dataIdx < 0 {
			return
		}
		n++
		cons := fmt.Sprintf("%s#counter-blocks%d", name, n)
		okv := false
		// a one-byte slice handed over per call
		if sl, isSl := strip(call.Call.Args[dataIdx]).(*ssa.Slice); isSl && sl.High != nil {
			if lo, hi := sl.Low, sl.High; lo != nil {
				if b, isB := hi.(*ssa.BinOp); isB && b.Op == token.ADD {
					if k, isC := constInt(b.Y); isC && k == 1 && b.X == lo {
						okv = true
					}
				}
			}
		}
		// or: an integer operand that is the constant 1 (the block length)
		for k, a := range call.Call.Args {
			if k == dataIdx {
				continue
			}
			if _, _, isInt := typeRange(a.Type()); !isInt {
				continue
			}
			if bt, isBasic := a.Type().Underlying().(*types.Basic); isBasic && bt.Kind() == types.Uint8 {
				continue // the domain byte
			}
			if v, isC := constInt(a); isC && v == 1 {
				okv = true
			}
		}
		c.Check(okv, rule, cons, P.InstrPos(call), "counter absorbed in one-byte blocks", "the counter is not absorbed in blocks of one byte (no block-length operand equal to the constant 1 and no one-byte slice per call): a keyed initialisation with a counter of two or more bytes reaches a state that the Cyclist specification does not")
	})
	if n == 0 {
		c.Undecided(rule, name+"#counter-blocks", "no call in absorbKey receives the counter parameter")
	}
}
