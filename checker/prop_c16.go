package main

// C16 — Tube and muxer shutdown always terminates and is clean.
// C17 — Transport connections and deadline queues are safe under concurrent use.

import "go/types"

func init() {
	register("C16", checkC16)
	register("C17", checkC17)
}

func checkC16(c *Ctx) {
	c.Rule("C16.R1", "lock order acyclic over tubes + common (E5)")
	c.Rule("C16.R3", "guarded-by: every access of a +checklocks-annotated field in tubes happens with the named lock of the same object held; annotated functions are called with their lock held (E5)")
	lockOrderRule(c, "C16.R1", []string{"tubes", "common"})
	guardedByRule(c, "C16.R3", []string{"tubes"}, nil, nil, nil)
	c16More(c)
}

func checkC17(c *Ctx) {
	c.Rule("C17.R1", "guarded-by for the transport and common annotations plus the SessionState supplement (E5)")
	c.Rule("C17.R2", "lock order acyclic over transport + common (E5)")
	P := c.P
	// supplement: fields next to the annotated handleState that the code protects with ss.m but did not annotate
	// (confirmed by reading every accessor)
	sup := map[*types.Var]string{}
	for _, f := range []string{"remoteAddr", "window", "count"} {
		if v := P.Field("transport", "SessionState", f); v != nil {
			sup[v] = "m"
		} else {
			c.Undecided("C17.R1", "transport.SessionState."+f, "field not found")
		}
	}
	guardedByRule(c, "C17.R1", []string{"transport", "common"}, sup,
		map[string]string{
			"transport.(*SessionState).readPacketLocked": "ss.m",
			"transport.(*SessionState).sealPacketLocked": "ss.m",
			"transport.(*SessionState).writeCounter":     "ss.m",
		},
		map[string]string{
			"transport.(*Client).clientHandshakeLocked": "builds c.ss before go c.listen() and before the state becomes Open: the session is not shared yet (publication order is C17.R3)",
		})
	lockOrderRule(c, "C17.R2", []string{"transport", "common"})
	c17R3R4(c)
	c17R5(c)
	c17R6(c)
	c17R7(c)
	c17R8(c)
	c17R9(c)
}
