package main

// SSA helpers: resolved callees, access paths, value classification.

import (
	"fmt"
	"go/constant"
	"go/token"
	"go/types"
	"strings"

	"golang.org/x/tools/go/ssa"
)

// callCommon returns the CallCommon of ins if it is a call/go/defer.
func callCommon(ins ssa.Instruction) *ssa.CallCommon {
	if c, ok := ins.(ssa.CallInstruction); ok {
		return c.Common()
	}
	return nil
}

// calleeFunc resolves the called *types.Func (static function, method, or
// interface method), never by name matching on text.
func calleeFunc(cc *ssa.CallCommon) *types.Func {
	if cc == nil {
		return nil
	}
	if cc.IsInvoke() {
		return cc.Method
	}
	switch v := cc.Value.(type) {
	case *ssa.Function:
		if o := v.Origin(); o != nil {
			v = o
		}
		if f, ok := v.Object().(*types.Func); ok {
			return f
		}
	case *ssa.MakeClosure:
		if fn, ok := v.Fn.(*ssa.Function); ok {
			if f, ok := fn.Object().(*types.Func); ok {
				return f
			}
		}
	}
	return nil
}

// staticCallee returns the *ssa.Function called, if statically known
// (including immediately-invoked closures and bound method closures).
func staticCallee(cc *ssa.CallCommon) *ssa.Function {
	if cc == nil || cc.IsInvoke() {
		return nil
	}
	switch v := cc.Value.(type) {
	case *ssa.Function:
		return v
	case *ssa.MakeClosure:
		if fn, ok := v.Fn.(*ssa.Function); ok {
			return fn
		}
	}
	return nil
}

// funcID renders a *types.Func as "pkgpath.Name" or "(pkgpath.T).Name" (pointer-ness dropped).
func funcID(f *types.Func) string {
	if f == nil {
		return ""
	}
	sig, _ := f.Type().(*types.Signature)
	pkg := ""
	if f.Pkg() != nil {
		pkg = f.Pkg().Path()
	}
	if sig != nil && sig.Recv() != nil {
		t := sig.Recv().Type()
		if pt, ok := t.(*types.Pointer); ok {
			t = pt.Elem()
		}
		switch nt := t.(type) {
		case *types.Named:
			p := ""
			if nt.Obj().Pkg() != nil {
				p = nt.Obj().Pkg().Path()
			}
			return "(" + p + "." + nt.Obj().Name() + ")." + f.Name()
		case *types.Alias:
			return "(" + nt.Obj().Pkg().Path() + "." + nt.Obj().Name() + ")." + f.Name()
		}
		return "(" + pkg + ".?)." + f.Name()
	}
	return pkg + "." + f.Name()
}

// hopID builds the funcID of a module function: hopID("transport","Server","readPacket").
func hopID(rel, typ, name string) string {
	id := modPath + "/" + rel + "." + name
	if typ != "" {
		id = "(" + modPath + "/" + rel + "." + typ + ")." + name
	}
	if P := curProgram; P != nil {
		if !P.knownFuncID(id) {
			// the name is gone: if the rules' reference tree had it, look for it under its new name
			for _, n := range []string{name, "(*" + typ + ")." + name, typ + "." + name} {
				if typ == "" && n != name {
					continue
				}
				if typ != "" && n == name {
					continue
				}
				if fn := P.reidentifyFunc(rel, n); fn != nil {
					if fo, ok := fn.Object().(*types.Func); ok {
						return funcID(fo)
					}
				}
			}
		} else {
			recordIDAnchor(P, rel, typ, name)
		}
	}
	return id
}

// curProgram is the program being checked (set by NewCtx): hopID consults it to follow renames.
var curProgram *Program

// isCall reports whether ins is a call (not go/defer unless any) to one of ids.
func isCall(ins ssa.Instruction, ids ...string) bool {
	cc := callCommon(ins)
	if cc == nil {
		return false
	}
	id := funcID(calleeFunc(cc))
	if id == "" {
		return false
	}
	for _, x := range ids {
		if x == id {
			return true
		}
	}
	return false
}

func calleeID(ins ssa.Instruction) string {
	return funcID(calleeFunc(callCommon(ins)))
}

// callArgs returns the actual arguments including the receiver first (for
// static method calls the receiver is Args[0]; for invoke it is cc.Value).
func callArgs(cc *ssa.CallCommon) []ssa.Value {
	if cc.IsInvoke() {
		return append([]ssa.Value{cc.Value}, cc.Args...)
	}
	return cc.Args
}

// isLogCall: logging is transparent to every rule.
func isLogCall(ins ssa.Instruction) bool {
	f := calleeFunc(callCommon(ins))
	if f == nil || f.Pkg() == nil {
		return false
	}
	p := f.Pkg().Path()
	if p == "github.com/sirupsen/logrus" {
		n := f.Name()
		return !strings.HasPrefix(n, "Panic") && !strings.HasPrefix(n, "Fatal") && n != "Exit"
	}
	return false
}

// strip removes value-preserving wrappers.
func strip(v ssa.Value) ssa.Value {
	for {
		switch x := v.(type) {
		case *ssa.ChangeType:
			v = x.X
		case *ssa.MakeInterface:
			v = x.X
		case *ssa.ChangeInterface:
			v = x.X
		default:
			return v
		}
	}
}

// singleStore: if a is an Alloc written by exactly one Store (a spilled
// parameter / receiver / result), return the stored value.
func singleStore(a *ssa.Alloc) ssa.Value {
	var st *ssa.Store
	for _, r := range *a.Referrers() {
		switch x := r.(type) {
		case *ssa.Store:
			if x.Addr == a {
				if st != nil {
					return nil
				}
				st = x
			}
		}
	}
	if st == nil {
		return nil
	}
	return st.Val
}

// lookThrough resolves loads of single-store allocs (spills) and strips wrappers.
func lookThrough(v ssa.Value) ssa.Value {
	for i := 0; i < 16; i++ {
		v = strip(v)
		u, ok := v.(*ssa.UnOp)
		if !ok || u.Op != token.MUL {
			return v
		}
		a, ok := u.X.(*ssa.Alloc)
		if !ok {
			return v
		}
		// only look through spills of parameters / free variables (never mutated)
		s := singleStore(a)
		if s == nil {
			return v
		}
		switch strip(s).(type) {
		case *ssa.Parameter, *ssa.FreeVar:
			v = s
		default:
			return v
		}
	}
	return v
}

// Sel is one step of an access path.
type Sel struct {
	Field *types.Var // field selection
	Index string     // "[i]" / "[lo:hi]" rendering for index/slice steps
	Deref bool
}

// accessPath decomposes v into a root value and the selectors applied to it.
// Loads, full slices and conversions are transparent.
func accessPath(v ssa.Value) (root ssa.Value, sels []Sel) {
	var rev []Sel
	for i := 0; i < 64; i++ {
		v = strip(v)
		switch x := v.(type) {
		case *ssa.FieldAddr:
			rev = append(rev, Sel{Field: fieldOf(x.X.Type(), x.Field)})
			v = x.X
		case *ssa.Field:
			rev = append(rev, Sel{Field: fieldOf(x.X.Type(), x.Field)})
			v = x.X
		case *ssa.UnOp:
			if x.Op == token.MUL {
				if a, ok := x.X.(*ssa.Alloc); ok {
					if s := singleStore(a); s != nil {
						switch strip(s).(type) {
						case *ssa.Parameter, *ssa.FreeVar:
							v = s
							continue
						}
					}
				}
				v = x.X
				continue
			}
			goto done
		case *ssa.Slice:
			if x.Low == nil && x.High == nil && x.Max == nil {
				v = x.X
				continue
			}
			rev = append(rev, Sel{Index: "[" + constStr(x.Low) + ":" + constStr(x.High) + "]"})
			v = x.X
		case *ssa.IndexAddr:
			rev = append(rev, Sel{Index: "[" + constStr(x.Index) + "]"})
			v = x.X
		case *ssa.Index:
			rev = append(rev, Sel{Index: "[" + constStr(x.Index) + "]"})
			v = x.X
		case *ssa.Convert:
			v = x.X
		case *ssa.SliceToArrayPointer:
			v = x.X
		case *synthField:
			rev = append(rev, Sel{Field: x.field})
			v = x.base
		case *ssa.Alloc:
			// a struct parameter / value receiver spilled to a local: the root is the parameter
			if s := singleStore(x); s != nil {
				switch strip(s).(type) {
				case *ssa.Parameter, *ssa.FreeVar:
					v = strip(s)
				}
			}
			goto done
		default:
			goto done
		}
	}
done:
	for i := len(rev) - 1; i >= 0; i-- {
		sels = append(sels, rev[i])
	}
	return v, sels
}

func constStr(v ssa.Value) string {
	if v == nil {
		return ""
	}
	if c, ok := v.(*ssa.Const); ok && c.Value != nil {
		return c.Value.ExactString()
	}
	return "?"
}

func fieldOf(t types.Type, idx int) *types.Var {
	if pt, ok := t.Underlying().(*types.Pointer); ok {
		t = pt.Elem()
	}
	st, ok := t.Underlying().(*types.Struct)
	if !ok || idx >= st.NumFields() {
		return nil
	}
	return st.Field(idx).Origin() // fields of instantiated generic structs map to their declaration
}

// apString renders an access path canonically ("hs.dh.remoteEphemeral").
func apString(v ssa.Value) string {
	root, sels := accessPath(v)
	var sb strings.Builder
	sb.WriteString(rootName(root))
	for _, s := range sels {
		if s.Field != nil {
			sb.WriteString("." + s.Field.Name())
		} else {
			sb.WriteString(s.Index)
		}
	}
	return sb.String()
}

func rootName(v ssa.Value) string {
	switch x := v.(type) {
	case *ssa.Parameter:
		return x.Name()
	case *ssa.FreeVar:
		return x.Name()
	case *ssa.Global:
		return x.Pkg.Pkg.Name() + "." + x.Name()
	case *ssa.Alloc:
		if x.Comment != "" {
			return x.Comment + "@" + x.Name()
		}
		return "alloc@" + x.Name()
	case *ssa.Const:
		if x.Value == nil {
			return "nil"
		}
		return x.Value.ExactString()
	case *ssa.Call:
		return "call(" + shortCallee(x.Common()) + ")@" + x.Name()
	case *ssa.Extract:
		return rootName(x.Tuple) + "#" + fmt.Sprint(x.Index)
	case *ssa.Function:
		return "func:" + x.Name()
	case nil:
		return "<nil>"
	}
	return v.Name()
}

func shortCallee(cc *ssa.CallCommon) string {
	if f := calleeFunc(cc); f != nil {
		return f.Name()
	}
	if cc != nil && cc.Value != nil {
		// call through a field of function type
		root, sels := accessPath(cc.Value)
		if len(sels) > 0 && sels[len(sels)-1].Field != nil {
			return "field:" + sels[len(sels)-1].Field.Name()
		}
		_ = root
	}
	return "?"
}

// lastField returns the last field selector of v's access path (nil if none).
func lastField(v ssa.Value) *types.Var {
	_, sels := accessPath(v)
	for i := len(sels) - 1; i >= 0; i-- {
		if sels[i].Field != nil {
			return sels[i].Field
		}
	}
	return nil
}

// hasField reports whether v's access path goes through field f.
func hasField(v ssa.Value, f *types.Var) bool {
	if f == nil {
		return false
	}
	_, sels := accessPath(v)
	for _, s := range sels {
		if s.Field == f {
			return true
		}
	}
	return false
}

// endsInField: path ends in field f (ignoring trailing index/slice steps when slicesOK).
func endsInField(v ssa.Value, f *types.Var, slicesOK bool) bool {
	if f == nil {
		return false
	}
	_, sels := accessPath(v)
	for i := len(sels) - 1; i >= 0; i-- {
		if sels[i].Field != nil {
			return sels[i].Field == f
		}
		if !slicesOK {
			return false
		}
	}
	return false
}

func isNilConst(v ssa.Value) bool {
	c, ok := strip(v).(*ssa.Const)
	return ok && c.Value == nil && isNillable(c.Type())
}

func isNillable(t types.Type) bool {
	switch t.Underlying().(type) {
	case *types.Pointer, *types.Interface, *types.Slice, *types.Map, *types.Chan, *types.Signature:
		return true
	case *types.Basic:
		return t.Underlying().(*types.Basic).Kind() == types.UntypedNil || t.Underlying().(*types.Basic).Kind() == types.UnsafePointer
	}
	return false
}

func constInt(v ssa.Value) (int64, bool) {
	c, ok := strip(v).(*ssa.Const)
	if !ok || c.Value == nil || c.Value.Kind() != constant.Int {
		return 0, false
	}
	return c.Int64(), true
}

func constBool(v ssa.Value) (bool, bool) {
	c, ok := v.(*ssa.Const)
	if !ok || c.Value == nil || c.Value.Kind() != constant.Bool {
		return false, false
	}
	return constant.BoolVal(c.Value), true
}

var errorType = types.Universe.Lookup("error").Type()

func isErrorType(t types.Type) bool { return types.Identical(t, errorType) }

// resultIndexOfError returns the index of the (last) error result of sig, or -1.
func errorResultIndex(sig *types.Signature) int {
	r := sig.Results()
	for i := r.Len() - 1; i >= 0; i-- {
		if isErrorType(r.At(i).Type()) {
			return i
		}
	}
	return -1
}

// extractOf returns the k-th result value of call (the call itself if single-valued).
func extractOf(call *ssa.Call, k int) ssa.Value {
	sig := call.Common().Signature()
	if sig.Results().Len() == 1 {
		if k == 0 {
			return call
		}
		return nil
	}
	for _, r := range *call.Referrers() {
		if e, ok := r.(*ssa.Extract); ok && e.Index == k {
			return e
		}
	}
	return nil
}

// errResultOf returns the SSA value carrying call's error result (or nil).
func errResultOf(call *ssa.Call) ssa.Value {
	k := errorResultIndex(call.Common().Signature())
	if k < 0 {
		return nil
	}
	return extractOf(call, k)
}

// fromCall: v (possibly an Extract) is result #k of which call?
func fromCall(v ssa.Value) (*ssa.Call, int) {
	v = strip(v)
	switch x := v.(type) {
	case *ssa.Call:
		return x, 0
	case *ssa.Extract:
		if c, ok := x.Tuple.(*ssa.Call); ok {
			return c, x.Index
		}
	}
	return nil, -1
}

// instrIndex returns the index of ins in its block.
func instrIndex(ins ssa.Instruction) int {
	for i, x := range ins.Block().Instrs {
		if x == ins {
			return i
		}
	}
	return -1
}

// dominatesInstr: a is executed before b on every path to b.
func dominatesInstr(a, b ssa.Instruction) bool {
	if a.Block() == b.Block() {
		return instrIndex(a) < instrIndex(b)
	}
	return a.Block().Dominates(b.Block())
}

// eachInstr visits all instructions of fn.
func eachInstr(fn *ssa.Function, f func(ins ssa.Instruction)) {
	for _, b := range fn.Blocks {
		for _, ins := range b.Instrs {
			f(ins)
		}
	}
}

// eachInstrDeep visits fn and its anonymous functions (recursively).
func eachInstrDeep(fn *ssa.Function, f func(fn *ssa.Function, ins ssa.Instruction)) {
	eachInstr(fn, func(ins ssa.Instruction) { f(fn, ins) })
	for _, a := range fn.AnonFuncs {
		eachInstrDeep(a, f)
	}
}

// storesToField lists stores whose address is a FieldAddr of f, in fn.
func storesToField(fn *ssa.Function, f *types.Var) []*ssa.Store {
	var out []*ssa.Store
	eachInstr(fn, func(ins ssa.Instruction) {
		if st, ok := ins.(*ssa.Store); ok {
			if fa, ok := st.Addr.(*ssa.FieldAddr); ok && fieldOf(fa.X.Type(), fa.Field) == f {
				out = append(out, st)
			}
		}
	})
	return out
}

// loadsOfField: v is a load (or address) of field f?
func isFieldRef(v ssa.Value, f *types.Var) bool {
	return endsInField(v, f, false)
}

// constantInt64 returns the integer value of a typed constant object.
func constantInt64(c *types.Const) (int64, bool) {
	if c == nil || c.Val().Kind() != constant.Int {
		return 0, false
	}
	return constant.Int64Val(c.Val())
}

// synthField stands for base.field where the selection happened inside a predicate
// helper that was inlined into a caller's facts (see helperTimeRels).
type synthField struct {
	base  ssa.Value
	field *types.Var
}

func (s *synthField) Name() string                  { return s.base.Name() + "." + s.field.Name() }
func (s *synthField) String() string                { return s.Name() }
func (s *synthField) Type() types.Type              { return s.field.Type() }
func (s *synthField) Parent() *ssa.Function         { return s.base.Parent() }
func (s *synthField) Referrers() *[]ssa.Instruction { return nil }
func (s *synthField) Pos() token.Pos                { return s.base.Pos() }

// freshSliceRoot: root (as returned by accessPath) is a slice allocated right there:
// make, append onto nil / onto a fresh slice, bytes.Clone / slices.Clone, []byte(string).
func freshSliceRoot(root ssa.Value) bool {
	for d := 0; d < 4; d++ {
		switch x := strip(root).(type) {
		case *ssa.MakeSlice:
			return true
		case *ssa.Convert:
			_, fromString := x.X.Type().Underlying().(*types.Basic)
			return fromString
		case *ssa.Call:
			if b, ok := x.Call.Value.(*ssa.Builtin); ok && b.Name() == "append" && len(x.Call.Args) >= 1 {
				if isNilConst(x.Call.Args[0]) {
					return true
				}
				if cst, ok := strip(x.Call.Args[0]).(*ssa.Const); ok && cst.Value == nil {
					return true
				}
				root, _ = accessPath(x.Call.Args[0])
				continue
			}
			switch calleeID(x) {
			case "bytes.Clone", "slices.Clone":
				return true
			}
			return false
		default:
			return false
		}
	}
	return false
}
