package main

// C10 — No unauthenticated datagram can crash or wedge a transport endpoint.
// C11 — No peer-supplied frame or protocol message can crash or wedge the process.
// (R2: no reachable abort; R4: receive loops survive errors. R1/R3 live in bounds.go / ranges.go.)

import (
	"fmt"
	"go/token"
	"go/types"
	"sort"
	"strings"

	"golang.org/x/tools/go/ssa"
)

func init() {
	register("C10", checkC10)
	register("C11", checkC11)
}

var c10Scope = map[string]bool{"transport": true, "certs": true, "keys": true, "cyclist": true, "kravatte": true, "snp": true, "pkg/glob": true, "authkeys": true, "common": true, "hopserver": true}

// assertion table: abort sites reachable from the datagram handlers, each with
// the invariant that keeps peer input from triggering it (DESIGN A.5).
var c10Assertions = map[string]string{
	"cyclist.(*Cyclist).Decrypt|panic|1":                           "un-keyed-mode assertion: in every role the duplex is keyed (RekeyFromSqueeze -> Initialize) before the first Decrypt of the message sequence; which mode the duplex is in does not depend on datagram contents",
	"cyclist.(*Cyclist).Encrypt|panic|1":                           "un-keyed-mode assertion: as for Decrypt",
	"cyclist.(*Cyclist).Ratchet|panic|1":                           "un-keyed-mode assertion: Ratchet is only called by deriveFinalKeys at the end of a completed handshake, after RekeyFromSqueeze",
	"keys.(*KEMKeyPair).Decapsulate|panic|1":                       "the ciphertext length is checked against the scheme's size on the line above; circl's ML-KEM decapsulation fails only on a size/type mismatch",
	"keys.(*X25519KeyPair).Generate|panic|1":                       "crypto/rand failure: environment, not peer input",
	"keys.Encapsulate|panic|1":                                     "the public key was produced by ParseKEMPublicKeyFromBytes (right scheme) and the seed has the scheme's size; circl fails only on size/type mismatch",
	"kravatte.(*sanse).Seal|panic|1":                               "wrap fails only for inconsistent bit lengths, which Seal computes itself from the slice lengths (8*len); not input-dependent",
	"transport.(*HandshakeState).writeCookie|logrus.Panicf|1":      "AEAD overhead is the constant TagSize, the sealed secret has the constant PQSharedSecretLen: len(enc) is a constant",
	"transport.(*Server).createSessionFromHandshakeLocked|panic|1": "100 consecutive collisions in the random 32-bit session-id space: not reachable by choice of datagram contents",
	"transport.(*Server).createSessionFromHandshakeLocked|panic|2": "crypto/rand failure: environment, not peer input",
	"transport.(*SessionState).readPacketLocked|logrus.Panicf|1":   "len(b) is len(pkt) - HeaderLen - SessionIDLen - CounterLen - ciphertextLen = 0 by the definition of PlaintextLen; an identity, given the length guard that C10.R1 requires",
	"transport.(*SessionState).readPacketLocked|logrus.Panicf|2":   "cipher.AEAD contract: a successful Open returns len(ciphertext)-TagSize bytes",
	"transport.(*SessionState).sealPacketLocked|logrus.Panicf|1":   "cipher.AEAD contract: Seal appends len(plaintext)+TagSize bytes",
}

var c11Scope = map[string]bool{"tubes": true, "common": true, "authgrants": true, "codex": true, "userauth": true, "portforwarding": true, "certs": true, "keys": true}

var c11Assertions = map[string]string{
	"tubes.(*Muxer).addTube|type-assert|1":              "guarded by t.IsReliable(): only *Reliable returns true (sibling implementations checked: Reliable.IsReliable is constant true, Unreliable's constant false)",
	"tubes.(*Muxer).addTube|type-assert|2":              "guarded by !t.IsReliable(): only *Unreliable returns false",
	"tubes.(*receiver).processIntoBuffer|type-assert|1": "the heap r.fragments only ever receives *pqItem (single heap.Push site in receiver.receive)",
}

func checkC10(c *Ctx) {
	P := c.P
	c.Rule("C10.R2", "no reachable abort: every panic / logrus.Panic* / Fatal* / unchecked type assertion / non-constant integer division reachable (VTA call graph, packages of the claim) from Server.readPacket, Client.listen and Client.clientHandshakeLocked is on the assertion table with the invariant that excludes peer input (E4)")
	c.Rule("C10.R4", "the receive loops survive errors: the only edges leaving the Serve receive loop and Client.listen originate at the loop header's state test; an error from readPacket / ReadMsgUDP / handleSessionMessage continues the loop (E4 loop survival)")
	roots := []*ssa.Function{P.Func("transport", "(*Server).readPacket"), P.Func("transport", "(*Client).listen"), P.Func("transport", "(*Client).clientHandshakeLocked")}
	abortReach(c, "C10.R2", roots, c10Scope, c10Assertions)
	// the server's receive goroutine: whichever goroutine body started by Serve calls readPacket
	var recvLoop *ssa.Function
	if serve := P.Func("transport", "(*Server).Serve"); serve != nil {
		for _, g := range goBodiesOf(serve) {
			if len(callSitesIn(g, false, hopID("transport", "Server", "readPacket"))) > 0 {
				recvLoop = g
			}
		}
	}
	loopSurvivalRule(c, "C10.R4", recvLoop, "transport.(*Server).Serve:receive-goroutine", hopID("transport", "Server", "readPacket"), nil)
	loopSurvivalRule(c, "C10.R4", P.Func("transport", "(*Client).listen"), "transport.(*Client).listen", hopID("transport", "UDPLike", "ReadMsgUDP"), nil)
	c10Bounds(c)
	c10R3(c)
	c10R5(c)
}

// c10R5: an unauthenticated datagram leaves no trace in an established session.
func c10R5(c *Ctx) { sessionStateAfterAuth(c, "C10.R5") }

func sessionStateAfterAuth(c *Ctx, rule string) {
	P := c.P
	c.Rule(rule, map[string]string{"C10.R5": "", "C03.R8": "(shared with C10.R5) "}[rule]+"an established session changes only on authentic packets: inside readPacketLocked every store to a SessionState field and every call that mutates the replay window lies after a nil AEAD Open on the path; in both handleSessionMessage functions every store to a SessionState field lies after readPacketLocked returned nil (a forged datagram with a live session id must not move the window, the counters or the address: it would wedge the session) (E1 order)")
	rd := P.Func("transport", "(*SessionState).readPacketLocked")
	if rd == nil {
		c.Undecided(rule, "transport.(*SessionState).readPacketLocked", "function not found")
		return
	}
	ssT := P.Field("transport", "SessionState", "window")
	markID := hopID("transport", "SlidingWindow", "Mark")
	isSSField := func(v ssa.Value) bool {
		fa, ok := v.(*ssa.FieldAddr)
		if !ok {
			return false
		}
		_, sels := accessPath(fa)
		for _, sl := range sels {
			if sl.Field != nil && sl.Field.Pkg() != nil && ssT != nil && sl.Field.Pkg() == ssT.Pkg() {
				if named := fieldOwner(P, sl.Field); named == "SessionState" {
					return true
				}
			}
		}
		return false
	}
	type target struct {
		fn     *ssa.Function
		authID string
	}
	targets := []target{{rd, aeadOpenID}}
	for _, n := range []string{"(*Server).handleSessionMessage", "(*Client).handleSessionMessage"} {
		if f := P.Func("transport", n); f != nil {
			targets = append(targets, target{handlerBody(P, f), hopID("transport", "SessionState", "readPacketLocked")})
		} else {
			c.Undecided(rule, "transport."+n, "function not found")
		}
	}
	for _, t := range targets {
		fs := newFailSet()
		nEv := 0
		ok := walkAllOpts(c, rule, t.fn, PathOpts{MaxVisits: 2}, func(p *Path) {
			last := len(p.Blocks) - 1
			var auth *ssa.Call
			p.ForEach(func(i int, ins ssa.Instruction) bool {
				switch x := ins.(type) {
				case *ssa.Call:
					id := calleeID(x)
					if id == t.authID {
						auth = x
						return true
					}
					if id != markID {
						return true
					}
				case *ssa.Store:
					if !isSSField(x.Addr) {
						return true
					}
				default:
					return true
				}
				nEv++
				if auth == nil {
					fs.add("state-after-auth", "session state is modified before the datagram was authenticated: a forged datagram carrying a live session id changes the session (and can make it reject every later honest packet)", ins, p)
				} else if ev := errResultOf(auth); ev == nil || p.Nilness(ev, last) != isNil {
					fs.add("state-after-auth", "session state is modified on a path where authentication of the datagram was not found to succeed", ins, p)
				}
				return true
			})
		})
		if ok {
			fs.report(c, rule, FuncName(t.fn), []string{"state-after-auth"}, P.Pos(t.fn.Pos()), "every session-state change follows successful authentication on its path")
		}
		if t.fn == rd {
			c.Floor(rule, "state-changing events in readPacketLocked", nEv, 1)
		}
	}
}

// fieldOwner returns the name of the struct type (in package transport) that declares f.
func fieldOwner(P *Program, f *types.Var) string {
	for _, tn := range []string{"SessionState", "Server", "Client", "HandshakeState"} {
		for _, fld := range []string{f.Name()} {
			if g := P.Field("transport", tn, fld); g == f {
				return tn
			}
		}
	}
	return ""
}

func checkC11(c *Ctx) {
	P := c.P
	c.Rule("C11.R2", "no reachable abort from Muxer.receiver, the tube receive paths and the application-protocol decoders (E4)")
	c.Rule("C11.R4", "the muxer keeps serving: the only edges leaving Muxer.receiver's loop are the stopped-state test and a transport read error; a frame that does not decode, names an unknown tube or is rejected by a tube continues the loop (E4 loop survival)")
	roots := []*ssa.Function{
		P.Func("tubes", "(*Muxer).receiver"),
		P.Func("authgrants", "(*AgMessage).ReadFrom"), P.Func("authgrants", "ReadIntentRequest"), P.Func("authgrants", "ReadIntentCommunication"), P.Func("authgrants", "ReadConfOrDenial"),
		P.Func("authgrants", "ReadTargetInfo"), P.Func("authgrants", "ReadResponse"),
		P.Func("codex", "GetCmd"), P.Func("codex", "getStatus"), P.Func("codex", "readSize"),
		P.Func("userauth", "GetInitMsg"), P.Func("portforwarding", "readPacket"), P.Func("common", "ReadString"),
		P.Func("tubes", "(*Reliable).ReadMsgUDP"),
	}
	abortReach(c, "C11.R2", roots, c11Scope, c11Assertions)
	rcv := P.Func("tubes", "(*Muxer).receiver")
	// the receive call: readMsg, or, when that helper is inlined, the read on the underlying connection
	recvCallee := hopID("tubes", "Muxer", "readMsg")
	rawRead := hopID("transport", "MsgReader", "ReadMsg")
	if P.Func("tubes", "(*Muxer).readMsg") == nil {
		recvCallee = rawRead
	}
	loopSurvivalRule(c, "C11.R4", rcv, "tubes.(*Muxer).receiver", recvCallee, func(fn *ssa.Function, from *ssa.BasicBlock, mf *MustFacts) (bool, string) {
		// accepted extra exit: the readMsg error test, provided a decode error was filtered out before
		t, ok := from.Instrs[len(from.Instrs)-1].(*ssa.If)
		if !ok {
			return false, ""
		}
		key, keyPol := normCond(t.Cond)
		// the switch form: case err == nil / case errors.Is(err, sentinel): continue / default: return —
		// the exit is the false edge of the sentinel test, taken only for an error that is not a decode error
		if key.op == token.ILLEGAL {
			if ec, ok := key.x.(*ssa.Call); ok && calleeID(ec) == "errors.Is" && len(ec.Call.Args) == 2 {
				src := ec.Call.Args[0]
				if sv := loadSource(src); sv != nil {
					src = sv
				}
				if call, _ := fromCall(src); call != nil && (calleeID(call) == hopID("tubes", "Muxer", "readMsg") || calleeID(call) == rawRead) {
					// the edge that leaves must be the one on which errors.Is is false
					for si, sc := range from.Succs {
						leaves := !blockReaches(sc, from)
						if leaves && ((si == 0) == keyPol) {
							return false, "the receive loop is left when a frame does not decode (the true edge of the malformed-frame test): one malformed frame stops every tube"
						}
					}
					return true, "transport read error (the false edge of the malformed-frame test: decode errors continue the loop)"
				}
			}
		}
		if key.op != token.EQL || key.y != nil {
			return false, ""
		}
		src := key.x
		if s := loadSource(src); s != nil {
			src = s
		}
		call, _ := fromCall(src)
		if call != nil && calleeID(call) == rawRead {
			return true, "transport read error (the read on the underlying connection itself failed)"
		}
		if call != nil && calleeID(call) == hopID("tubes", "", "fromBytes") {
			// the decoder's error, after the malformed-frame error was filtered out and the loop continued
			for k, v := range mf.in[from] {
				if k.op == token.ILLEGAL && !v {
					if ec, ok := k.x.(*ssa.Call); ok && calleeID(ec) == "errors.Is" {
						return true, "decoder error other than a malformed frame (those are filtered by errors.Is before and continue the loop)"
					}
				}
			}
			return false, "a frame that fails to decode ends the receive loop: one malformed frame stops every tube"
		}
		if call == nil || calleeID(call) != hopID("tubes", "Muxer", "readMsg") {
			return false, ""
		}
		// can readMsg return a decode error?
		fb := P.Func("tubes", "fromBytes")
		decodeCanFail := false
		if fb != nil {
			for _, b := range fb.Blocks {
				if r, ok := b.Instrs[len(b.Instrs)-1].(*ssa.Return); ok && len(r.Results) == 2 && !isNilConst(r.Results[1]) {
					decodeCanFail = true
				}
			}
		}
		if !decodeCanFail {
			return true, "transport read error (fromBytes cannot fail)"
		}
		for k, v := range mf.in[from] {
			if k.op == token.ILLEGAL && !v {
				if ec, ok := k.x.(*ssa.Call); ok && calleeID(ec) == "errors.Is" {
					return true, "transport read error (decode errors filtered by errors.Is before)"
				}
			}
			if k.op == token.EQL && k.y != nil && !v {
				// err == errMalformedFrame false
				for _, s := range []ssa.Value{k.x, k.y} {
					if u, ok := s.(*ssa.UnOp); ok {
						if _, isG := u.X.(*ssa.Global); isG {
							return true, "transport read error (decode error compared and filtered before)"
						}
					}
				}
			}
		}
		return false, "a frame that fails to decode makes readMsg return an error, and that error ends the receive loop: one malformed frame stops every tube"
	})
	c11SentinelAgreement(c, rcv)
	c11Bounds(c)
	c11R5(c)
	c.Rule("C11.R6", "a repeated REQ cannot crash the muxer: every send on Unreliable.sendQueue from the receive path lies in a critical section of lifecycleMu that found the tube not closed (see C16.R7) (E1 + E5)")
	unreliableSendRule(c, "C11.R6")
	c.Rule("C11.R3", "proportionate allocation: every make([]T, n) in the application-protocol decoders whose size derives from bytes read from the peer is bounded by one datagram (65535) at the allocation (E3 on the E2 engine); reading through a growing buffer (io.CopyN) is the accepted idiom for larger fields")
	rangeRule(c, "C11.R3", pkgFuncs(P, true, "codex", "userauth", "portforwarding", "common", "authgrants", "certs", "tubes"), allocObs,
		"a peer-chosen length field sizes an allocation without a bound: a few bytes on the wire can make the reader allocate gigabytes", "peer-sized allocations in the decoders", 3)
}

// loopSurvivalRule: the call to calleeID in fn sits in a loop whose exit edges
// all originate at the loop header, or are accepted by extraOK.
func loopSurvivalRule(c *Ctx, rule string, fn *ssa.Function, name, callee string, extraOK func(fn *ssa.Function, from *ssa.BasicBlock, mf *MustFacts) (bool, string)) {
	P := c.P
	if fn == nil {
		c.Undecided(rule, name, "function not found")
		return
	}
	c.Analysed(FuncName(fn))
	var call ssa.Instruction
	for _, cs := range callSitesIn(fn, false, callee) {
		call = cs
	}
	if call == nil {
		c.Fail(rule, name+"#loop", P.Pos(fn.Pos()), "the receive loop no longer calls "+callee)
		return
	}
	cb := call.Block()
	if !inLoop(cb) {
		c.Fail(rule, name+"#loop", P.InstrPos(call), "the receive call is not inside a loop: the endpoint would stop serving after one datagram")
		return
	}
	// L = blocks on a cycle through cb
	fwd := map[*ssa.BasicBlock]bool{}
	var stack []*ssa.BasicBlock
	stack = append(stack, cb)
	for len(stack) > 0 {
		x := stack[len(stack)-1]
		stack = stack[:len(stack)-1]
		if fwd[x] {
			continue
		}
		fwd[x] = true
		stack = append(stack, x.Succs...)
	}
	bwd := map[*ssa.BasicBlock]bool{}
	stack = append(stack, cb)
	for len(stack) > 0 {
		x := stack[len(stack)-1]
		stack = stack[:len(stack)-1]
		if bwd[x] {
			continue
		}
		bwd[x] = true
		stack = append(stack, x.Preds...)
	}
	L := map[*ssa.BasicBlock]bool{}
	for b := range fwd {
		if bwd[b] {
			L[b] = true
		}
	}
	// header: the block of L that dominates all others
	var header *ssa.BasicBlock
	for b := range L {
		dom := true
		for o := range L {
			if !b.Dominates(o) {
				dom = false
				break
			}
		}
		if dom {
			header = b
		}
	}
	if header == nil {
		c.Undecided(rule, name+"#loop", "irreducible loop: no header found")
		return
	}
	mf := ComputeMustFacts(fn)
	nExits := 0
	bad := false
	for _, b := range fn.Blocks {
		if !L[b] {
			continue
		}
		for _, s := range b.Succs {
			if L[s] {
				continue
			}
			nExits++
			if b == header {
				continue
			}
			if extraOK != nil {
				if ok, why := extraOK(fn, b, mf); ok {
					c.OK(rule, fmt.Sprintf("%s#exit@b%d", name, b.Index), P.InstrPos(b.Instrs[len(b.Instrs)-1]), "accepted loop exit: "+why)
					continue
				} else if why != "" {
					bad = true
					c.Fail(rule, name+"#loop", P.InstrPos(b.Instrs[len(b.Instrs)-1]), why)
					continue
				}
			}
			bad = true
			c.Fail(rule, name+"#loop", P.InstrPos(b.Instrs[len(b.Instrs)-1]), "the receive loop can be left from inside its body (not through the loop header's state test): an error caused by one datagram / frame ends service for everyone")
		}
	}
	// panics inside the loop body that are not tabled are covered by R2
	if !bad {
		c.OK(rule, name+"#loop", P.InstrPos(call), fmt.Sprintf("loop of %d blocks, %d exit edge(s), all at the header's state test or accepted", len(L), nExits))
	}
}

// C10.R3 — optional pointers on the datagram path.
func c10R3(c *Ctx) {
	P := c.P
	c.Rule("C10.R3", "optional pointers: readPacketLocked uses its key only on the non-nil edge; a session's readKey, writeKey and handle are written only by the handshake finishers, which store all three on every success path (a non-nil read key implies a non-nil handle); handleSessionMessage touches ss.handle only after readPacketLocked returned nil (E1 + E4)")
	rd := P.Func("transport", "(*SessionState).readPacketLocked")
	if rd == nil {
		c.Undecided("C10.R3", "transport.(*SessionState).readPacketLocked", "function not found")
		return
	}
	mf := ComputeMustFacts(rd)
	key0 := sessionKeyIn(P, rd)
	if key0 == nil {
		c.Undecided("C10.R3", FuncName(rd)+"#key-nil", "the key readPacketLocked opens packets with was not identified (neither a *[N]byte parameter nor a load of ss.readKey)")
		return
	}
	// the key values: the parameter, or every load of ss.readKey (the field is not written here)
	keys := []ssa.Value{key0}
	if _, isParam := key0.(*ssa.Parameter); !isParam {
		keys = nil
		fRK := P.Field("transport", "SessionState", "readKey")
		eachInstr(rd, func(ins ssa.Instruction) {
			if u, ok := ins.(*ssa.UnOp); ok && u.Op == token.MUL {
				if fa, ok := u.X.(*ssa.FieldAddr); ok && fieldOf(fa.X.Type(), fa.Field) == fRK {
					keys = append(keys, u)
				}
			}
		})
	}
	n := 0
	bad := false
	for _, key := range keys {
		if key.Referrers() == nil {
			continue
		}
		for _, r := range *key.Referrers() {
			switch r.(type) {
			case *ssa.Slice, *ssa.UnOp, *ssa.IndexAddr:
				n++
				if mf.NilAt(r, key) != nonNil && mf.NilAt(r, canon(key)) != nonNil {
					bad = true
					c.Fail("C10.R3", FuncName(rd)+"#key-nil", P.InstrPos(r), "the session key is dereferenced on a path where it was not found non-nil (a datagram for a session whose handshake has not finished would crash the endpoint)")
				}
			}
		}
	}
	if !bad {
		c.OK("C10.R3", FuncName(rd)+"#key-nil", P.Pos(rd.Pos()), fmt.Sprintf("%d use(s) of the key on the non-nil edge", n))
	}
	c.Floor("C10.R3", "dereferences of the key parameter in readPacketLocked", n, 1)
	// stored together
	fields := []*types.Var{P.Field("transport", "SessionState", "readKey"), P.Field("transport", "SessionState", "writeKey"), P.Field("transport", "SessionState", "handle")}
	for _, f := range fields {
		if f == nil {
			c.Undecided("C10.R3", "transport.SessionState.readKey/writeKey/handle", "field not found")
			return
		}
	}
	finishers := map[string]bool{"transport.(*Server).finishHandshake": true, "transport.(*Client).clientHandshakeLocked": true}
	for _, f := range fields {
		for _, w := range P.HoistWrites(P.FieldWrites(f), func(fn *ssa.Function) bool { return finishers[FuncName(fn)] }) {
			c.Check(finishers[FuncName(w.Fn)], "C10.R3", "write:SessionState."+f.Name()+"@"+FuncName(w.Fn), P.InstrPos(w.Instr), "written by a handshake finisher",
				"SessionState."+f.Name()+" is written outside the handshake finishers: the key and the handle would no longer be published together, and a datagram that opens under an early key reaches a nil handle")
		}
	}
	for name := range finishers {
		parts := name[len("transport."):]
		fn := P.Func("transport", parts)
		if fn == nil {
			c.Undecided("C10.R3", name, "function not found")
			continue
		}
		fs := newFailSet()
		ok := walkAll(c, "C10.R3", fn, func(p *Path) {
			if !isSuccess(p) {
				return
			}
			got := map[*types.Var]bool{}
			p.ForEach(func(i int, ins ssa.Instruction) bool {
				if st, ok := ins.(*ssa.Store); ok {
					for _, f := range fields {
						if endsInField(st.Addr, f, false) && !isNilConst(st.Val) {
							got[f] = true
						}
					}
				}
				return true
			})
			if len(got) != 0 && len(got) != 3 {
				fs.add("together", "a handshake finisher publishes the session keys and the handle only partially on a success path", p.Exit(), p)
			}
		})
		if ok {
			fs.report(c, "C10.R3", name, []string{"together"}, P.Pos(fn.Pos()), "readKey, writeKey and handle stored together")
		}
	}
	// handle dereferenced only after authentication
	fHandle := fields[2]
	for _, h := range sessionMsgHandlers(c, "C10.R3") {
		rp := readPacketCall(h)
		if rp == nil {
			continue
		}
		ev := errResultOf(rp)
		mfh := ComputeMustFacts(h)
		nh := 0
		okAll := true
		eachInstr(h, func(ins ssa.Instruction) {
			fa, ok := ins.(*ssa.FieldAddr)
			if !ok {
				return
			}
			if u, ok := fa.X.(*ssa.UnOp); ok && endsInField(u, fHandle, false) {
				nh++
				if ev == nil || mfh.NilAt(ins, ev) != isNil {
					okAll = false
					c.Fail("C10.R3", FuncName(h)+"#handle-after-auth", P.InstrPos(ins), "ss.handle is dereferenced on a path where readPacketLocked did not return nil")
				}
			}
		})
		if okAll {
			c.OK("C10.R3", FuncName(h)+"#handle-after-auth", P.InstrPos(rp), fmt.Sprintf("%d dereference(s) of ss.handle after a successful open", nh))
		}
	}
}

// C11.R5 — interfaces built from possibly-nil pointers (typed nil) on the receive path.
func c11R5(c *Ctx) {
	P := c.P
	c.Rule("C11.R5", "no method call on a typed-nil interface: where an interface value can hold a pointer returned by a call whose error was discarded or not found nil, every method call on it is dominated by a comparison against the typed nil of that pointer type (or by the call's nil error) (E1 dominance over the tubes receive path)")
	roots := []*ssa.Function{P.Func("tubes", "(*Muxer).receiver")}
	if roots[0] == nil {
		c.Undecided("C11.R5", "tubes.(*Muxer).receiver", "function not found")
		return
	}
	parent := P.Reach(roots, func(caller, callee *ssa.Function) bool { return InModule(callee) && relPkg(callee) == "tubes" })
	nSites := 0
	var fns []*ssa.Function
	for f := range parent {
		fns = append(fns, f)
	}
	sort.Slice(fns, func(i, j int) bool { return FuncName(fns[i]) < FuncName(fns[j]) })
	for _, fn := range fns {
		if fn.Blocks == nil {
			continue
		}
		var mf *MustFacts
		eachInstr(fn, func(ins ssa.Instruction) {
			call, ok := ins.(*ssa.Call)
			if !ok || !call.Call.IsInvoke() {
				return
			}
			// sources of the receiver through phis (and through the results of local helpers)
			seen := map[ssa.Value]bool{}
			var risky []*ssa.MakeInterface
			mfs := map[*ssa.Function]*MustFacts{}
			mfOf := func(f *ssa.Function) *MustFacts {
				if mfs[f] == nil {
					mfs[f] = ComputeMustFacts(f)
				}
				return mfs[f]
			}
			var walk func(in *ssa.Function, v ssa.Value, d int)
			walk = func(in *ssa.Function, v ssa.Value, d int) {
				if v == nil || d > 8 || seen[v] {
					return
				}
				seen[v] = true
				switch x := v.(type) {
				case *ssa.Phi:
					for _, e := range x.Edges {
						walk(in, e, d+1)
					}
				case *ssa.UnOp:
					// a local variable of interface type: every value stored to it
					if a, ok := x.X.(*ssa.Alloc); ok && x.Op == token.MUL && a.Referrers() != nil {
						for _, r := range *a.Referrers() {
							if st, ok := r.(*ssa.Store); ok && st.Addr == ssa.Value(a) {
								walk(in, st.Val, d+1)
							}
						}
					}
				case *ssa.Call:
					// an interface handed back by a helper of this package
					if g := staticCallee(&x.Call); g != nil && InModule(g) && g.Pkg == in.Pkg && len(g.Blocks) > 0 && g.Signature.Results().Len() == 1 {
						for _, b := range g.Blocks {
							if r, ok := b.Instrs[len(b.Instrs)-1].(*ssa.Return); ok && len(r.Results) == 1 {
								walk(g, r.Results[0], d+1)
							}
						}
					}
				case *ssa.MakeInterface:
					if _, isPtr := x.X.Type().Underlying().(*types.Pointer); !isPtr {
						return
					}
					src, k := fromCall(x.X)
					if src == nil || k != 0 || errorResultIndex(src.Call.Signature()) < 0 {
						return
					}
					m := mfOf(in)
					ev := errResultOf(src)
					if ev != nil && m.NilAt(x, ev) == isNil {
						return
					}
					if m.NilAt(x, x.X) == nonNil {
						return
					}
					risky = append(risky, x)
				}
			}
			walk(fn, call.Call.Value, 0)
			if len(risky) == 0 {
				return
			}
			nSites++
			if mf == nil {
				mf = ComputeMustFacts(fn)
			}
			for _, mi := range risky {
				guarded := false
				for k, v := range mf.At(call) {
					if k.op != token.EQL || k.y == nil || v {
						continue
					}
					for _, pr := range [][2]ssa.Value{{k.x, k.y}, {k.y, k.x}} {
						if pr[0] != call.Call.Value {
							continue
						}
						if tn, ok := pr[1].(*ssa.MakeInterface); ok {
							if cst, ok := tn.X.(*ssa.Const); ok && cst.Value == nil && types.Identical(cst.Type(), mi.X.Type()) {
								guarded = true
							}
						}
					}
				}
				src, _ := fromCall(mi.X)
				if ev := errResultOf(src); ev != nil && src.Parent() == fn && mf.NilAt(call, ev) == isNil {
					guarded = true
				}
				cons := fmt.Sprintf("%s#invoke:%s<-%s", FuncName(fn), call.Call.Method.Name(), shortCallee(&src.Call))
				c.Check(guarded, "C11.R5", cons, P.InstrPos(call), "guarded against the typed nil of "+mi.X.Type().String(),
					"a method is called on an interface that may hold the nil "+mi.X.Type().String()+" returned by "+shortCallee(&src.Call)+" (its error is discarded); a plain != nil test does not exclude a typed nil, so a peer frame arriving while that call fails makes the receiver dereference nil and the process dies")
			}
		})
	}
	c.Floor("C11.R5", "method calls on interfaces that may hold a pointer from an unchecked call", nSites, 1)
}

// sessionKeyIn identifies the key a packet function works with: its *[N]byte parameter,
// or, when it has none, the value it loads from SessionState.readKey / writeKey.
func sessionKeyIn(P *Program, fn *ssa.Function) ssa.Value {
	for _, p := range fn.Params {
		if pt, ok := p.Type().Underlying().(*types.Pointer); ok {
			if at, ok := pt.Elem().Underlying().(*types.Array); ok {
				if b, ok := at.Elem().Underlying().(*types.Basic); ok && b.Kind() == types.Uint8 {
					return p
				}
			}
		}
	}
	var found ssa.Value
	for _, fname := range []string{"readKey", "writeKey"} {
		f := P.Field("transport", "SessionState", fname)
		eachInstr(fn, func(ins ssa.Instruction) {
			if u, ok := ins.(*ssa.UnOp); ok && u.Op == token.MUL && found == nil && f != nil {
				if fa, ok := u.X.(*ssa.FieldAddr); ok && fieldOf(fa.X.Type(), fa.Field) == f {
					found = u
				}
			}
		})
	}
	return found
}

// c11SentinelAgreement (part of C11.R4): the receive loop recognises a frame that does not decode by a
// sentinel error (errors.Is(err, G) or err == G) and continues; any other error ends the loop and with it
// every tube. So every error the frame decoder can return must be that sentinel: G itself, or — when
// the filter is errors.Is — an error that wraps it (fmt.Errorf with %w and G among the operands,
// errors.Join with G). An error that merely prints like the sentinel is a stop of the whole muxer that
// a peer can trigger with one frame.
func c11SentinelAgreement(c *Ctx, rcv *ssa.Function) {
	P := c.P
	const rule = "C11.R4"
	fb := P.Func("tubes", "fromBytes")
	if rcv == nil || fb == nil {
		return // reported by the loop rule
	}
	globalOf := func(v ssa.Value) *ssa.Global {
		if u, ok := strip(v).(*ssa.UnOp); ok && u.Op == token.MUL {
			if g, ok := u.X.(*ssa.Global); ok {
				return g
			}
		}
		return nil
	}
	var sentinel *ssa.Global
	viaIs := false
	eachInstr(rcv, func(ins ssa.Instruction) {
		switch x := ins.(type) {
		case *ssa.Call:
			if calleeID(x) == "errors.Is" && len(x.Call.Args) == 2 {
				if g := globalOf(x.Call.Args[1]); g != nil {
					sentinel, viaIs = g, true
				}
			}
		case *ssa.BinOp:
			if x.Op == token.EQL || x.Op == token.NEQ {
				for _, v := range []ssa.Value{x.X, x.Y} {
					if g := globalOf(v); g != nil && isErrorType(g.Type().(*types.Pointer).Elem()) && sentinel == nil {
						sentinel = g
					}
				}
			}
		}
	})
	if sentinel == nil {
		return // no sentinel filter: the loop rule decides whether decode errors may end the loop
	}
	name := FuncName(fb)
	n := 0
	var classify func(v ssa.Value, depth int) (bool, ssa.Value)
	classify = func(v ssa.Value, depth int) (bool, ssa.Value) {
		if depth > 6 {
			return false, v
		}
		v = strip(v)
		if isNilConst(v) {
			return true, nil
		}
		if g := globalOf(v); g != nil {
			return g == sentinel, v
		}
		switch x := v.(type) {
		case *ssa.Phi:
			for _, e := range x.Edges {
				if ok, bad := classify(e, depth+1); !ok {
					return false, bad
				}
			}
			return true, nil
		case *ssa.MakeInterface:
			return classify(x.X, depth+1)
		case *ssa.Call:
			if !viaIs {
				return false, v
			}
			id := calleeID(x)
			wraps := false
			// operands (variadic slice contents included)
			var ops []ssa.Value
			for _, a := range x.Call.Args {
				ops = append(ops, a)
				if sl, ok := a.(*ssa.Slice); ok {
					if al, ok := sl.X.(*ssa.Alloc); ok {
						for _, r := range *al.Referrers() {
							if ia, ok := r.(*ssa.IndexAddr); ok {
								for _, rr := range *ia.Referrers() {
									if st, ok := rr.(*ssa.Store); ok {
										ops = append(ops, st.Val)
									}
								}
							}
						}
					}
				}
			}
			hasSentinel := false
			for _, o := range ops {
				if mi, ok := o.(*ssa.MakeInterface); ok {
					o = mi.X
				}
				if globalOf(o) == sentinel {
					hasSentinel = true
				}
			}
			switch id {
			case "fmt.Errorf":
				if f := constStr(x.Call.Args[0]); strings.Contains(f, "%w") && hasSentinel {
					wraps = true
				}
			case "errors.Join":
				wraps = hasSentinel
			}
			return wraps, v
		}
		return false, v
	}
	for _, b := range fb.Blocks {
		r, ok := b.Instrs[len(b.Instrs)-1].(*ssa.Return)
		if !ok || len(r.Results) != 2 {
			continue
		}
		if isNilConst(r.Results[1]) {
			continue
		}
		n++
		okv, _ := classify(r.Results[1], 0)
		c.Check(okv, rule, fmt.Sprintf("%s#decode-error%d", name, n), P.InstrPos(r), "the decoder's error is the sentinel the receive loop filters", "the frame decoder returns an error that the receive loop's malformed-frame filter ("+sentinel.Name()+") does not recognise: one frame with an inconsistent header ends the loop and stops every tube of the muxer")
	}
	c.Floor(rule, "error returns of fromBytes", n, 1)
}
