package main

// C14 — The replay filter accepts each fresh counter once and nothing stale.
//
// The equivalence with a set-based filter over all histories is a functional
// statement and is not decided. What is decided is the geometry of the ring
// bitmap, read off the code of Check and Mark themselves (no names): these are
// necessary conditions of "never lets a duplicate through".

import (
	"fmt"
	"go/token"
	"go/types"
	"sort"

	"golang.org/x/tools/go/ssa"
)

func init() { register("C14", checkC14) }

type ringShape struct {
	window  []int64 // constants W in  seq + W < top
	shifts  []int64 // constants a in  seq >> a
	bitMask []int64 // constants c in  seq & c
	idxMask []int64 // constants b in  (...) & b   where the operand is not seq itself
	arrLen  int64   // length of the indexed block array
	elemBit int64   // bits per block
}

func uniq(xs []int64) []int64 {
	sort.Slice(xs, func(i, j int) bool { return xs[i] < xs[j] })
	var out []int64
	for i, x := range xs {
		if i == 0 || x != xs[i-1] {
			out = append(out, x)
		}
	}
	return out
}

func ringShapeOf(fn *ssa.Function) ringShape {
	var rs ringShape
	var seq ssa.Value
	for _, p := range fn.Params {
		if b, ok := p.Type().Underlying().(*types.Basic); ok && b.Kind() == types.Uint64 {
			seq = p
		}
	}
	ringScan(fn, seq, &rs, 0)
	rs.window, rs.shifts, rs.bitMask, rs.idxMask = uniq(rs.window), uniq(rs.shifts), uniq(rs.bitMask), uniq(rs.idxMask)
	return rs
}

// ringScan collects the constants applied to seq in fn and in the helpers of the same
// package that fn hands seq to.
func ringScan(fn *ssa.Function, seq ssa.Value, rs *ringShape, depth int) {
	isSeq := func(v ssa.Value) bool { return seq != nil && strip(v) == seq }
	eachInstr(fn, func(ins ssa.Instruction) {
		switch x := ins.(type) {
		case *ssa.Call:
			g := staticCallee(&x.Call)
			if g == nil || depth >= 2 || g.Pkg != fn.Pkg || len(g.Blocks) == 0 {
				return
			}
			args := callArgs(&x.Call)
			for i, a := range args {
				if isSeq(a) && i < len(g.Params) {
					ringScan(g, g.Params[i], rs, depth+1)
				}
			}
		case *ssa.BinOp:
			cx, okx := constInt(x.X)
			cy, oky := constInt(x.Y)
			switch x.Op {
			case token.LSS, token.LEQ, token.GTR, token.GEQ:
				// seq + W compared with the top of the window
				for _, side := range []ssa.Value{x.X, x.Y} {
					if w, ok := seqPlus(side, isSeq, 0); ok && w > 0 {
						if x.Op == token.LEQ || x.Op == token.GEQ {
							w-- // seq+W <= top  ==  seq+(W-1) < top
						}
						rs.window = append(rs.window, w)
					}
				}
			case token.SHR:
				if oky && isSeq(x.X) {
					rs.shifts = append(rs.shifts, cy)
				}
			case token.QUO:
				if oky && isSeq(x.X) && cy > 0 && cy&(cy-1) == 0 {
					k := int64(0)
					for v := cy; v > 1; v >>= 1 {
						k++
					}
					rs.shifts = append(rs.shifts, k)
				}
			case token.AND, token.REM:
				var m int64
				var other ssa.Value
				if oky {
					m, other = cy, x.X
				} else if okx && x.Op == token.AND {
					m, other = cx, x.Y
				} else {
					return
				}
				if x.Op == token.REM {
					if m <= 0 || m&(m-1) != 0 {
						return
					}
					m--
				}
				if isSeq(other) {
					rs.bitMask = append(rs.bitMask, m)
				} else {
					rs.idxMask = append(rs.idxMask, m)
				}
			}
		case *ssa.IndexAddr:
			t := x.X.Type()
			if p, ok := t.Underlying().(*types.Pointer); ok {
				t = p.Elem()
			}
			if a, ok := t.Underlying().(*types.Array); ok {
				rs.arrLen = a.Len()
				rs.elemBit = wireSize(a.Elem()) * 8
			}
		}
	})
}

// seqPlus recognises seq + k1 + k2 ... and returns the constant sum.
func seqPlus(v ssa.Value, isSeq func(ssa.Value) bool, depth int) (int64, bool) {
	if isSeq(v) {
		return 0, true
	}
	b, ok := strip(v).(*ssa.BinOp)
	if !ok || b.Op != token.ADD || depth > 4 {
		return 0, false
	}
	if k, isC := constInt(b.Y); isC {
		if r, ok := seqPlus(b.X, isSeq, depth+1); ok {
			return r + k, true
		}
	}
	if k, isC := constInt(b.X); isC {
		if r, ok := seqPlus(b.Y, isSeq, depth+1); ok {
			return r + k, true
		}
	}
	return 0, false
}

func (r ringShape) String() string {
	return fmt.Sprintf("window=%v shift=%v bit-mask=%v index-mask=%v blocks=%d x %d bits", r.window, r.shifts, r.bitMask, r.idxMask, r.arrLen, r.elemBit)
}

func checkC14(c *Ctx) {
	c.Rule("C14.R1", "ring geometry, read off Check and Mark: each uses one window constant W, one shift a, one bit mask c and one index mask b on the sequence number; 2^a equals the bits of a block, c = 2^a - 1, the block count N is a power of two, b = N - 1, and W <= (N - 1) * 2^a (a block recycled by Mark must lie wholly below the window, otherwise a counter whose bit was wiped is accepted a second time) (constants of the SSA form)")
	c.Rule("C14.R2", "Check and Mark agree: the same W, a, b and c in both, so the bit Mark sets is the bit Check tests and the counters Mark ignores as too old are those Check rejects (sibling cross-check)")
	c.Decides("the constant geometry of the RFC 6479 ring bitmap and the agreement of its two users; that Mark zeroes only ring slots of blocks above the old top (linear obligations at every zero store); that the filter is fed with accepted counters only (Mark after Check and a nil Open, same counter)")
	c.NotDecided("equivalence with a set-based filter over all counter histories (that every block above the old top IS cleared, behaviour at 2^64 wrap-around); the window size being 448 rather than another admissible value")
	c.Rule("C14.R3", "Mark forgets only what left the window: every store of zero into the ring goes to the slot of a block cur+1 .. new (cur, new the block numbers of the old top and of the argument), and the whole ring is zeroed only when new - cur >= N; block cur and below may hold counters still inside the window (E2 linear obligations at each zero store)")
	ringRule(c, "C14.R1", "C14.R2")
	ringClearRule(c, "C14.R3")
	c14R5(c)
	c.Rule("C14.R4", "the filter's history is the accepted counters: in readPacketLocked, Mark is called only after Check(count) was true and AEAD Open returned nil, for the counter that was checked, in that order, and every success path marks (a counter recorded for a datagram that was not accepted makes the filter reject the genuine packet carrying it; see C03.R1) (E1 decision table)")
	acceptOrderRule(c, "C14.R4", []string{"replay-check", "mark", "mark-after-open", "same-counter", "order"})
}

// ringRule is shared with C03.R6 (at-most-once delivery rests on the same geometry).
func ringRule(c *Ctx, r1, r2 string) {
	P := c.P
	chk, mrk := P.Func("transport", "(SlidingWindow).Check"), P.Func("transport", "(*SlidingWindow).Mark")
	if chk == nil || mrk == nil {
		c.Undecided(r1, "transport.SlidingWindow.Check/Mark", "functions not found")
		return
	}
	shapes := map[string]ringShape{}
	for _, fn := range []*ssa.Function{chk, mrk} {
		name := FuncName(fn)
		c.Analysed(name)
		rs := ringShapeOf(fn)
		shapes[name] = rs
		site := P.Pos(fn.Pos())
		if len(rs.window) != 1 || len(rs.shifts) != 1 || len(rs.bitMask) != 1 || len(rs.idxMask) != 1 || rs.arrLen == 0 {
			if len(rs.window) > 1 || len(rs.shifts) > 1 || len(rs.bitMask) > 1 || len(rs.idxMask) > 1 {
				c.Fail(r1, name+"#geometry", site, "the function uses more than one window / shift / mask constant on the sequence number ("+rs.String()+"): its staleness test and its bit addressing disagree with themselves")
			} else {
				c.Undecided(r1, name+"#geometry", "ring-bitmap shape not recognised: "+rs.String())
			}
			continue
		}
		W, a, cm, b, N := rs.window[0], rs.shifts[0], rs.bitMask[0], rs.idxMask[0], rs.arrLen
		var bad []string
		if int64(1)<<uint(a) != rs.elemBit {
			bad = append(bad, fmt.Sprintf("2^shift = %d but a block has %d bits", int64(1)<<uint(a), rs.elemBit))
		}
		if cm != (int64(1)<<uint(a))-1 {
			bad = append(bad, fmt.Sprintf("bit mask %d != 2^shift - 1 = %d", cm, (int64(1)<<uint(a))-1))
		}
		if N&(N-1) != 0 {
			bad = append(bad, fmt.Sprintf("block count %d is not a power of two", N))
		}
		if b != N-1 {
			bad = append(bad, fmt.Sprintf("index mask %d != block count - 1 = %d", b, N-1))
		}
		if W > (N-1)*(int64(1)<<uint(a)) {
			bad = append(bad, fmt.Sprintf("window %d exceeds (blocks - 1) * block bits = %d: counters in the block that Mark recycles are still inside the window and read as never seen", W, (N-1)*(int64(1)<<uint(a))))
		}
		if W <= 0 {
			bad = append(bad, fmt.Sprintf("window %d is not positive", W))
		}
		if len(bad) > 0 {
			c.Fail(r1, name+"#geometry", site, bad[0]+" ("+rs.String()+")")
		} else {
			c.OK(r1, name+"#geometry", site, rs.String())
		}
	}
	c.Floor(r1, "users of the ring bitmap analysed", len(shapes), 2)
	a, b := shapes[FuncName(chk)], shapes[FuncName(mrk)]
	same := func(x, y []int64) bool {
		if len(x) != len(y) {
			return false
		}
		for i := range x {
			if x[i] != y[i] {
				return false
			}
		}
		return true
	}
	if len(a.window) == 1 && len(b.window) == 1 && len(a.shifts) == 1 && len(b.shifts) == 1 {
		okv := same(a.window, b.window) && same(a.shifts, b.shifts) && same(a.bitMask, b.bitMask) && same(a.idxMask, b.idxMask) && a.arrLen == b.arrLen
		c.Check(okv, r2, "transport.SlidingWindow#Check~Mark", P.Pos(mrk.Pos()), "both: "+a.String(),
			"Check and Mark address the bitmap differently or use different windows (Check: "+a.String()+"; Mark: "+b.String()+"): a counter Mark recorded is not the one Check tests")
	} else {
		c.Undecided(r2, "transport.SlidingWindow#Check~Mark", "shapes not comparable")
	}
}

// ringClearRule (C14.R3, shared as part of C03.R6): Mark forgets only what left the window.
//
// When the top moves from block cur = wt >> a to block new = seq >> a, exactly the ring slots of the
// blocks cur+1 .. new may be zeroed: each of them lies above the old top, so nothing in it was ever
// marked. Block cur and everything below it may still hold counters inside the window. The rule reads
// cur and new off the SSA (the shifts of the stored top and of the argument) and gives the linear
// engine (E2) two obligations at every store of zero into the ring, for the unmasked index e of the
// slot (e & mask or e % N):   cur + 1 <= e   and   e <= new.   A store that zeroes the whole ring needs
// new - cur >= N. The engine proves them from the loop bound, the clamp of the distance and the
// unsignedness of the loop counter; it does not execute anything.
func ringClearRule(c *Ctx, rule string) {
	P := c.P
	mrk := P.Func("transport", "(*SlidingWindow).Mark")
	fBlocks := P.Field("transport", "SlidingWindow", "blocks")
	fTop := P.Field("transport", "SlidingWindow", "wt")
	if mrk == nil || fBlocks == nil || fTop == nil {
		c.Undecided(rule, "transport.(*SlidingWindow).Mark#clearing", "function or fields not found")
		return
	}
	rs := ringShapeOf(mrk)
	if len(rs.shifts) != 1 || rs.arrLen == 0 {
		c.Undecided(rule, FuncName(mrk)+"#clearing", "ring-bitmap shape not recognised: "+rs.String())
		return
	}
	shift, N := rs.shifts[0], rs.arrLen
	// the function that holds the zero stores: Mark, or a local helper cut out of it (the window advance).
	// A helper is analysed under what Mark establishes at every call of it: argument > stored top.
	hasZeroStore := func(f *ssa.Function) bool {
		found := false
		eachInstr(f, func(ins ssa.Instruction) {
			if st, ok := ins.(*ssa.Store); ok {
				if ia, ok := st.Addr.(*ssa.IndexAddr); ok && lastField(ia.X) == fBlocks {
					if k, isC := constInt(st.Val); isC && k == 0 {
						found = true
					}
				}
				if fa, ok := st.Addr.(*ssa.FieldAddr); ok && fieldOf(fa.X.Type(), fa.Field) == fBlocks {
					found = true
				}
			}
		})
		return found
	}
	var assume func(a *boundsAn)
	if !hasZeroStore(mrk) {
		var helper *ssa.Function
		var site *ssa.Call
		eachInstr(mrk, func(ins ssa.Instruction) {
			if call, ok := ins.(*ssa.Call); ok {
				if g := staticCallee(&call.Call); g != nil && g != mrk && len(g.Blocks) > 0 && P.OwnedBy(g, mrk) && hasZeroStore(g) {
					helper, site = g, call
				}
			}
		})
		if helper != nil && len(helper.Params) == 2 && len(site.Call.Args) == 2 {
			// guarantee side: at the call, the argument is above the stored top of the same window
			mf := ComputeMustFacts(mrk)
			above := false
			for k, v := range mf.At(site) {
				if k.op == token.LSS && v && lastField(k.x) == fTop && strip(k.y) == strip(site.Call.Args[1]) {
					above = true
				}
			}
			usable := above && lookThrough(site.Call.Args[0]) == ssa.Value(mrk.Params[0]) && len(P.Callers(helper)) == 1
			if !usable {
				mrk = helper // judged without any assumption about its argument
			}
			if usable {
				h := helper
				assume = func(a *boundsAn) {
					if a.fn != h {
						return
					}
					// every load of the top that no store precedes holds the top the caller compared with
					eachInstr(h, func(ins ssa.Instruction) {
						u, ok := ins.(*ssa.UnOp)
						if !ok || u.Op != token.MUL || lastField(u) != fTop {
							return
						}
						if a.reachingField(u) != nil {
							if r := a.reachingField(u); r != ssa.Value(u) {
								if _, isLoad := r.(*ssa.UnOp); !isLoad {
									return // a store precedes
								}
							}
						}
						a.addDef(a.formOf(h.Params[1]).sub(a.formOf(u)).sub(linConst(1)))
					})
				}
				mrk = helper
			}
		}
	}
	// cur and new
	var curV, newV []ssa.Value
	eachInstr(mrk, func(ins ssa.Instruction) {
		b, ok := ins.(*ssa.BinOp)
		if !ok {
			return
		}
		isShift := false
		if b.Op == token.SHR {
			if k, ok := constInt(b.Y); ok && k == shift {
				isShift = true
			}
		}
		if b.Op == token.QUO {
			if k, ok := constInt(b.Y); ok && k == int64(1)<<uint(shift) {
				isShift = true
			}
		}
		if !isShift {
			return
		}
		x := lookThrough(b.X)
		if len(mrk.Params) == 2 && x == ssa.Value(mrk.Params[1]) {
			newV = append(newV, b)
		} else if lastField(x) == fTop {
			curV = append(curV, b)
		}
	})
	if len(curV) == 0 || len(newV) == 0 {
		c.Undecided(rule, FuncName(mrk)+"#clearing", "the block numbers of the stored top and of the argument were not found in Mark")
		return
	}
	pick := func(cands []ssa.Value, at ssa.Instruction) ssa.Value {
		for _, v := range cands {
			if ins, ok := v.(ssa.Instruction); ok && dominatesInstr(ins, at) {
				return v
			}
		}
		return nil
	}
	nStores := 0
	gen := func(a *boundsAn, ins ssa.Instruction) []boundsOb {
		if ins.Parent() != mrk {
			return nil
		}
		st, ok := ins.(*ssa.Store)
		if !ok {
			return nil
		}
		// whole ring zeroed
		if fa, ok := st.Addr.(*ssa.FieldAddr); ok && fieldOf(fa.X.Type(), fa.Field) == fBlocks {
			cur, nw := pick(curV, ins), pick(newV, ins)
			nStores++
			if cur == nil || nw == nil {
				return []boundsOb{{ins, "whole ring cleared only when the top moved at least a ring ahead (the block numbers of the old top and of the argument are not both computed before this store)", linConst(-1)}}
			}
			return []boundsOb{{ins, "whole ring cleared only when the top moved at least a ring ahead", a.formOf(nw).sub(a.formOf(cur)).sub(linConst(N))}}
		}
		ia, ok := st.Addr.(*ssa.IndexAddr)
		if !ok || lastField(ia.X) != fBlocks {
			return nil
		}
		if k, isC := constInt(st.Val); !isC || k != 0 {
			return nil
		}
		nStores++
		e := ia.Index
		if b, ok := strip(e).(*ssa.BinOp); ok {
			if k, isC := constInt(b.Y); isC && ((b.Op == token.AND && k == N-1) || (b.Op == token.REM && k == N)) {
				e = b.X
			}
		}
		cur, nw := pick(curV, ins), pick(newV, ins)
		if cur == nil || nw == nil {
			return []boundsOb{{ins, "cleared slot belongs to a block above the old top", linConst(-1)}}
		}
		ef := a.formOf(e)
		return []boundsOb{
			{ins, "cleared slot belongs to a block above the old top", ef.sub(a.formOf(cur)).sub(linConst(1))},
			{ins, "cleared slot belongs to a block not above the new top", a.formOf(nw).sub(ef)},
		}
	}
	rangeRuleAssuming(c, rule, []*ssa.Function{mrk}, gen, assume, "Mark forgets counters that may still be inside the window (a genuine packet replayed from that band is accepted a second time)", "zero stores into the ring in Mark", 1)
	_ = nStores
}

// c14R5: a counter above the top is always acceptable. "Never rejects a fresh packet for arbitrary forward
// jumps": on every path of Check on which the argument was found larger than the stored top, the answer
// is the constant true. A plausibility limit on the jump rejects the first packet after a long gap, the
// top never moves, and every later packet is rejected as well.
func c14R5(c *Ctx) {
	P := c.P
	const rule = "C14.R5"
	c.Rule(rule, "a counter above the top is always acceptable: on every path of Check where the argument was found larger than the stored top the result is the constant true (a limit on the forward jump rejects the first packet after a long gap, the top never moves, and the session stays wedged) (E1 decision table)")
	fn := P.Func("transport", "(SlidingWindow).Check")
	fTop := P.Field("transport", "SlidingWindow", "wt")
	if fn == nil || fTop == nil || len(fn.Params) != 2 {
		c.Undecided(rule, "transport.(SlidingWindow).Check", "function or field not found")
		return
	}
	name := FuncName(fn)
	c.Analysed(name)
	fs := newFailSet()
	n := 0
	ok := walkAll(c, rule, fn, func(p *Path) {
		r := p.Returns()
		if r == nil || len(r.Results) != 1 {
			return
		}
		last := len(p.Blocks) - 1
		above := false
		for k, v := range p.FactsAt(last) {
			// wt < seq true, or seq <= wt ... normalised: LSS(wt, seq) == true
			if k.op == token.LSS && v && lastField(p.Resolve(k.x, last)) == fTop && paramIndex(fn, p.Resolve(k.y, last)) == 1 {
				above = true
			}
		}
		if !above {
			return
		}
		n++
		if v, isC := pathBool(p, r.Results[0], last); !(isC && v) {
			fs.add("above-top", "Check can reject (or makes depend on something else) a counter that was found larger than the highest one accepted so far", p.Exit(), p)
		}
	})
	if ok {
		fs.report(c, rule, name, []string{"above-top"}, P.Pos(fn.Pos()), fmt.Sprintf("true on all %d paths above the top", n))
		c.Floor(rule, "paths of Check above the top", n, 1)
	}
}
