package main

// C07 — A delegate session can do only what its grants allow, once, and in time.

import (
	"fmt"
	"go/token"
	"go/types"
	"sort"
	"strings"

	"golang.org/x/tools/go/ssa"
)

func init() { register("C07", checkC07) }

// timeRel is a normalised order atom between two time values: x < y (lt) or x >= y.
type timeRel struct {
	lt   bool
	x, y ssa.Value
}

// timeRels extracts the order atoms known at the end of path p from
// time.Time.Before / After / Equal calls that were branched on.
func timeRels(p *Path) []timeRel {
	var out []timeRel
	for k, v := range p.FactsAt(len(p.Blocks) - 1) {
		if k.op != token.ILLEGAL {
			continue
		}
		call, ok := k.x.(*ssa.Call)
		if !ok {
			continue
		}
		args := callArgs(&call.Call)
		if hr := helperTimeRels(call, v); hr != nil {
			out = append(out, hr...)
			continue
		}
		if len(args) != 2 {
			continue
		}
		a, b := args[0], args[1]
		switch calleeID(call) {
		case "(time.Time).Before":
			if v {
				out = append(out, timeRel{true, a, b})
			} else {
				out = append(out, timeRel{false, a, b})
			}
		case "(time.Time).After":
			if v {
				out = append(out, timeRel{true, b, a})
			} else {
				out = append(out, timeRel{false, b, a})
			}
		case "(time.Time).Equal":
			if v {
				out = append(out, timeRel{false, a, b}, timeRel{false, b, a})
			}
		}
	}
	return out
}

// helperTimeRels inlines a predicate helper: a module function of one basic block that
// returns (possibly negated) t1.Before(t2) / After / Equal where t1, t2 are its
// parameters or fields of them. The atoms are expressed over the caller's arguments.
func helperTimeRels(call *ssa.Call, val bool) []timeRel {
	fn := staticCallee(&call.Call)
	if fn == nil || !InModule(fn) || len(fn.Blocks) != 1 {
		return nil
	}
	ret, ok := fn.Blocks[0].Instrs[len(fn.Blocks[0].Instrs)-1].(*ssa.Return)
	if !ok || len(ret.Results) != 1 {
		return nil
	}
	r := ret.Results[0]
	for {
		u, ok := r.(*ssa.UnOp)
		if !ok || u.Op != token.NOT {
			break
		}
		val = !val
		r = u.X
	}
	inner, ok := r.(*ssa.Call)
	if !ok {
		return nil
	}
	id := calleeID(inner)
	if id != "(time.Time).Before" && id != "(time.Time).After" && id != "(time.Time).Equal" {
		return nil
	}
	cargs := callArgs(&call.Call)
	var tr func(v ssa.Value, d int) ssa.Value
	tr = func(v ssa.Value, d int) ssa.Value {
		if d > 4 {
			return nil
		}
		v = strip(v)
		if k := paramIndex(fn, v); k >= 0 && k < len(cargs) {
			return cargs[k]
		}
		switch x := v.(type) {
		case *ssa.UnOp:
			if x.Op == token.MUL {
				return tr(x.X, d+1)
			}
		case *ssa.FieldAddr:
			if b := tr(x.X, d+1); b != nil {
				return &synthField{b, fieldOf(x.X.Type(), x.Field)}
			}
		case *ssa.Field:
			if b := tr(x.X, d+1); b != nil {
				return &synthField{b, fieldOf(x.X.Type(), x.Field)}
			}
		case *ssa.Alloc:
			if s := singleStore(x); s != nil {
				return tr(s, d+1)
			}
		}
		return nil
	}
	ia := callArgs(&inner.Call)
	if len(ia) != 2 {
		return nil
	}
	a, b := tr(ia[0], 0), tr(ia[1], 0)
	if a == nil || b == nil {
		return nil
	}
	switch id {
	case "(time.Time).Before":
		return []timeRel{{val, a, b}}
	case "(time.Time).After":
		return []timeRel{{val, b, a}}
	default:
		if val {
			return []timeRel{{false, a, b}, {false, b, a}}
		}
	}
	return nil
}

// isNowValue: v is the result of time.Now() or thunks.TimeNow().
func isNowValue(p *Path, v ssa.Value) bool {
	v = p.Deref(v, len(p.Blocks)-1)
	call, ok := strip(v).(*ssa.Call)
	if !ok {
		return false
	}
	if calleeID(call) == "time.Now" {
		return true
	}
	if u, ok := call.Call.Value.(*ssa.UnOp); ok {
		if g, ok := u.X.(*ssa.Global); ok && g.Name() == "TimeNow" && g.Pkg.Pkg.Path() == modPath+"/pkg/thunks" {
			return true
		}
	}
	return false
}

// rootOf returns the root of v's access path after resolving local loads on the path.
func rootOnPath(p *Path, v ssa.Value) ssa.Value {
	r, _ := accessPath(v)
	for i := 0; i < 4; i++ {
		d := p.Deref(r, len(p.Blocks)-1)
		if d == r {
			break
		}
		r, _ = accessPath(d)
	}
	return r
}

func pkgConst(P *Program, rel, name string) int64 {
	sp := P.Pkg(rel)
	if sp == nil {
		return -1 << 40
	}
	if cst, ok := sp.Pkg.Scope().Lookup(name).(*types.Const); ok {
		if v, ok := constantInt64(cst); ok {
			return v
		}
	}
	return -1 << 40
}

func checkC07(c *Ctx) {
	c.Rule("C07.R1", "grant match table (checkCmd): a nil-error return requires, for one and the same grant element, StartTime <= now < ExpTime, (Command and !shell and Cmd == cmd) or (Shell and shell), and the element deleted from sess.authorizedActions before the return (E1 decision table)")
	c.Rule("C07.R2", "every action of a grant session is checked: each handler that sess.start dispatches and that reaches an effect (process start, dial/listen, grant issuing) runs it only where usingAuthGrant is known false or a grant check (checkCmd) returned nil, in the dispatcher or in the handler; the grant fields are written only by checkAuthorization/checkCmd (E4 reachability + guarded-state dataflow)")
	c.Rule("C07.R3", "grants move, never copy: a successful AuthorizeKeyAuthGrant removes the delegate key from the transport key set on the same path (E1)")
	c.Rule("C07.R5", "consumption at admission is atomic: RemoveAuthgrants returns grants only from agMap[user][key], found there, deleted on the same path, with the read and the delete in one critical section of the map's lock (E1 + E5)")
	c.Rule("C07.R4", "target-side intent policy (checkIntent): nil only if ExpTime is not in the past, sess.user == intent.TargetUsername, the delegate certificate is well-formed and the grant type is known (E1 decision table)")
	c.Decides("match/consume shape of grant use, coverage of action kinds by a fail-closed check, fail-closed intent policy")
	c.NotDecided("wall-clock behaviour between check and use; expiry of stored grants that are never used")
	c07R1(c)
	c07R2(c)
	c07R3(c)
	c07R4(c)
	removeAuthgrantsRule(c, "C07.R5")
	c07R6(c)
	c07R7(c)
}

func c07R1(c *Ctx) {
	P := c.P
	fn := P.Func("hopserver", "(*hopSession).checkCmd")
	if fn == nil {
		c.Undecided("C07.R1", "hopserver.(*hopSession).checkCmd", "function not found")
		return
	}
	name := FuncName(fn)
	c.Analysed(name)
	fStart := P.Field("authgrants", "Authgrant", "StartTime")
	fExp := P.Field("authgrants", "Authgrant", "ExpTime")
	fType := P.Field("authgrants", "Authgrant", "GrantType")
	fCmd := P.Field("authgrants", "CommandGrantData", "Cmd")
	fActions := P.Field("hopserver", "hopSession", "authorizedActions")
	if fStart == nil || fExp == nil || fType == nil || fCmd == nil || fActions == nil {
		c.Undecided("C07.R1", "Authgrant fields", "field not found")
		return
	}
	cmdConst, shellConst := pkgConst(P, "authgrants", "Command"), pkgConst(P, "authgrants", "Shell")
	// params: sess(0) cmd(1) shell(2)
	fs := newFailSet()
	succ := 0
	ok := walkAll(c, "C07.R1", fn, func(p *Path) {
		if !isSuccess(p) {
			return
		}
		succ++
		last := len(p.Blocks) - 1
		facts := p.FactsAt(last)
		var startOK, expOK bool
		var elemRoots []ssa.Value
		for _, r := range timeRels(p) {
			// now >= StartTime  :  rel{ge, now, Start}  (¬(now<Start))  or rel{ge,...} from After
			if !r.lt && isNowValue(p, r.x) && lastField(r.y) == fStart {
				startOK = true
				elemRoots = append(elemRoots, rootOnPath(p, r.y))
			}
			if r.lt && isNowValue(p, r.y) && lastField(r.x) == fStart {
				// Start < now  (strictly after start): stronger than required but still implies it
				startOK = true
				elemRoots = append(elemRoots, rootOnPath(p, r.x))
			}
			if r.lt && isNowValue(p, r.x) && lastField(r.y) == fExp {
				expOK = true
				elemRoots = append(elemRoots, rootOnPath(p, r.y))
			}
		}
		var isCommand, isShell, cmdEq bool
		var shellParam, shellKnown bool
		for k, v := range facts {
			switch {
			case k.op == token.EQL && k.y != nil:
				for _, pr := range [][2]ssa.Value{{k.x, k.y}, {k.y, k.x}} {
					if n, isC := constInt(pr[1]); isC && lastField(pr[0]) == fType && v {
						if n == cmdConst {
							isCommand = true
							elemRoots = append(elemRoots, rootOnPath(p, pr[0]))
						}
						if n == shellConst {
							isShell = true
							elemRoots = append(elemRoots, rootOnPath(p, pr[0]))
						}
					}
					if lastField(pr[0]) == fCmd && paramIndex(fn, p.Resolve(pr[1], len(p.Blocks)-1)) == 1 && v {
						cmdEq = true
						elemRoots = append(elemRoots, rootOnPath(p, pr[0]))
					}
				}
			case k.op == token.ILLEGAL && paramIndex(fn, p.Resolve(k.x, len(p.Blocks)-1)) == 2:
				shellParam, shellKnown = v, true
			}
		}
		if !startOK {
			fs.add("start-time", "a grant is honoured on a path that never requires now >= grant.StartTime (a grant that is not yet effective can be used)", p.Exit(), p)
		}
		if !expOK {
			fs.add("expiry", "a grant is honoured on a path that never requires now < grant.ExpTime (an expired grant can be used)", p.Exit(), p)
		}
		kindOK := (isCommand && cmdEq && shellKnown && !shellParam) || (isShell && shellKnown && shellParam)
		if !kindOK {
			fs.add("kind", "a grant is honoured on a path that does not require (Command grant, not a shell, identical command text) or (Shell grant, shell request)", p.Exit(), p)
		}
		// all atoms about one element
		for i := 1; i < len(elemRoots); i++ {
			if elemRoots[i] != elemRoots[0] {
				fs.add("same-grant", "the time, type and command tests that admit the action are not all made on the same grant element", p.Exit(), p)
			}
		}
		// the element that is deleted is the element that matched: slices.Delete(S, i, i+1) with S the
		// very slice the matched element was read from (sess.authorizedActions) at index i
		p.ForEach(func(bi int, ins ssa.Instruction) bool {
			call, ok := ins.(*ssa.Call)
			if !ok {
				return true
			}
			f := staticCallee(&call.Call)
			if f == nil {
				return true
			}
			o := f
			if f.Origin() != nil {
				o = f.Origin()
			}
			if o.Pkg == nil || o.Pkg.Pkg.Path() != "slices" || o.Name() != "Delete" || len(call.Call.Args) != 3 {
				return true
			}
			if !endsInField(call.Call.Args[0], fActions, false) {
				return true
			}
			idx := p.Resolve(call.Call.Args[1], bi)
			for _, r := range elemRoots {
				// the element root is a load of &X[i] (range copy) or the IndexAddr itself
				var ia *ssa.IndexAddr
				switch x := r.(type) {
				case *ssa.IndexAddr:
					ia = x
				case *ssa.UnOp:
					ia, _ = x.X.(*ssa.IndexAddr)
				case *ssa.Alloc:
					if sv := singleStore(x); sv != nil {
						if u, ok := sv.(*ssa.UnOp); ok {
							ia, _ = u.X.(*ssa.IndexAddr)
						}
					}
				}
				if ia == nil {
					continue
				}
				if !endsInField(ia.X, fActions, false) || p.Resolve(ia.Index, bi) != idx {
					fs.add("same-grant", "the grant removed from sess.authorizedActions is not the element that matched (the matched element was read from another slice or at another index): the used grant stays usable and an unrelated one disappears", ins, p)
				}
			}
			return true
		})
		// single use: a store into sess.authorizedActions of a slice that no longer contains the element
		deleted := false
		p.ForEach(func(i int, ins ssa.Instruction) bool {
			if st, ok := ins.(*ssa.Store); ok && endsInField(st.Addr, fActions, false) {
				v := p.Deref(st.Val, i)
				if call, ok := v.(*ssa.Call); ok {
					if f := staticCallee(&call.Call); f != nil {
						o := f
						if f.Origin() != nil {
							o = f.Origin()
						}
						if o.Pkg != nil && o.Pkg.Pkg.Path() == "slices" && o.Name() == "Delete" {
							deleted = true
						}
					}
					if b, ok := call.Call.Value.(*ssa.Builtin); ok && b.Name() == "append" {
						deleted = true // manual re-slice  append(s[:i], s[i+1:]...)
					}
				}
			}
			return true
		})
		if !deleted {
			fs.add("single-use", "a grant is honoured on a path that does not remove it from sess.authorizedActions (a grant could authorize more than one action)", p.Exit(), p)
		}
	})
	if ok {
		fs.report(c, "C07.R1", name, []string{"start-time", "expiry", "kind", "same-grant", "single-use"}, P.Pos(fn.Pos()), fmt.Sprintf("holds on all %d success paths", succ))
		c.Floor("C07.R1", "success paths of checkCmd", succ, 2)
	}
}

// effect sinks: starting processes, opening sockets, issuing grants.
func isEffectSink(fn *ssa.Function) string {
	if fn == nil {
		return ""
	}
	pk := funcPkgPath(fn)
	n := fn.Name()
	switch {
	case pk == "os/exec" && (n == "Command" || n == "CommandContext" || n == "Start" || n == "Run"):
		return "os/exec." + n
	case pk == "os" && n == "StartProcess":
		return "os.StartProcess"
	case pk == "github.com/creack/pty" && strings.HasPrefix(n, "Start"):
		return "pty." + n
	case pk == "net" && (strings.HasPrefix(n, "Dial") || strings.HasPrefix(n, "Listen")):
		return "net." + n
	case pk == modPath+"/authgrants" && n == "StartTargetInstance":
		return "authgrants.StartTargetInstance"
	}
	return ""
}

func c07R2(c *Ctx) {
	P := c.P
	start := P.Func("hopserver", "(*hopSession).start")
	fUsing := P.Field("hopserver", "hopSession", "usingAuthGrant")
	fActions := P.Field("hopserver", "hopSession", "authorizedActions")
	// the grant gate: a bool field, or a method of the session computing it
	mUsing := P.Func("hopserver", "(*hopSession).usingAuthGrant")
	if start == nil || (fUsing == nil && mUsing == nil) || fActions == nil {
		c.Undecided("C07.R2", "hopserver.(*hopSession).start", "function or field not found")
		return
	}
	isGate := func(v ssa.Value) bool {
		if fUsing != nil && endsInField(v, fUsing, false) {
			return true
		}
		if mUsing != nil {
			if call, _ := fromCall(v); call != nil && staticCallee(&call.Call) == mUsing {
				return true
			}
			if src := loadSource(v); src != nil {
				if call, _ := fromCall(src); call != nil && staticCallee(&call.Call) == mUsing {
					return true
				}
			}
		}
		return false
	}
	var gateInputs []*types.Var
	if fUsing != nil {
		gateInputs = append(gateInputs, fUsing)
	} else {
		seenF := map[*types.Var]bool{}
		eachInstr(mUsing, func(ins ssa.Instruction) {
			if fa, ok := ins.(*ssa.FieldAddr); ok {
				if f := fieldOf(fa.X.Type(), fa.Field); f != nil && !seenF[f] {
					seenF[f] = true
					gateInputs = append(gateInputs, f)
				}
			}
		})
		if len(gateInputs) == 0 {
			c.Undecided("C07.R2", "hopserver.(*hopSession).usingAuthGrant", "the gate method reads no session field")
			return
		}
	}
	c.Analysed(FuncName(start))
	checkCmdID := hopID("hopserver", "hopSession", "checkCmd")
	cg := P.CG()

	// which functions reach an effect sink (memoised DFS over the VTA graph, module + sinks only)
	reach := map[*ssa.Function]string{}
	state := map[*ssa.Function]int{}
	var visit func(f *ssa.Function) string
	visit = func(f *ssa.Function) string {
		if s := isEffectSink(f); s != "" {
			return s
		}
		if !InModule(f) {
			return ""
		}
		if state[f] == 2 {
			return reach[f]
		}
		if state[f] == 1 {
			return ""
		}
		state[f] = 1
		res := ""
		if n := cg.Nodes[f]; n != nil {
			for _, e := range n.Out {
				if _, isGo := e.Site.(*ssa.Go); isGo && false {
					continue
				}
				if s := visit(e.Callee.Func); s != "" {
					res = s
					break
				}
			}
		}
		if res == "" {
			for _, a := range f.AnonFuncs {
				if s := visit(a); s != "" {
					res = s
					break
				}
			}
		}
		state[f] = 2
		reach[f] = res
		return res
	}

	// guarded-state dataflow: cleared(b) = on every path to b, usingAuthGrant was found false or a grant check returned nil
	cleared := func(fn *ssa.Function) map[*ssa.BasicBlock]bool {
		in := map[*ssa.BasicBlock]bool{}
		for _, b := range fn.Blocks {
			in[b] = true
		}
		if len(fn.Blocks) == 0 {
			return in
		}
		in[fn.Blocks[0]] = false
		gen := func(from, to *ssa.BasicBlock) bool {
			t, ok := from.Instrs[len(from.Instrs)-1].(*ssa.If)
			if !ok || (from.Succs[0] == to && from.Succs[1] == to) {
				return false
			}
			key, pol := normCond(t.Cond)
			val := (from.Succs[0] == to) == pol
			if key.op == token.ILLEGAL && isGate(key.x) && !val {
				return true
			}
			if key.op == token.EQL && key.y == nil && val {
				if call, _ := fromCall(key.x); call != nil && calleeID(call) == checkCmdID {
					return true
				}
				if src := loadSource(key.x); src != nil {
					if call, _ := fromCall(src); call != nil && calleeID(call) == checkCmdID {
						return true
					}
				}
			}
			return false
		}
		for changed, it := true, 0; changed && it < 100; it++ {
			changed = false
			for _, b := range fn.Blocks[1:] {
				v := true
				any := false
				for _, pr := range b.Preds {
					any = true
					if !(in[pr] || gen(pr, b)) {
						v = false
					}
				}
				if !any {
					v = true // unreachable
				}
				if in[b] != v {
					in[b] = v
					changed = true
				}
			}
		}
		return in
	}

	startCleared := cleared(start)
	type arm struct {
		site    ssa.Instruction
		handler *ssa.Function
	}
	var arms []arm
	eachInstr(start, func(ins ssa.Instruction) {
		var cc *ssa.CallCommon
		switch x := ins.(type) {
		case *ssa.Go:
			cc = &x.Call
		case *ssa.Call:
			cc = &x.Call
		default:
			return
		}
		h := staticCallee(cc)
		if h == nil || !InModule(h) || relPkg(h) != "hopserver" {
			return
		}
		if r := h.Signature.Recv(); r == nil {
			return
		}
		arms = append(arms, arm{ins, h})
	})
	nAction := 0
	seen := map[string]int{}
	for _, a := range arms {
		hname := FuncName(a.handler)
		if hname == "hopserver.(*hopSession).checkAuthorization" || hname == "hopserver.(*hopSession).close" {
			continue
		}
		sink := visit(a.handler)
		seen[hname]++
		cons := fmt.Sprintf("arm:%s#%d", hname, seen[hname])
		if sink == "" {
			c.OK("C07.R2", cons, P.InstrPos(a.site), "handler reaches no effect (process start, dial/listen, grant issuing): not an action")
			continue
		}
		nAction++
		c.Analysed(hname)
		if startCleared[a.site.Block()] {
			c.OK("C07.R2", cons, P.InstrPos(a.site), "dispatched only where usingAuthGrant is known false (reaches "+sink+")")
			continue
		}
		// inside the handler: every call that reaches a sink must be in cleared state
		hc := cleared(a.handler)
		var bad []string
		nEff := 0
		eachInstr(a.handler, func(ins ssa.Instruction) {
			cc := callCommon(ins)
			if cc == nil {
				return
			}
			reaches := ""
			if f := staticCallee(cc); f != nil {
				reaches = visit(f)
			} else if n := cg.Nodes[a.handler]; n != nil {
				for _, e := range n.Out {
					if e.Site == ins {
						if s := visit(e.Callee.Func); s != "" {
							reaches = s
						}
					}
				}
			}
			if reaches == "" {
				return
			}
			nEff++
			if !hc[ins.Block()] {
				bad = append(bad, fmt.Sprintf("%s reaches %s", P.InstrPos(ins), reaches))
			}
		})
		sort.Strings(bad)
		if len(bad) > 0 {
			c.Fail("C07.R2", cons, P.InstrPos(a.site), fmt.Sprintf("a session admitted through a grant can start this action without any grant check: neither the dispatch in sess.start nor the handler %s guards it by usingAuthGrant==false or a successful checkCmd", hname), bad...)
		} else {
			c.OK("C07.R2", cons, P.InstrPos(a.site), fmt.Sprintf("%d effect call(s) in the handler are guarded by usingAuthGrant==false or checkCmd==nil", nEff))
		}
	}
	c.Floor("C07.R2", "action arms dispatched by sess.start", nAction, 4)

	// who writes the grant fields: the gate is fixed at admission, the action list by admission and consumption
	isGateInput := map[*types.Var]bool{}
	for _, f := range gateInputs {
		isGateInput[f] = true
	}
	fields := append([]*types.Var{}, gateInputs...)
	if !isGateInput[fActions] {
		fields = append(fields, fActions)
	}
	for _, f := range fields {
		ws := P.HoistWrites(P.FieldWrites(f), func(fn *ssa.Function) bool {
			n := FuncName(fn)
			return n == "hopserver.(*hopSession).checkAuthorization" || n == "hopserver.(*hopSession).checkCmd"
		})
		for _, w := range ws {
			wn := FuncName(w.Fn)
			if isGateInput[f] {
				c.Check(wn == "hopserver.(*hopSession).checkAuthorization", "C07.R2", "write:gate:hopSession."+f.Name()+"@"+wn, P.InstrPos(w.Instr), "the grant gate is decided at admission only",
					"hopSession."+f.Name()+" decides whether a session is confined to its grants, and it is written outside checkAuthorization: a session admitted through a grant can stop being treated as one (for instance once its last grant is consumed) and then act without any grant")
			} else {
				c.Check(wn == "hopserver.(*hopSession).checkAuthorization" || wn == "hopserver.(*hopSession).checkCmd", "C07.R2", "write:hopSession."+f.Name()+"@"+wn, P.InstrPos(w.Instr), "written by the authorizer / the consumer",
					"hopSession."+f.Name()+" is written outside checkAuthorization / checkCmd (grant state could be widened or reset)")
			}
		}
		c.Floor("C07.R2", "writers of hopSession."+f.Name(), len(ws), 1)
	}
}

func c07R3(c *Ctx) {
	P := c.P
	fn := P.Func("hopserver", "(*HopServer).AuthorizeKeyAuthGrant")
	if fn == nil {
		c.Undecided("C07.R3", "hopserver.(*HopServer).AuthorizeKeyAuthGrant", "function not found")
		return
	}
	name := FuncName(fn)
	c.Analysed(name)
	removeID := hopID("authgrants", "AuthgrantMapSync", "RemoveAuthgrants")
	rmKey := hopID("authkeys", "SyncAuthKeySet", "RemoveKey")
	fs := newFailSet()
	n := 0
	ok := walkAll(c, "C07.R3", fn, func(p *Path) {
		last := len(p.Blocks) - 1
		granted := false
		for _, pc := range callsOnPath(p) {
			if calleeID(pc.call) == removeID {
				if ev := errResultOf(pc.call); ev != nil && p.Nilness(ev, last) != nonNil && p.Returns() != nil {
					granted = true
				}
			}
		}
		if !granted {
			return
		}
		n++
		removed := false
		for _, pc := range callsOnPath(p) {
			if calleeID(pc.call) == rmKey {
				args := callArgs(&pc.call.Call)
				if len(args) == 2 && paramIndex(fn, p.Resolve(args[1], pc.at)) == 2 {
					removed = true
				}
			}
		}
		// paths where err is untested and RemoveKey skipped are the err != nil side of an `if err == nil`
		if !removed {
			ev := returnedErr(p)
			if ev != nil && p.Nilness(ev, last) == nonNil {
				return
			}
			fs.add("key-removed", "grants are handed out on a path that does not remove the delegate key from the transport key set (the key would stay trusted after its grants are consumed)", p.Exit(), p)
		}
	})
	if ok {
		fs.report(c, "C07.R3", name, []string{"key-removed"}, P.Pos(fn.Pos()), fmt.Sprintf("RemoveKey(publicKey) on all %d granting paths", n))
		c.Floor("C07.R3", "granting paths of AuthorizeKeyAuthGrant", n, 1)
	}
}

func c07R4(c *Ctx) {
	P := c.P
	fn := P.Func("hopserver", "(*hopSession).checkIntent")
	if fn == nil {
		c.Undecided("C07.R4", "hopserver.(*hopSession).checkIntent", "function not found")
		return
	}
	name := FuncName(fn)
	c.Analysed(name)
	fExp := P.Field("authgrants", "Intent", "ExpTime")
	fTU := P.Field("authgrants", "Intent", "TargetUsername")
	fUser := P.Field("hopserver", "hopSession", "user")
	fGT := P.Field("authgrants", "Intent", "GrantType")
	if fExp == nil || fTU == nil || fUser == nil || fGT == nil {
		c.Undecided("C07.R4", "Intent fields", "field not found")
		return
	}
	known := map[int64]bool{}
	for _, n := range []string{"Shell", "Command", "LocalPF", "RemotePF", "Acme"} {
		known[pkgConst(P, "authgrants", n)] = true
	}
	fs := newFailSet()
	succ := 0
	ok := walkAll(c, "C07.R4", fn, func(p *Path) {
		if !isSuccess(p) {
			return
		}
		succ++
		last := len(p.Blocks) - 1
		expOK, userOK, typeOK := false, false, false
		for _, r := range timeRels(p) {
			// ¬(Exp < now)  i.e. Exp >= now
			if !r.lt && lastField(r.x) == fExp && isNowValue(p, r.y) {
				expOK = true
			}
			if r.lt && isNowValue(p, r.x) && lastField(r.y) == fExp {
				expOK = true
			}
		}
		for k, v := range p.FactsAt(last) {
			if k.op == token.EQL && k.y != nil && v {
				fx, fy := lastField(p.Deref(k.x, last)), lastField(p.Deref(k.y, last))
				if (fx == fUser && fy == fTU) || (fx == fTU && fy == fUser) {
					userOK = true
				}
				for _, pr := range [][2]ssa.Value{{k.x, k.y}, {k.y, k.x}} {
					if n, isC := constInt(pr[1]); isC && known[n] && lastField(p.Deref(pr[0], last)) == fGT {
						typeOK = true
					}
				}
			}
		}
		for _, sc := range swallowedErrors(p, nil) {
			fs.add("cert-format", "checkIntent accepts although "+describeCall(P, sc)+" failed", p.Exit(), p)
		}
		fmtChecked := false
		for _, pc := range callsOnPath(p) {
			if calleeID(pc.call) == hopID("certs", "", "VerifyLeafFormat") {
				fmtChecked = true
			}
		}
		if !fmtChecked {
			fs.add("cert-format", "checkIntent accepts without checking the delegate certificate's format", p.Exit(), p)
		}
		if !expOK {
			fs.add("not-expired", "checkIntent accepts on a path that does not require the intent's ExpTime to be in the future", p.Exit(), p)
		}
		if !userOK {
			fs.add("same-user", "checkIntent accepts on a path that does not require sess.user == intent.TargetUsername", p.Exit(), p)
		}
		if !typeOK {
			fs.add("known-type", "checkIntent accepts a grant type that is not one of the known constants", p.Exit(), p)
		}
	})
	if ok {
		fs.report(c, "C07.R4", name, []string{"not-expired", "same-user", "cert-format", "known-type"}, P.Pos(fn.Pos()), fmt.Sprintf("holds on all %d accepting paths", succ))
		c.Floor("C07.R4", "accepting paths of checkIntent", succ, 1)
	}
}

// c07R6: filtering in place does not multiply grants. The idiom live := s[:0]; for … { live = append(live,
// x) } compacts into the backing array of s. After it only `live` describes the result: the original
// header s still has its old length, and its tail now holds copies of elements that were moved forward,
// so using s afterwards (returning it, storing it, passing it on) turns one stored grant into several —
// and checkCmd consumes one copy per action. Rule: in hopserver and authgrants, a slice of grants that is
// the base of such an in-place filter is not returned, stored or passed to a call in that function.
func c07R6(c *Ctx) {
	P := c.P
	const rule = "C07.R6"
	c.Rule(rule, "filtering in place does not multiply grants: in hopserver / authgrants, a []Authgrant that is compacted in place (append into s[:0]) is not returned, stored or handed on under its original header afterwards (its tail then holds duplicates of the elements that moved forward; one stored grant would authorise several actions) (def-use)")
	isGrantSlice := func(t types.Type) bool {
		sl, ok := t.Underlying().(*types.Slice)
		if !ok {
			return false
		}
		n, ok := sl.Elem().(*types.Named)
		return ok && n.Obj().Name() == "Authgrant"
	}
	n := 0
	for _, f := range P.ModuleFuncs("hopserver", "authgrants") {
		if f.Blocks == nil {
			continue
		}
		eachInstr(f, func(ins ssa.Instruction) {
			sl, ok := ins.(*ssa.Slice)
			if !ok || !isGrantSlice(sl.Type()) || sl.High == nil {
				return
			}
			if k, isC := constInt(sl.High); !isC || k != 0 {
				return
			}
			if sl.Low != nil {
				if k, isC := constInt(sl.Low); !isC || k != 0 {
					return
				}
			}
			// does s[:0] (possibly through a phi) reach the first operand of an append?
			feeds := false
			var appends []*ssa.Call
			seen := map[ssa.Value]bool{}
			var follow func(v ssa.Value, depth int)
			follow = func(v ssa.Value, depth int) {
				if depth > 4 || seen[v] || v.Referrers() == nil {
					return
				}
				seen[v] = true
				for _, r := range *v.Referrers() {
					switch x := r.(type) {
					case *ssa.Phi:
						follow(x, depth+1)
					case *ssa.Call:
						if b, ok := x.Call.Value.(*ssa.Builtin); ok && b.Name() == "append" && len(x.Call.Args) > 0 && x.Call.Args[0] == v {
							feeds = true
							appends = append(appends, x)
						}
					}
				}
			}
			follow(sl, 0)
			if !feeds {
				return
			}
			n++
			base := sl.X
			cons := fmt.Sprintf("%s#in-place-filter%d", FuncName(f), n)
			var bad ssa.Instruction
			// only uses that can execute after an element was moved count
			after := func(use ssa.Instruction) bool {
				for _, a := range appends {
					if a.Block() == use.Block() {
						if instrIndex(a) < instrIndex(use) {
							return true
						}
						// same block, use first: later only around a loop
						for _, sc := range a.Block().Succs {
							if blockReaches(sc, use.Block()) {
								return true
							}
						}
						continue
					}
					if blockReaches(a.Block(), use.Block()) {
						return true
					}
				}
				return false
			}
			if base.Referrers() != nil {
				for _, r := range *base.Referrers() {
					if !after(r) {
						continue
					}
					switch x := r.(type) {
					case *ssa.Return:
						bad = x
					case *ssa.Store:
						if x.Val == base {
							bad = x
						}
					case *ssa.Call:
						if _, isB := x.Call.Value.(*ssa.Builtin); !isB {
							bad = x
						}
					case *ssa.MakeInterface, *ssa.Send:
						bad = r
					}
				}
			}
			if bad != nil {
				c.Fail(rule, cons, P.InstrPos(bad), "a grant list is compacted in place (append into its zero-length re-slice) and then used under its original header: the tail holds duplicates of the grants that moved forward, so one stored grant can authorise more than one action")
			} else {
				c.OK(rule, cons, P.InstrPos(sl), "the original header is not used after the in-place filter")
			}
		})
	}
	if n == 0 {
		c.OK(rule, "in-place-filter:none", "-", "no in-place filter of a grant list in hopserver / authgrants")
	}
}

// c07R7: a stored grant is what was issued. The window, kind and command of a grant are fixed when the
// target accepted the intent; checkCmd judges requests against the stored values. Nothing may rewrite the
// fields of a stored Authgrant: they are set where the grant is constructed (a composite literal / a fresh
// object in that function) and nowhere else. Merging "repeated" grants by widening a stored window makes
// the delegate's command valid at times for which no grant was issued.
func c07R7(c *Ctx) {
	P := c.P
	const rule = "C07.R7"
	c.Rule(rule, "a stored grant is what was issued: the fields of authgrants.Authgrant are written only where a grant is constructed (fresh object), never on a stored element (widening a stored window authorises the command at times for which no grant was issued) (E4 who-may-write)")
	pkg := P.Pkg("authgrants")
	if pkg == nil {
		c.Undecided(rule, "authgrants", "package not found")
		return
	}
	obj := pkg.Pkg.Scope().Lookup("Authgrant")
	if obj == nil {
		c.Undecided(rule, "authgrants.Authgrant", "type not found")
		return
	}
	st, ok := obj.Type().Underlying().(*types.Struct)
	if !ok {
		c.Undecided(rule, "authgrants.Authgrant", "not a struct")
		return
	}
	isGrantField := func(f *types.Var) bool {
		for i := 0; i < st.NumFields(); i++ {
			if st.Field(i) == f {
				return true
			}
		}
		return false
	}
	n := 0
	for _, f := range P.ModuleFuncs() {
		if f.Blocks == nil {
			continue
		}
		k := 0
		eachInstr(f, func(ins ssa.Instruction) {
			s, ok := ins.(*ssa.Store)
			if !ok {
				return
			}
			fa, ok := s.Addr.(*ssa.FieldAddr)
			if !ok || !isGrantField(fieldOf(fa.X.Type(), fa.Field)) {
				return
			}
			n++
			k++
			root, _ := accessPath(fa.X)
			_, fresh := lookThrough(root).(*ssa.Alloc)
			if a, isAlloc := root.(*ssa.Alloc); isAlloc {
				fresh = true
				// a local that holds a copy of / pointer to a stored element is not construction
				if sv := singleStore(a); sv != nil {
					switch strip(sv).(type) {
					case *ssa.UnOp, *ssa.IndexAddr, *ssa.Lookup, *ssa.Parameter:
						fresh = false
					}
				}
			}
			c.Check(fresh, rule, fmt.Sprintf("%s#grant-field-store%d", FuncName(f), k), P.InstrPos(ins), "set at construction", "a field of an existing Authgrant is rewritten: the stored grant no longer is what the target accepted (its window or command can be widened after the fact)")
		})
	}
	c.Floor(rule, "stores to Authgrant fields", n, 3)
}
