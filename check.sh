#!/bin/sh
# usage: check.sh <property id> <quick|thorough>
# Rebuilds the checker if needed and decides the property on /repo's current working tree.
cd "$(dirname "$0")"
export GOFLAGS=-mod=mod GOPROXY=off GOWORK=off
unset GOSUMDB 2>/dev/null || true
if [ ! -x bin/hopverif ] || [ -n "$(find checker -newer bin/hopverif -name '*.go' 2>/dev/null | head -1)" ]; then
  ./setup.sh >/dev/null || { echo "UNDECIDED: checker build failed"; exit 2; }
fi
exec bin/hopverif check --prop "$1" --tier "${2:-quick}" --repo "${VERIF_REPO:-/repo}"
