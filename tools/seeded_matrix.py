#!/usr/bin/env python3
"""Apply every stored seeded change to a scratch worktree of /repo HEAD, run the checks
of its property (and, with --all, every check) and print which rules report it.
Never touches /repo's working tree. usage: seeded_matrix.py [--all] [id ...]"""
import json, os, subprocess, sys, tempfile, shutil
VERIF = os.path.dirname(os.path.dirname(os.path.abspath(__file__)))
BIN = os.environ.get('HOPVERIF_BIN') or os.path.join(VERIF, 'bin', 'hopverif')
args = [a for a in sys.argv[1:] if not a.startswith('--')]
ALL = '--all' in sys.argv
wt = tempfile.mkdtemp(prefix='hopsm')
os.rmdir(wt)
subprocess.run(['git', '-C', '/repo', 'worktree', 'add', '--detach', wt, 'HEAD'], check=True, capture_output=True)
out = tempfile.mkdtemp(prefix='hopsmev')
try:
    props = sorted(json.loads(l)['id'] for l in open(os.path.join(VERIF, 'properties.jsonl')))
    claimed = [c['property_id'] for c in json.load(open(os.path.join(VERIF, 'MANIFEST.json')))['checks']]
    for sid in sorted(os.listdir(os.path.join(VERIF, 'seeded'))):
        if args and sid not in args:
            continue
        d = os.path.join(VERIF, 'seeded', sid)
        meta = json.load(open(os.path.join(d, 'meta.json')))
        subprocess.run(['git', '-C', wt, 'checkout', '-q', '--', '.'])
        subprocess.run(['git', '-C', wt, 'clean', '-fdq'])
        r = subprocess.run(['git', '-C', wt, 'apply', os.path.join(d, 'patch.diff')], capture_output=True, text=True)
        if r.returncode != 0:
            print('%-6s PATCH DOES NOT APPLY: %s' % (sid, r.stderr.strip()[:120]))
            continue
        which = claimed if ALL else [meta['property']] if meta['property'] in claimed else []
        p = subprocess.run([BIN, 'check', '--prop', ','.join(which), '--repo', wt, '--out', out], capture_output=True, text=True)
        rules = sorted({l.split()[1] for l in p.stdout.splitlines() if l.startswith('FAILED')})
        und = sorted({l.split()[1] for l in p.stdout.splitlines() if l.startswith('UNDECIDED')})
        print('%-6s own=%-4s %s%s' % (sid, meta['property'], ' '.join(rules) if rules else 'silent', (' UNDECIDED:' + ' '.join(und)) if und else ''))
finally:
    subprocess.run(['git', '-C', '/repo', 'worktree', 'remove', '--force', wt], capture_output=True)
    shutil.rmtree(out, ignore_errors=True)
