#!/usr/bin/env python3
"""Generates /verif/MANIFEST.json from the table below (kept in one place so the
manifest stays valid and consistent with what the checker registers)."""
import json, os, subprocess

VERIF = os.path.dirname(os.path.dirname(os.path.abspath(__file__)))

# property id -> (technique, level text, level note, design ref)
CLAIMED = {
 "C01": ("typestate + decision-table path analysis over go/ssa (MAC compare-and-abort, verify-before-trust, fail-closed verifier), dominance with polarity, call-graph provenance of the verification policy, who-may-write/send",
         "Structural necessary conditions, decided on every run from /repo's source: every squeezed handshake MAC is compared full-width and a mismatch is fatal; the certificate verifier's failure is fatal and its result is used only after success; the configured policy is attached on every provenance of a handshake state; the verifier is fail-closed; the verified key is bound into a checked MAC; connections are published / become usable only after authentication. Each is a condition whose violation lets some counterpart behaviour in the property's quantifier break the statement; the converse (cryptographic soundness) is not claimed.",
         "Trusts go/types+go/ssa, the role tables in the checker (which functions are handshake readers, which field is the MAC buffer), and that package-level error sentinels are non-nil. No pointer analysis: identity by access paths. Does not decide cryptographic strength or the correctness of certs/authkeys (C04).",
         "DESIGN.md §3 C01"),
 "C05": ("decision-table path analysis over go/ssa (no swallowed error on a success path, membership atom, same-subject arguments), dominance with polarity, who-may-call/who-may-access",
         "Structural necessary conditions: AuthorizeKey / ParseAuthorizedKeys / ParseDHPublicKey / Allowed are fail-closed on every path; checkAuthorization admits only after a nil key check or an enabled, nil grant check for the same user and the transport-authenticated key; grants are deleted when handed out; the transport key set is fed only after nil-checked parsing. Violating any of them lets some file content / history in the quantifier widen access.",
         "Trusts go/ssa and the role tables (which callee is the membership test, which field is the enable flag). File-system behaviour is not modelled.",
         "DESIGN.md §3 C05"),
 "C06": ("path analysis over go/ssa with a closure summary (approval callback returns checkIntent's verdict unchanged), per-path counting of answer writes, def-use identity of the forwarded value, decision tables on the answer readers",
         "Structural necessary conditions: every forward of an intent is preceded on its path by a nil approval of that same value (directly or through the handshake callback, which hopclient installs and whose failure is fatal); exactly one answer per request on every path, none for a request that failed to decode (which ends the conversation: the stream is unframed); confirmations only after the target's accepted answer / after checkIntent and addAuthGrant returned nil.",
         "Trusts go/ssa, the role tables (approval field, connection fields). What a user-supplied callback decides, and the ci==nil default, are outside the claim.",
         "DESIGN.md §3 C06"),
 "C07": ("decision-table path analysis with a time-order atom theory (Before/After/Equal normalised to < and >=), call-graph reachability of effect sinks from dispatched handlers, guarded-state must-dataflow (grant gate false or checkCmd==nil; the gate may be a field or a method), who-may-write on the gate's inputs",
         "Structural necessary conditions: checkCmd honours a grant only with StartTime <= now < ExpTime, matching kind and identical command text on one element, and deletes it; every handler that sess.start dispatches and that reaches a process start / dial / listen / grant issuing is guarded for grant sessions; whatever the gate is computed from is written only at admission (checkAuthorization); consumed grants take their key out of the transport key set; checkIntent is fail-closed.",
         "Trusts go/ssa, VTA call graph, the sink list (os/exec, pty, net.Dial*/Listen*, StartTargetInstance). Wall-clock behaviour between check and use is not decided.",
         "DESIGN.md §3 C07"),
 "C03": ("ordered-event path analysis on readPacketLocked (type, session id, Check, Open, Mark of the same counter), dominance with polarity in both handleSessionMessage functions, who-may-call/write (closeLocked, count, replay window), constant-slice associated-data regions, def-use provenance of packet bytes, induction-shape check of the Write chunk loop, constant geometry of the replay ring read off Check and Mark",
         "Structural necessary conditions: no delivery, control handling, close or replay-window mark without a prior successful AEAD open of that datagram under the read key with the header+session id+counter as associated data; the counter checked is the counter marked; the send counter advances exactly once per seal under the session lock; Write's chunk loop starts at 0, steps by its chunk width, propagates errors and reports what it sent; plaintext flows only into Seal; the replay ring's window, shift and masks are mutually consistent (a recycled block lies below the window).",
         "Trusts go/ssa and the role tables. The window algorithm beyond its constant geometry (C14) and SANSE itself (C12) are not decided here. An unrecognised chunk-loop shape yields UNDECIDED, not a pass.",
         "DESIGN.md §3 C03"),
 "C02": ("path-sensitive region extraction over go/ssa (linear offsets of every absorbed / decrypted / decapsulated / MAC-compared view of the received buffer, copy mirrors with dirtiness, re-basing) with an exact tiling test against the reported length; branch facts in the callers for the exact-length test; event-sequence shape of deriveFinalKeys with constant-label comparison; who-may-write and call-site provenance for the per-handshake randomness",
         "Structural necessary conditions: on every success path of each of the seven live handshake readers the received bytes [0,n) are tiled exactly by ranges that enter the transcript before the last MAC comparison, n being the length reported; every accepting caller found that length equal to the datagram length; deriveFinalKeys is ratchet / distinct constant label / squeeze per direction, called with the same argument order at both ends, with mirrored read/write assignment; X25519 ephemerals are generated on every state-creating path and their key bytes written nowhere else, KEM operations draw from crypto/rand.Reader, session ids from crypto/rand.",
         "Trusts go/ssa; offsets are compared as linear forms (non-linear length arithmetic would be reported undecided). Equality of the derived key bytes, their unpredictability, and writer-side provenance / writer-reader sequence agreement (DESIGN R3, R4: any asymmetry there fails every handshake and is what the existing tests do catch) are not decided.",
         "DESIGN.md §3 C02"),
 "C13": ("per-path counting of up/down calls in absorbAny, crypt and squeezeAny; def-use of the domain-byte operands that reach down/up from the six public operations (constants, first-block/continuation phis); sibling comparison of the two arms of crypt (order of up, keystream addition, down; provenance of the block handed to down)",
         "Structural necessary conditions of conformance and of 'two peers stay in sync': every operation advances the duplex even for an empty operand (no early return before the first up/down); the domain bytes of Absorb, absorbKey, crypt, Squeeze, SqueezeKey and Ratchet are non-zero and pairwise distinct and only the first block of an operand carries one; the encrypting arm absorbs its input block and the decrypting arm the output block it just produced, both as up, keystream addition, down.",
         "Equality of the output bytes with the Cyclist specification instantiated with Keccak-p[1600, 12 rounds] (permutation, lane packing, rates, padding positions, Hash-mode masking of the domain byte) is numerical and is not decided; no value of a domain byte is pinned, only their distinctness.",
         "DESIGN.md §9.2 C13"),
 "C14": ("constant extraction from the SSA form of SlidingWindow.Check and SlidingWindow.Mark (window constant in the staleness comparison, shift, bit mask and index mask applied to the sequence number, length and element width of the block array; x % 2^k and x / 2^k normalised to mask and shift), arithmetic relations between them, sibling cross-check of the two functions",
         "Structural necessary conditions of 'never lets a duplicate through': 2^shift equals the block width, bit mask = 2^shift - 1, the block count is a power of two, index mask = count - 1, window <= (count - 1) * block width (a block recycled by Mark lies wholly below the window), and Check and Mark use identical constants (the bit Mark sets is the bit Check tests; what Mark ignores as stale is what Check rejects).",
         "Equivalence with a set-based filter over all counter histories is a functional statement and is not decided: the run-time arithmetic of Mark's clearing loop (which blocks are zeroed on a forward jump, the clamp to the ring size), wrap-around at 2^64, and 'never rejects a fresh in-window packet' beyond the geometry. An unrecognised shape yields UNDECIDED, not a pass.",
         "DESIGN.md §3 C14"),
 "C15": ("who-may-write on SessionState.remoteAddr and the replay window, dominance with polarity (address store after readPacketLocked's nil edge), ordered-event path analysis of Handle.send (lock, seal, capture, write)",
         "Structural necessary conditions: the peer address has exactly four writers (two constructions, two post-authentication tails); the tail stores are dominated by a successful open+replay check of the datagram whose source they store; nothing else reads, copies or writes the replay window; the sender uses the address captured under the lock after sealing.",
         "Trusts go/ssa; C03.R1 supplies that readPacketLocked's success implies Check and Open. History-level roaming behaviour is not decided.",
         "DESIGN.md §3 C15"),
 "C19": ("call-graph reachability from the ClientHello arm with who-may-write on every Server field (plus a positive control), dominance with polarity for table inserts / datagram writes / handshake finish in readPacket, fail-closed chain analysis (readPQClientAck <- replay <- decryptCookie <- Open), def-use provenance of the cookie's associated data with an allow-list of injective address transformations, order atoms for the hidden-mode timestamp window plus a typed-syntax unit rule (Unix seconds never compared with a time.Duration converted to a plain integer)",
         "Structural necessary conditions: nothing reachable from the ClientHello arm writes server state; handshake state is stored only after the cookie opened and the ack MAC verified, with exact length; the cookie's AEAD authenticates a hash of the whole client key, the unmodified (or injectively transformed) IP and both port bytes, taken from this datagram, under the current cookie key; in hidden mode every reaction is under !IsHidden or after a verified hidden request with both timestamp tests.",
         "Trusts go/ssa, VTA restricted to package transport for the arm reachability, the injective-transformation allow-list (To16, String, MarshalText). Replays inside the timestamp window and timing are not decided.",
         "DESIGN.md §3 C19"),
 "C10": ("linear-offset cursor analysis over go/ssa (symbolic slice lengths, branch facts, pre-conditions propagated to call sites, post-conditions of successful returns, interval fixpoint for loop counters, phi case split), abort reachability over the VTA call graph against a reasoned assertion table, loop-exit analysis of the receive loops, ordered-event path analysis of session-state changes against authentication",
         "Structural necessary conditions: every index / slice / make / fixed-width accessor in the transport and glob functions reachable from the datagram handlers is provably within len for every datagram length and content; no panic, Fatal, unchecked assertion or non-constant division is reachable from the handlers except tabled assertions whose reason excludes peer input; the Serve and listen loops can only be left through their state test; an established session's state (replay window, counters, address) changes only after the datagram authenticated.",
         "Bounds are proven against len (stricter than Go's cap rule). Trusted contracts: io.Reader-shaped Read* return 0<=n<=len(buf); fixed-width binary accessors need their width. Out of scope: cyclist/kravatte/snp numeric kernels (they take lengths from callers), nil-ness, liveness ('still completes a subsequent handshake'). One exempted site (sealPacketLocked AD slice: bytes.Buffer contents not modelled; send path).",
         "DESIGN.md §3 C10"),
 "C11": ("the same cursor analysis over the tubes receive path (with field-length invariants, reaching field values and field-path pre-conditions), abort reachability from Muxer.receiver and the application decoders, loop-exit analysis of Muxer.receiver, range analysis of peer-sized allocations",
         "Structural necessary conditions: frame decoding and acknowledgement processing are in bounds for every frame; no reachable abort from the receive path and the decoders except tabled assertions; the muxer's receive loop is left only on the stopped state or a transport read error (decode errors filtered); no allocation sized by a peer-supplied length field above one datagram.",
         "As C10. Exempted with checked side conditions: fromInitiateBytes (every call site passes frame.toBytes() of a decoded frame), Reliable.send retransmission loops (bounded by framesToSend / len under r.l). 'Can still be stopped cleanly' is C16; unbounded queues over histories are not decided.",
         "DESIGN.md §3 C11"),
 "C18": ("range analysis of narrowing conversions on the linear-form engine (role query: 8/16-bit conversions of values that derive from len() by dataflow, incl. the byte(x>>8), byte(x) pair), facts taken at the conversion; wire-token sequence extraction over all success paths of each stream writer / reader pair (widths from the static types given to binary.Read/Write, array and literal writes, constant-length ReadFull views; variable segments; nested codecs; switch discriminants) with set comparison; def-use of Read results (no bare Read whose count is discarded in the decoding packages); path-sensitive allocation provenance of []byte fields stored by stream decoders",
         "Structural necessary conditions: (R1) every length narrowed to its wire width is provably within that width at the conversion ('rejected when encoding instead of truncated'); (R2) for the 11 stream codec pairs (Certificate, IDChunk, Name, AgMessage, Intent, the grant-data types, WriteString/ReadString, proxy id) writer and reader agree on the sequence of fixed widths, variable segments and nested codecs for every path variant and discriminant value, and use only full reads; (R3) no decoder takes a field with a single Read and drops the count; (R4) a decoder never lets a decoded []byte field keep storage from before the call.",
         "Round-trip equality of values is a functional statement and is not decided: field-to-position attribution inside equal-width runs, value transformations (time to Unix seconds), and the buffer-built codecs (frame headers, exec / userauth / port-forward requests: their readers and writers use different styles; only R1 applies to them) are outside R2. 32-bit prefixes are outside the 8/16-bit rule.",
         "DESIGN.md §3 C18"),
 "C20": ("cursor/bounds analysis of glob.Glob (interval fixpoint over its loop variables), abort reachability, loop-progress analysis on the SSA loop (every path around a loop strictly advances a loop variable, none moves backwards), path analysis of the consumers (argument order, first true element in slice order, merge iff match, once per block)",
         "Structural necessary conditions of the totality clause (no out-of-range index for any pattern/input, no abort, no state-preserving path around a loop) and of the 'consequently' clause (the consumers ask Glob(pattern, input) and act on the first match / on each matching block once, in order). That Glob computes glob matching is a functional statement and is not decided (the pinned matcher's missing backtracking, F6, was found by reading and repaired, not detected by this check).",
         "Trusts go/ssa. The progress rule is a necessary condition of termination, not a termination proof.",
         "DESIGN.md §3 C20"),
 "C04": ("decision tables over go/ssa paths with a small closed theory (equality of enum / fingerprint operands, boolean call results, a total order on time values normalised from Before/After/Equal): success paths must entail every validity obligation, the branch deciding each failing return must be the complement of one; def-use checks of the signed range; who-may-write on raw/Fingerprint",
         "Structural necessary conditions in both directions: Store.VerifyLeaf accepts only chains that satisfy every clause of the statement (types, name, [IssuedAt, ExpiresAt) for all three, parent provenance, store-only anchor, both signatures) and rejects only through the complement of such a clause; VerifyParent's pairing, link and signature arguments; MatchesName / Name.IsZero / authkeys.VerifyLeaf fail-closed; issuance produces what verification demands (validity window inside the parent's, clamped expiry, signed range, parent types).",
         "Trusts go/ssa and the field/role tables. Ed25519, SHA-3 and the encoding round-trip are outside (primitives; C18).",
         "DESIGN.md §3 C04"),
 "C08": ("who-may-write on the retransmission buffer classified by stored value (append / re-slice), ordered-event path analysis of processIntoBuffer (equal edge before delivery, exactly one window/ack advance per delivery), of sendFin (number taken before the single increment, under the lock) and of recvAck (stop/re-arm pairing of the retransmission ticker), dominance facts for push-back and bounds-tested pushes, decision table of receiveInitiatePkt (REQ answered unless closed)",
         "Structural necessary conditions of in-order, complete delivery (incl. a repeated REQ is answered in every state but closed, so the loss of one RESP is recoverable): unacknowledged frames are discarded nowhere but in the acknowledged-drop loop; bytes reach the stream buffer only for the fragment whose number equals the window start, which then advances exactly once; FIN is numbered right after the last data frame and nothing is queued after it; end-of-stream is marked only for the in-order FIN; the retransmission timer is re-armed on every non-failing path that stopped it.",
         "Liveness under outage/recovery, RTO arithmetic, duplicate-ack limits and sequence-number unwrapping are value- and schedule-dependent and are not decided.",
         "DESIGN.md §3 C08"),
 "C09": ("dominance facts (reliability predicate selects the table at every access; peer-initiated creation only on lookup miss + REQ + that frame's fields), ordered-event path analysis of the creators (lock held from id choice to insertion), send-site who-may and per-path counting for the accept queue, induction-shape check of pickTubeID (start at parity, step 2, bounded before narrowing), def-use freshness of frame payloads, sibling constants (id quarantine vs last-ack wait, as multiples of the RTT estimate)",
         "Structural necessary conditions of tube isolation (incl. a closed tube's id stays reserved at least as many RTTs as the peer may wait in lastAck): both tables are keyed and selected consistently by all four accessors and by the receiver; id choice and insertion are atomic; each remotely opened tube is offered exactly once with the opener's type and reliability; one frame per unreliable message and its payload enqueued once; the two ends allocate from disjoint parity classes; decoded payloads do not alias the reused read buffer.",
         "Late frames of a closed tube reaching a successor with the same id, and interleavings in general, are history-dependent and not decided.",
         "DESIGN.md §3 C09"),
 "C12": ("path analysis of unwrap/Open (success only through the equal edge of a full-width comparison of the Vatte-filled tag with the unsliced argument; tag width via the linear-form engine), def-use roots of the buffers handed to wrap/unwrap, read-modify-write dependence of lane stores, per-path counting of the session-parity flip in wrap and unwrap",
         "Structural necessary conditions (the fourth: wrap and unwrap flip the session parity exactly once on every success path, so the two ends of a multi-message session stay in step): a forged tag cannot pass through a narrow or unchecked comparison and a mismatch yields (nil, error); Seal/Open work on private copies so overlapping caller buffers are not corrupted; the byte-granular state writers preserve the rest of the lane so every key byte reaches the mask. Conformance with the Kravatte-SANSE specification for all keys and lengths is numerical and not decided.",
         "Trusts go/ssa. Nothing is claimed about keccakF1600, rollC/rollE or Vatte/Kra arithmetic.",
         "DESIGN.md §3 C12"),
 "C16": ("lock-discipline analysis driven by the repository's own +checklocks annotations (must-held locksets, guarded-by, annotated-callee obligations), lock-order graph with callee summaries and cycle detection, recognition of close-election idioms (won CAS/Swap, state test + assignment under the object's lock, probed channel under a lock, once-per-object goroutine with per-path counting), dominance of queue sends by the closed flag or a not-closed tube state under the tube lock, ordered-event path analysis of Muxer.Stop / enterClosedState / Reliable.Write, arm/start pairing of the send goroutine",
         "Structural conditions whose violation makes some schedule deadlock, panic or leak: acyclic lock order over tubes+common; every annotated field accessed under its lock; every close of a field channel elected; no send on a sender queue that may be closed; tube closes before the stopping state, queues closed after all tubes finished, transport closed before forcing; the tube is marked closed before its sender queues close and r.l is released while waiting for the send goroutine; writes only in writable states; the sender is armed only together with its goroutine.",
         "Termination within a bound for all interleavings and loss patterns is not decided. The annotation semantics are re-implemented (gVisor checklocks is not installed); closures start with an empty lockset.",
         "DESIGN.md §3 C16"),
 "C17": ("the same lock-discipline analysis over transport+common (with a three-field supplement next to the annotated handleState), lock-order graph, ordered-event path analysis of the election/publication protocols (close of completion channels only by the CAS winner and after the result stores; readers after a receive or the publishing state; wg.Add before go), close-before-wait ordering, ordered steps of DeadlineChan.Recv/Send/Close, write/arm/read typestate of the client handshake",
         "Structural conditions of race-freedom, idempotent close and release of blocked calls: guarded-by and acyclic lock order; completion channels closed once, by the elected caller, after the results they publish; c.err stored before the state that publishes it; the close owner closes the socket before any blocking wait and non-owners wait on closeDone only; Recv tries buffered data, then the closed flag, then the deadline; Send enqueues only after finding the queue open under its lock; Close sets the flag before cancelling and never closes the data channel; every handshake read is armed with the handshake deadline.",
         "'No data race for every program' and 'every call returns' are not decided as wholes; the race detector's verdict on schedules is outside static reach.",
         "DESIGN.md §3 C17"),
}

NOT_APPLICABLE = {
}

# properties whose checks are not implemented yet in this revision (kept honest: not claimed)
PENDING_REASON = "not claimed in this revision: the static rules designed for it in DESIGN.md §3 are not implemented yet"

def main():
    props = [json.loads(l)["id"] for l in open(os.path.join(VERIF, "properties.jsonl"))]
    try:
        commits = subprocess.run(["git", "-C", "/repo", "log", "--format=%h %s", "--grep=^fix:"], capture_output=True, text=True).stdout.strip().splitlines()
    except Exception:
        commits = []
    checks = []
    for pid in props:
        if pid not in CLAIMED:
            continue
        tech, text, note, ref = CLAIMED[pid]
        checks.append({
            "property_id": pid,
            "quick_cmd": "./check.sh %s quick" % pid,
            "thorough_cmd": "./check.sh %s thorough" % pid,
            "evidence_file": "/verif/evidence/%s.json" % pid,
            "replay_cmd_template": "bin/hopverif explain {path}",
            "engine": "hopverif",
            "level_claimed": {"category": "other", "text": text, "design_ref": ref},
            "level_note": note,
            "technique": "static analysis: " + tech,
        })
    na = []
    for pid in props:
        if pid in CLAIMED:
            continue
        na.append({"property_id": pid, "reason": NOT_APPLICABLE.get(pid, PENDING_REASON)})
    m = {
        "version": 1,
        "setup_cmd": "./setup.sh",
        "hooks": {
            "guard": "verif",
            "enable": "no source hooks are needed: the checks read /repo's source (go/packages) and never build or run it; the tag 'verif' is reserved and unused",
            "baseline_off_cmd": "cd /repo && go build ./... && go test -vet=off -count=1 -timeout 25m ./...",
            "source_commits": commits,
            "add_only": True,
        },
        "engines": [{
            "name": "hopverif",
            "path": "/verif/checker",
            "serves_properties": sorted(CLAIMED),
            "kind_free_text": "repository-specific static analyser (Go, golang.org/x/tools v0.29.0: go/packages, go/ssa, CHA+VTA call graph): path/typestate rules, dominance with polarity, who-may-call/write, range and cursor analyses; nothing from /repo is executed",
        }],
        "checks": checks,
        "not_applicable": na,
        "notes": "All checks are static analysis of /repo's current working tree. source_commits lists the unguarded 'fix:' repairs of genuine defects (see known_findings.json, DESIGN.md §4). Exit codes: 0 held, 1 VIOLATION, 2 undecided/load error.",
    }
    json.dump(m, open(os.path.join(VERIF, "MANIFEST.json"), "w"), indent=1)
    print("MANIFEST.json: %d checks, %d not_applicable" % (len(checks), len(na)))

main()
