#!/usr/bin/env python3
"""Apply behaviour-preserving refactorings (patches) to a scratch worktree of /repo HEAD and run
every claimed check on each: all of them must stay silent (exit 0).
usage: benign_matrix.py [--src DIR]   DIR defaults to /verif/benign ; layout DIR/<prop>/<name>.diff"""
import json, os, subprocess, sys, tempfile, shutil
VERIF = os.path.dirname(os.path.dirname(os.path.abspath(__file__)))
BIN = os.environ.get('HOPVERIF_BIN') or os.path.join(VERIF, 'bin', 'hopverif')
src = os.path.join(VERIF, 'benign')
only = []
a = sys.argv[1:]
while a:
    if a[0] == '--src':
        src = a[1]; a = a[2:]
    else:
        only.append(a[0]); a = a[1:]
wt = tempfile.mkdtemp(prefix='hopbm'); os.rmdir(wt)
subprocess.run(['git', '-C', '/repo', 'worktree', 'add', '--detach', wt, 'HEAD'], check=True, capture_output=True)
out = tempfile.mkdtemp(prefix='hopbmev')
bad = 0
try:
    claimed = [c['property_id'] for c in json.load(open(os.path.join(VERIF, 'MANIFEST.json')))['checks']]
    for prop in sorted(os.listdir(src)):
        d = os.path.join(src, prop)
        if not os.path.isdir(d) or (only and prop not in only):
            continue
        for f in sorted(os.listdir(d)):
            if not f.endswith('.diff'):
                continue
            subprocess.run(['git', '-C', wt, 'checkout', '-q', '--', '.'])
            subprocess.run(['git', '-C', wt, 'clean', '-fdq'])
            r = subprocess.run(['git', '-C', wt, 'apply', os.path.join(d, f)], capture_output=True, text=True)
            if r.returncode != 0:
                print('%-4s %-10s does not apply (tree moved on): skipped' % (prop, f)); continue
            p = subprocess.run([BIN, 'check', '--prop', ','.join(claimed), '--repo', wt, '--out', out], capture_output=True, text=True)
            lines = [l for l in p.stdout.splitlines() if l.startswith('FAILED') or l.startswith('UNDECIDED')]
            if p.returncode == 0:
                print('%-4s %-10s silent' % (prop, f))
            else:
                bad += 1
                print('%-4s %-10s ALARM exit=%d' % (prop, f, p.returncode))
                for l in lines[:6]:
                    print('        ' + l[:260])
finally:
    subprocess.run(['git', '-C', '/repo', 'worktree', 'remove', '--force', wt], capture_output=True)
    shutil.rmtree(out, ignore_errors=True)
sys.exit(1 if bad else 0)
