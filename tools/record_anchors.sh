#!/bin/bash
# Regenerates /verif/anchors.json from the tree the rules are written against (/repo HEAD):
# for every function / field a rule looks up by name, what it looks like (receiver,
# signature, callee set; field type; the struct's field names). Run after adding anchors.
set -e
cd "$(dirname "$0")/.."
./setup.sh >/dev/null
rm -f anchors.json
HOPVERIF_RECORD_ANCHORS=$PWD/anchors.json bin/hopverif check --prop all --repo ${1:-/repo} --out /tmp/hopverif-anchors-ev >/dev/null 2>&1 || true
rm -rf /tmp/hopverif-anchors-ev
python3 -c "import json;a=json.load(open('anchors.json'));print(len(a),'anchors recorded')"
