#!/usr/bin/env python3
"""Run the checker against in-memory mutants (go/packages overlays).

usage: mutants.py [--repo /repo] [--prop C01[,C02]] [--only name-substring] [-j N]

Mutant files: /verif/mutants/<prop>.json, a list of
  {"name": ..., "file": "transport/x.go", "find": "...", "replace": "...",
   "expect": "kill" | "silent", "rule": "C01.R1" (optional: must appear in the FAILED lines)}
A mutant whose 'find' text does not occur exactly once in the current source is
reported as 'stale' (not an error: the tree under test may differ).
Exit 0 iff every applicable mutant behaved as expected.
"""
import json, os, subprocess, sys, tempfile, argparse, concurrent.futures, glob, shutil

ap = argparse.ArgumentParser()
ap.add_argument('--repo', default='/repo')
ap.add_argument('--prop', default='')
ap.add_argument('--only', default='')
ap.add_argument('-j', type=int, default=8)
ap.add_argument('-v', action='store_true')
args = ap.parse_args()
VERIF = os.path.dirname(os.path.dirname(os.path.abspath(__file__)))
BIN = os.environ.get('HOPVERIF_BIN') or os.path.join(VERIF, 'bin', 'hopverif')

def rename_edits(m):
    """{"rename": {"dir": "transport", "old": "foo", "new": "bar"}}: word-boundary rename in every non-test file of dir"""
    import re
    r = m['rename']
    out = []
    d = os.path.join(args.repo, r['dir'])
    for f in sorted(os.listdir(d)):
        if not f.endswith('.go') or f.endswith('_test.go'):
            continue
        src = open(os.path.join(d, f)).read()
        new = re.sub(r'\b%s\b' % re.escape(r['old']), r['new'], src)
        if new != src:
            out.append((os.path.join(d, f), new))
    return out

def run_one(prop, m, tmpdir):
    if 'rename' in m:
        overlays = []
        for k, (path, new) in enumerate(rename_edits(m)):
            out = os.path.join(tmpdir, '%s_%s_%d.go' % (prop, abs(hash(m['name'])) % 10**8, k))
            open(out, 'w').write(new)
            overlays.append((path, out))
        if not overlays:
            return ('stale', 'identifier not found')
        return run_overlays(prop, m, overlays, tmpdir)
    edits = m.get('edits') or [m]
    overlays = []
    for k, e in enumerate(edits):
        path = os.path.join(args.repo, e['file'])
        try:
            src = open(path).read()
        except OSError:
            return ('stale', 'file missing')
        # several edits may touch the same file
        prev = [o for o in overlays if o[0] == path]
        if prev:
            src = open(prev[-1][1]).read()
        if src.count(e['find']) != 1:
            return ('stale', 'find text occurs %d times' % src.count(e['find']))
        out = os.path.join(tmpdir, '%s_%s_%d.go' % (prop, abs(hash(m['name'])) % 10**8, k))
        open(out, 'w').write(src.replace(e['find'], e['replace']))
        overlays = [o for o in overlays if o[0] != path] + [(path, out)]
    return run_overlays(prop, m, overlays, tmpdir)

def run_overlays(prop, m, overlays, tmpdir):
    ov = ','.join('%s=%s' % o for o in overlays)
    evdir = os.path.join(tmpdir, 'ev_%s_%d' % (prop, abs(hash(m['name'])) % 10**8))
    os.makedirs(evdir, exist_ok=True)
    p = subprocess.run([BIN, 'check', '--prop', prop, '--repo', args.repo, '--overlay', ov, '--out', evdir],
                       capture_output=True, text=True, timeout=600)
    failed = [l for l in p.stdout.splitlines() if l.startswith('FAILED') or l.startswith('UNDECIDED')]
    if m['expect'] == 'kill':
        if p.returncode == 1:
            if m.get('rule') and not any(m['rule'] in l for l in failed):
                return ('wrong-rule', '; '.join(failed)[:300])
            return ('ok', failed[0][:200] if failed else '')
        return ('SURVIVED', 'exit %d %s' % (p.returncode, (p.stdout[-300:] + p.stderr[-300:])))
    else:
        if p.returncode == 0:
            return ('ok', 'silent')
        return ('FALSE-ALARM', 'exit %d: %s' % (p.returncode, '; '.join(failed)[:400] + p.stderr[-300:]))

def main():
    files = sorted(glob.glob(os.path.join(VERIF, 'mutants', '*.json')))
    jobs = []
    for f in files:
        prop = os.path.basename(f)[:-5]
        if args.prop and prop not in args.prop.split(','):
            continue
        for m in json.load(open(f)):
            if args.only and args.only not in m['name']:
                continue
            jobs.append((prop, m))
    tmpdir = tempfile.mkdtemp(prefix='hopmut')
    bad = 0
    try:
        with concurrent.futures.ThreadPoolExecutor(max_workers=args.j) as ex:
            futs = {ex.submit(run_one, p, m, tmpdir): (p, m) for p, m in jobs}
            res = {}
            for fu in concurrent.futures.as_completed(futs):
                p, m = futs[fu]
                try:
                    res[(p, m['name'])] = fu.result()
                except Exception as e:
                    res[(p, m['name'])] = ('ERROR', repr(e))
        for p, m in jobs:
            st, info = res[(p, m['name'])]
            if st not in ('ok', 'stale'):
                bad += 1
            if args.v or st != 'ok':
                print('%-5s %-7s %-11s %-60s %s' % (p, m['expect'], st, m['name'], info if (args.v or st != 'ok') else ''))
        n_ok = sum(1 for v in res.values() if v[0] == 'ok')
        n_stale = sum(1 for v in res.values() if v[0] == 'stale')
        print('mutants: %d run, %d as expected, %d stale, %d unexpected' % (len(jobs), n_ok, n_stale, bad))
    finally:
        shutil.rmtree(tmpdir, ignore_errors=True)
    sys.exit(1 if bad else 0)

main()
