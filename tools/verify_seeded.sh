#!/bin/bash
# usage: verify_seeded.sh <agent-worktree> <seeded-id> <property> [demo-run-regex]
# Confirms a seeded change independently in a fresh scratch worktree of /repo HEAD:
#   build ok, existing suite green with the change, demo fails with the change, demo passes without.
# On success copies patch.diff, the demo and meta.json to /verif/seeded/<seeded-id>/.
# Each test run happens in a private network namespace (fixed UDP/TCP ports in the suite).
set -u
SRC=$1; ID=$2; PROP=$3; RX=${4:-TestSeeded}
export GOFLAGS=-mod=mod GOPROXY=off GOWORK=off
WT=/tmp/sv/$ID
OUT=/verif/seeded/$ID
rm -rf "$WT"; mkdir -p /tmp/sv
git -C /repo worktree add --detach "$WT" HEAD >/dev/null 2>&1 || { echo "worktree failed"; exit 2; }
cleanup() { git -C /repo worktree remove --force "$WT" >/dev/null 2>&1; }
trap cleanup EXIT
cd "$WT"
PATCH=$SRC/seeded/patch.diff
if ! git apply --check "$PATCH" 2>/dev/null; then
  if ! git apply -3 "$PATCH" 2>/tmp/sv/$ID.applyerr; then echo "PATCH DOES NOT APPLY to current HEAD"; cat /tmp/sv/$ID.applyerr; exit 3; fi
  git reset -q
else
  git apply "$PATCH"
fi
git diff > /tmp/sv/$ID.patch   # patch as applied on current HEAD
ns() { unshare -n sh -c "ip link set lo up; $1"; }
echo "== build"; go build ./... || { echo "BUILD FAILED"; exit 4; }
echo "== suite with change"
ns "go test -vet=off -count=1 -timeout 20m ./... 2>&1" > /tmp/sv/$ID.suite.log; SUITE=$?
grep -v "^ok\|no test files" /tmp/sv/$ID.suite.log | head -20
# demo files: every *_test.go or *.go.txt in seeded/ ; destination recorded by the agent in NOTES.md, we look at the agent's worktree
DEMOS=$(cd "$SRC" && git status --porcelain | grep '^??' | awk '{print $2}' | grep -v '^seeded/' )
echo "demo files: $DEMOS"
for d in $DEMOS; do mkdir -p "$(dirname "$d")"; cp -r "$SRC/$d" "$d"; done
PKGS=$(for d in $DEMOS; do echo "./$(dirname "$d")/"; done | sort -u | tr '\n' ' ')
echo "== demo with change (expect FAIL) in $PKGS"
ns "go test ${DEMO_FLAGS:-} -vet=off -count=1 -timeout 10m -run '$RX' $PKGS 2>&1" > /tmp/sv/$ID.demo_with.log; WITH=$?
tail -5 /tmp/sv/$ID.demo_with.log
git apply -R /tmp/sv/$ID.patch
echo "== demo without change (expect PASS)"
ns "go test ${DEMO_FLAGS:-} -vet=off -count=1 -timeout 10m -run '$RX' $PKGS 2>&1" > /tmp/sv/$ID.demo_without.log; WITHOUT=$?
tail -3 /tmp/sv/$ID.demo_without.log
echo "suite=$SUITE with=$WITH without=$WITHOUT"
if [ $SUITE -eq 0 ] && [ $WITH -ne 0 ] && [ $WITHOUT -eq 0 ]; then
  mkdir -p "$OUT/demo"
  cp /tmp/sv/$ID.patch "$OUT/patch.diff"
  for d in $DEMOS; do mkdir -p "$OUT/demo/$(dirname "$d")"; cp -r "$SRC/$d" "$OUT/demo/$d.txt" 2>/dev/null || cp -r "$SRC/$d" "$OUT/demo/$(dirname "$d")/"; done
  cp "$SRC/seeded/NOTES.md" "$OUT/NOTES.md" 2>/dev/null
  HEAD=$(git -C /repo rev-parse --short HEAD)
  python3 - "$OUT" "$ID" "$PROP" "$HEAD" "$RX" "$PKGS" <<'EOF'
import json,sys
out,id_,prop,head,rx,pkgs=sys.argv[1:7]
json.dump({"id":id_,"property":prop,"base_commit":head,
 "what_i_ran":["git worktree add --detach /tmp/sv/%s HEAD; git apply patch.diff"%id_,"go build ./...","unshare -n go test -vet=off -count=1 ./...   (suite green with the change)","demo placed (paths under demo/, '.txt' suffix added so it is not compiled here)","unshare -n go test -vet=off -count=1 -run '%s' %s   -> FAILS with the change, PASSES after git apply -R"%(rx,pkgs.strip())],
 "confirmed":{"builds":True,"suite_green_with_change":True,"demo_fails_with_change":True,"demo_passes_without_change":True},
 "needs_to_manifest":"see NOTES.md","detected_by":"(filled in by hand)"},open(out+"/meta.json","w"),indent=1)
EOF
  echo "CONFIRMED -> $OUT"
else
  echo "NOT CONFIRMED"
fi
