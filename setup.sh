#!/bin/sh
# Builds the checker offline from files on disk only.
set -e
cd "$(dirname "$0")/checker"
export GOFLAGS=-mod=mod GOPROXY=off GOWORK=off
unset GOSUMDB 2>/dev/null || true
mkdir -p ../bin ../evidence ../reports
go build -o ../bin/hopverif .
echo "built $(cd .. && pwd)/bin/hopverif"
